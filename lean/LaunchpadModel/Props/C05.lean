import LaunchpadModel.Model.Priv
/-!
# C05 — Privileged operations succeed only for the principal that owns them

The model (`Model/Priv.lean`) is the enumeration: `principal : Kind → MsgKind → PrincipalClass` is the table
(contract kind, message kind) ↦ who may send it, `authorised` is the guard each handler evaluates, and `step` puts
`if ¬authorised then err` in front of every message kind, followed by the hand-over effects on the authorisation
state.  The harness (`harness/src/bin/c05.rs`) ties every row of the table to the code: every `ExecuteMsg` variant of
every contract × every caller role × state class is run against the real contracts and compared with `step`.

All theorems quantify over EVERY authorisation state `s` (so in particular every reachable one: before/after start,
sold out, frozen or not, after any number of hand-overs), every caller, every argument and every witness `w`.
-/
namespace LP
open LP.Priv LP.Priv.PrincipalClass LP.Priv.MsgKind

/-! ## Enumerations are complete (so `∀ k ∈ X.all` below is `∀ k`) -/

theorem Priv.MinterKind.mem_all (k : MinterKind) : k ∈ MinterKind.all := by cases k <;> decide
theorem Priv.CollKind.mem_all (k : CollKind) : k ∈ CollKind.all := by cases k <;> decide
theorem Priv.WlKind.mem_all (k : WlKind) : k ∈ WlKind.all := by cases k <;> decide
theorem Priv.FactoryKind.mem_all (k : FactoryKind) : k ∈ FactoryKind.all := by cases k <;> decide
theorem Priv.MsgKind.mem_all (m : MsgKind) : m ∈ MsgKind.all := by cases m <;> decide

/-! ## The guard: an unauthorised caller is rejected and nothing changes -/

/-- "every operation reserved to a role fails for every other caller and changes nothing" — for every state,
every privileged (contract kind, message kind), every caller that does not satisfy the row's principal class,
every argument and whatever the other preconditions are: the call errs, and (transactions being atomic) the
state after it is the state before it. -/
theorem C05_reject (s : AuthState) (c : Caller) (k : Kind) (m : MsgKind) (a : Args) (w : Bool)
    (_hp : privileged k m = true) (hu : authorised s c (principal k m) = false) :
    step s (.exec c k m a w) = none ∧ step' s (.exec c k m a w) = s := by
  simp [step, step', hu]

/-- the converse half of the guard: for the messages whose effect lies outside the authorisation state, an authorised
caller whose other preconditions hold (`w`) is accepted — so `C05_reject` is not true just because `step` always errs -/
theorem C05_accept (s : AuthState) (c : Caller) (k : Kind) (m : MsgKind) (a : Args)
    (ha : authorised s c (principal k m) = true)
    (hm : m ∉ [updateCollectionInfo, freezeCollectionInfo, transferOwnership, acceptOwnership, renounceOwnership,
               updateAdmins, freeze, updateAdmin, updateMembers]) :
    step s (.exec c k m a true) = some s := by
  simp only [List.mem_cons, List.not_mem_nil, or_false, not_or] at hm
  obtain ⟨h1, h2, h3, h4, h5, h6, h7, h8, h9⟩ := hm
  simp only [step, ha, Bool.not_true, Bool.false_eq_true, if_false]
  cases k <;> cases m <;> simp_all [effect]

/-- rows nobody can ever pass: messages a contract kind does not have, `extension` (`todo!()`), and the sudo-only
messages sent through `execute` -/
theorem C05_reject_nobody (s : AuthState) (c : Caller) (k : Kind) (m : MsgKind) (a : Args) (w : Bool)
    (h : principal k m = nobody ∨ principal k m = sudoOnly) : step s (.exec c k m a w) = none := by
  rcases h with h | h <;> simp [step, h, authorised]

/-! ## The table, clause by clause (each clause of the property = table rows + `C05_reject`) -/

/-- minter configuration, airdrop and burn-remaining message kinds -/
def minterAdminMsgs : List MsgKind :=
  [setWhitelist, updateMintPrice, updateStartTime, updateEndTime, updateStartTradingTime, updatePerAddressLimit,
   mintTo, mintFor, burnRemaining, updateDiscountPrice, removeDiscountPrice]

theorem C05_table_minter_admin :
    ∀ k ∈ MinterKind.all, k ≠ .base → ∀ m ∈ minterAdminMsgs,
      principal (.minter k) m = minterAdmin ∨ principal (.minter k) m = nobody := by decide

/-- what each family actually has (the `nobody` alternative above is only "the family lacks that message") -/
theorem C05_table_minter_admin_vending :
    ∀ k ∈ MinterKind.all, k.family = .vending →
      ∀ m ∈ [setWhitelist, updateMintPrice, updateStartTime, updateStartTradingTime, updatePerAddressLimit,
             mintTo, mintFor, burnRemaining, updateDiscountPrice, removeDiscountPrice],
        principal (.minter k) m = minterAdmin := by decide

theorem C05_table_minter_admin_open_edition :
    ∀ k ∈ MinterKind.all, k.family = .openEdition →
      ∀ m ∈ [setWhitelist, updateMintPrice, updateStartTime, updateEndTime, updateStartTradingTime,
             updatePerAddressLimit, mintTo, burnRemaining],
        principal (.minter k) m = minterAdmin := by decide

theorem C05_table_minter_admin_token_merge :
    ∀ m ∈ [updateStartTime, updateStartTradingTime, updatePerAddressLimit, mintTo, mintFor, burnRemaining],
      principal (.minter .tokenMerge) m = minterAdmin := by decide

/-- "minter configuration, airdrops and burn-remaining only for the minter admin (the collection creator)".

FULL clause, reading the parenthesis as an identity ("the minter admin IS the collection creator, in every reachable state"):

    theorem C05_clause_minter_admin (s) (c) (k ≠ .base) (m ∈ minterAdminMsgs) (hc : c.addr ≠ s.creator) :
        step s (.exec c (.minter k) m a w) = none

That reading is NOT proved (recorded as an observation — DESIGN 13.3 —, not a finding: the parenthesis holds at creation, which
is what the property is taken to state): `Config.extension.admin` is written once, at creation (where it equals the
creator), and no message updates it; `update_collection_info{creator}` moves the collection creator only.  After such a
hand-over the OLD creator keeps every configuration / airdrop / burn-remaining right and the NEW creator has none
(`C05_clause_minter_admin_counterexample`, replayed on the real contracts: corpus/C05/minter-admin-not-creator.json).
PROVED part: the rows are reserved to `minterAdmin` — whoever that is — in every state. -/
theorem C05_clause_minter_admin_partial (s : AuthState) (c : Caller) (k : MinterKind) (m : MsgKind) (a : Args) (w : Bool)
    (hk : k ≠ .base) (hm : m ∈ minterAdminMsgs) (hc : c.addr ≠ s.minterAdmin) :
    step s (.exec c (.minter k) m a w) = none ∧ step' s (.exec c (.minter k) m a w) = s := by
  have ht := C05_table_minter_admin k (Priv.MinterKind.mem_all k) hk m hm
  have hu : authorised s c (principal (.minter k) m) = false := by
    rcases ht with h | h <;> simp [h, authorised, hc]
  simp [step, step', hu]

theorem C05_table_collection_minter :
    ∀ k ∈ CollKind.all, principal (.collection k) mint = collMinter ∧
      (principal (.collection k) updateStartTradingTime = collMinter ∨
       principal (.collection k) updateStartTradingTime = nobody) := by decide

/-- "token minting and trading-time updates on a collection only for its minter" (the cw_ownable owner) -/
theorem C05_clause_collection_minter (s : AuthState) (c : Caller) (k : CollKind) (m : MsgKind) (a : Args) (w : Bool)
    (hm : m = mint ∨ m = updateStartTradingTime) (hc : s.collOwner ≠ some c.addr) :
    step s (.exec c (.collection k) m a w) = none ∧ step' s (.exec c (.collection k) m a w) = s := by
  have ht := C05_table_collection_minter k (Priv.CollKind.mem_all k)
  have hu : authorised s c (principal (.collection k) m) = false := by
    rcases hm with rfl | rfl
    · simp [ht.1, authorised, hc]
    · rcases ht.2 with h | h <;> simp [h, authorised, hc]
  simp [step, step', hu]

def creatorMsgs : List MsgKind :=
  [updateCollectionInfo, freezeCollectionInfo, freezeTokenMetadata, updateTokenMetadata, enableUpdatable]

theorem C05_table_collection_creator :
    ∀ k ∈ CollKind.all,
      principal (.collection k) updateCollectionInfo = creator ∧
      principal (.collection k) freezeCollectionInfo = creator ∧
      (∀ m ∈ [freezeTokenMetadata, updateTokenMetadata, enableUpdatable],
        principal (.collection k) m = (if k = .updatable then creator else nobody)) := by decide

/-- "collection-info, freeze and token-metadata updates only for the collection creator" -/
theorem C05_clause_collection_creator (s : AuthState) (c : Caller) (k : CollKind) (m : MsgKind) (a : Args) (w : Bool)
    (hm : m ∈ creatorMsgs) (hc : c.addr ≠ s.creator) :
    step s (.exec c (.collection k) m a w) = none ∧ step' s (.exec c (.collection k) m a w) = s := by
  have ht := C05_table_collection_creator k (Priv.CollKind.mem_all k)
  have hu : authorised s c (principal (.collection k) m) = false := by
    simp only [creatorMsgs, List.mem_cons, List.not_mem_nil, or_false] at hm
    rcases hm with rfl | rfl | rfl | rfl | rfl
    · simp [ht.1, authorised, hc]
    · simp [ht.2.1, authorised, hc]
    · have h := ht.2.2 freezeTokenMetadata (by decide); split at h <;> simp [h, authorised, hc]
    · have h := ht.2.2 updateTokenMetadata (by decide); split at h <;> simp [h, authorised, hc]
    · have h := ht.2.2 enableUpdatable (by decide); split at h <;> simp [h, authorised, hc]
  simp [step, step', hu]

/-- whitelist membership and schedule message kinds -/
def wlAdminMsgs : List MsgKind :=
  [addMembers, removeMembers, updateStartTime, updateEndTime, updatePerAddressLimit, addStage, removeStage,
   updateStageConfig]

theorem C05_table_whitelist :
    ∀ k ∈ WlKind.all,
      (∀ m ∈ wlAdminMsgs, principal (.whitelist k) m = wlAdmin ∨ principal (.whitelist k) m = nobody) ∧
      (∀ m ∈ [updateAdmins, freeze],
        principal (.whitelist k) m = (if k = .immutable then nobody else wlAdminMutable)) := by decide

/-- what each whitelist kind actually has -/
theorem C05_table_whitelist_rows :
    (∀ m ∈ [updateStartTime, updateEndTime, addMembers, removeMembers, updatePerAddressLimit],
        principal (.whitelist .plain) m = wlAdmin) ∧
    (∀ m ∈ [updateStartTime, updateEndTime, addMembers, removeMembers], principal (.whitelist .flex) m = wlAdmin) ∧
    (∀ k ∈ [WlKind.tiered, WlKind.tieredFlex], ∀ m ∈ [addStage, removeStage, addMembers, removeMembers, updateStageConfig],
        principal (.whitelist k) m = wlAdmin) ∧
    (∀ m ∈ [updateStartTime, updateEndTime], principal (.whitelist .merkle) m = wlAdmin) ∧
    principal (.whitelist .tieredMerkle) updateStageConfig = wlAdmin ∧
    (∀ m ∈ MsgKind.all, principal (.whitelist .immutable) m = nobody) := by decide

/-- "whitelist membership, schedule and admin-list changes only for whitelist admins" -/
theorem C05_clause_whitelist_admin (s : AuthState) (c : Caller) (k : WlKind) (m : MsgKind) (a : Args) (w : Bool)
    (hm : m ∈ wlAdminMsgs ∨ m = updateAdmins ∨ m = freeze) (hc : c.addr ∉ s.wlAdmins) :
    step s (.exec c (.whitelist k) m a w) = none ∧ step' s (.exec c (.whitelist k) m a w) = s := by
  have ht := C05_table_whitelist k (Priv.WlKind.mem_all k)
  have hu : authorised s c (principal (.whitelist k) m) = false := by
    rcases hm with hm | rfl | rfl
    · rcases ht.1 m hm with h | h <;> simp [h, authorised, hc]
    · have h := ht.2 updateAdmins (by decide); split at h <;> simp [h, authorised, hc]
    · have h := ht.2 freeze (by decide); split at h <;> simp [h, authorised, hc]
  simp [step, step', hu]

/-- "(and admin-list changes never once frozen)" — for EVERY caller, admins included -/
theorem C05_clause_whitelist_frozen (s : AuthState) (c : Caller) (k : WlKind) (m : MsgKind) (a : Args) (w : Bool)
    (hm : m = updateAdmins ∨ m = freeze) (hf : s.wlMutable = false) :
    step s (.exec c (.whitelist k) m a w) = none ∧ step' s (.exec c (.whitelist k) m a w) = s := by
  have ht := C05_table_whitelist k (Priv.WlKind.mem_all k)
  have hu : authorised s c (principal (.whitelist k) m) = false := by
    rcases hm with rfl | rfl
    · have h := ht.2 updateAdmins (by decide); split at h <;> simp [h, authorised, hf]
    · have h := ht.2 freeze (by decide); split at h <;> simp [h, authorised, hf]
  simp [step, step', hu]

theorem C05_table_splits :
    principal .splits distribute = splitsAdminElseMember ∧ principal .splits updateAdmin = splitsAdmin := by decide

/-- "splits distribution only for the admin, or any group member when no admin is set" -/
theorem C05_clause_splits (s : AuthState) (c : Caller) (a : Args) (w : Bool)
    (hc : (∃ adm, s.splitsAdmin = some adm ∧ adm ≠ c.addr) ∨ (s.splitsAdmin = none ∧ c.addr ∉ s.members)) :
    step s (.exec c .splits distribute a w) = none ∧ step' s (.exec c .splits distribute a w) = s := by
  have hu : authorised s c (principal .splits distribute) = false := by
    rcases hc with ⟨adm, h1, h2⟩ | ⟨h1, h2⟩ <;> simp [C05_table_splits.1, authorised, h1, h2]
  simp [step, step', hu]

/-- the splits admin can only be replaced by the splits admin (nobody when unset) -/
theorem C05_clause_splits_admin (s : AuthState) (c : Caller) (a : Args) (w : Bool) (hc : s.splitsAdmin ≠ some c.addr) :
    step s (.exec c .splits updateAdmin a w) = none ∧ step' s (.exec c .splits updateAdmin a w) = s := by
  have hu : authorised s c (principal .splits updateAdmin) = false := by
    simp [C05_table_splits.2, authorised, hc]
  simp [step, step', hu]

theorem C05_table_base_minter :
    principal (.minter .base) mint = creator ∧ principal (.minter .base) updateStartTradingTime = creator := by decide

/-- "base-minter mints only for the collection creator" -/
theorem C05_clause_base_minter (s : AuthState) (c : Caller) (m : MsgKind) (a : Args) (w : Bool)
    (hm : m = mint ∨ m = updateStartTradingTime) (hc : c.addr ≠ s.creator) :
    step s (.exec c (.minter .base) m a w) = none ∧ step' s (.exec c (.minter .base) m a w) = s := by
  have hu : authorised s c (principal (.minter .base) m) = false := by
    rcases hm with rfl | rfl
    · simp [C05_table_base_minter.1, authorised, hc]
    · simp [C05_table_base_minter.2, authorised, hc]
  simp [step, step', hu]

/-- the only unreserved rows of the whole table (everything else is privileged): the public sale messages, the paid
capacity increase, factory `create_minter`, and the cw721 token-level messages (owner/approval checks: C09) -/
theorem C05_table_public_rows :
    ∀ k ∈ Kind.all, ∀ m ∈ MsgKind.all, principal k m = anyone →
      m ∈ [mint, purge, shuffle, increaseMemberLimit, createMinter,
           transferNft, sendNft, approve, revoke, approveAll, revokeAll, burn] := by decide

/-! ## Inversion of `effect` and of the guard (proof infrastructure) -/

/-- every successful effect is the identity on the authorisation state or one of the ten hand-over effects -/
theorem Priv.effect_inv {s : AuthState} {k : Kind} {m : MsgKind} {a : Args} {w : Bool} {s' : AuthState}
    (h : effect s k m a w = some s') :
    s' = s ∨
    (∃ ck, k = .collection ck ∧ m = updateCollectionInfo ∧ s.collFrozen = false ∧
        s' = { s with creator := a.newCreator.getD s.creator }) ∨
    (∃ ck, k = .collection ck ∧ m = freezeCollectionInfo ∧ s' = { s with collFrozen := true }) ∨
    (∃ ck, k = .collection ck ∧ m = transferOwnership ∧
        s' = { s with collPending := some a.newOwner, collPendingExpiry := a.expiry }) ∨
    (∃ ck, k = .collection ck ∧ m = acceptOwnership ∧ transferExpired s = false ∧
        s' = { s with collOwner := s.collPending, collPending := none, collPendingExpiry := none }) ∨
    (∃ ck, k = .collection ck ∧ m = renounceOwnership ∧
        s' = { s with collOwner := none, collPending := none, collPendingExpiry := none }) ∨
    (∃ wk, k = .whitelist wk ∧ m = updateAdmins ∧ s' = { s with wlAdmins := a.admins }) ∨
    (∃ wk, k = .whitelist wk ∧ m = freeze ∧ s' = { s with wlMutable := false }) ∨
    (k = .splits ∧ m = updateAdmin ∧ s' = { s with splitsAdmin := a.newAdmin }) ∨
    (k = .group ∧ m = updateAdmin ∧ s' = { s with groupAdmin := a.newAdmin }) ∨
    (k = .group ∧ m = updateMembers ∧ s' = { s with members := updMembers s.members a.add a.remove }) := by
  unfold effect at h
  split at h
  · split at h
    · cases h
    · rename_i hf; simp at h; simp at hf; subst h; exact Or.inr (Or.inl ⟨_, rfl, rfl, hf, rfl⟩)
  · simp at h; subst h; exact Or.inr (Or.inr (Or.inl ⟨_, rfl, rfl, rfl⟩))
  · simp at h; subst h; exact Or.inr (Or.inr (Or.inr (Or.inl ⟨_, rfl, rfl, rfl⟩)))
  · split at h
    · cases h
    · rename_i he; simp at h; simp at he; subst h
      exact Or.inr (Or.inr (Or.inr (Or.inr (Or.inl ⟨_, rfl, rfl, he, rfl⟩))))
  · simp at h; subst h; exact Or.inr (Or.inr (Or.inr (Or.inr (Or.inr (Or.inl ⟨_, rfl, rfl, rfl⟩)))))
  · simp at h; subst h; exact Or.inr (Or.inr (Or.inr (Or.inr (Or.inr (Or.inr (Or.inl ⟨_, rfl, rfl, rfl⟩))))))
  · simp at h; subst h
    exact Or.inr (Or.inr (Or.inr (Or.inr (Or.inr (Or.inr (Or.inr (Or.inl ⟨_, rfl, rfl, rfl⟩)))))))
  · simp at h; subst h
    exact Or.inr (Or.inr (Or.inr (Or.inr (Or.inr (Or.inr (Or.inr (Or.inr (Or.inl ⟨rfl, rfl, rfl⟩))))))))
  · simp at h; subst h
    exact Or.inr (Or.inr (Or.inr (Or.inr (Or.inr (Or.inr (Or.inr (Or.inr (Or.inr (Or.inl ⟨rfl, rfl, rfl⟩)))))))))
  · simp at h; subst h
    exact Or.inr (Or.inr (Or.inr (Or.inr (Or.inr (Or.inr (Or.inr (Or.inr (Or.inr (Or.inr ⟨rfl, rfl, rfl⟩)))))))))
  · split at h
    · simp at h; exact Or.inl h.symm
    · cases h

/-- a successful `exec` passed the guard and then the effect -/
theorem Priv.exec_inv {s : AuthState} {c : Caller} {k : Kind} {m : MsgKind} {a : Args} {w : Bool} {s' : AuthState}
    (h : step s (.exec c k m a w) = some s') :
    authorised s c (principal k m) = true ∧ effect s k m a w = some s' := by
  simp only [step] at h
  split at h
  · cases h
  · rename_i hg; exact ⟨by simpa using hg, h⟩

theorem Priv.step'_of_none {s : AuthState} {op : Op} (h : step s op = none) : step' s op = s := by simp [step', h]
theorem Priv.step'_of_some {s s' : AuthState} {op : Op} (h : step s op = some s') : step' s op = s' := by simp [step', h]

/-- `inst` never changes the state -/
theorem Priv.step'_inst (s : AuthState) (c : Caller) (k : Kind) (w : Bool) : step' s (.inst c k w) = s := by
  simp only [step', step]; split
  · rfl
  · split <;> rfl

/-- the hand-over rows of the table -/
theorem Priv.table_handover :
    (∀ ck ∈ CollKind.all, principal (.collection ck) updateCollectionInfo = creator ∧
        (principal (.collection ck) acceptOwnership = pendingOwner ∨ principal (.collection ck) acceptOwnership = nobody) ∧
        (principal (.collection ck) renounceOwnership = collMinter ∨ principal (.collection ck) renounceOwnership = nobody) ∧
        (principal (.collection ck) transferOwnership = collMinter ∨ principal (.collection ck) transferOwnership = nobody)) ∧
    (∀ wk ∈ WlKind.all, ∀ m ∈ [updateAdmins, freeze],
        principal (.whitelist wk) m = wlAdminMutable ∨ principal (.whitelist wk) m = nobody) := by decide

/-! ## Admin lists are final once frozen -/

theorem Priv.step'_frozen (s : AuthState) (op : Op) (hf : s.wlMutable = false) :
    (step' s op).wlAdmins = s.wlAdmins ∧ (step' s op).wlMutable = false := by
  cases op with
  | tick t => simp [step', step, hf]
  | inst c k w => rw [Priv.step'_inst]; exact ⟨rfl, hf⟩
  | sudo k m v w =>
    simp only [step', step]; split
    · simp [hf]
    · split <;> simp [hf]
  | exec c k m a w =>
    cases hst : step s (.exec c k m a w) with
    | none => rw [Priv.step'_of_none hst]; exact ⟨rfl, hf⟩
    | some s' =>
      rw [Priv.step'_of_some hst]
      obtain ⟨hauth, heff⟩ := Priv.exec_inv hst
      have hwl : ∀ wk, k = .whitelist wk → m = updateAdmins ∨ m = freeze → False := by
        intro wk hk hm; subst hk
        have ht := Priv.table_handover.2 wk (Priv.WlKind.mem_all wk) m (by rcases hm with rfl | rfl <;> decide)
        rcases ht with h | h <;> simp [h, authorised, hf] at hauth
      rcases Priv.effect_inv heff with rfl | ⟨_, _, _, _, rfl⟩ | ⟨_, _, _, rfl⟩ | ⟨_, _, _, rfl⟩ | ⟨_, _, _, _, rfl⟩ |
        ⟨_, _, _, rfl⟩ | ⟨wk, hk, hm, _⟩ | ⟨wk, hk, hm, _⟩ | ⟨_, _, rfl⟩ | ⟨_, _, rfl⟩ | ⟨_, _, rfl⟩
      all_goals first
        | exact ⟨rfl, hf⟩
        | exact (hwl wk hk (Or.inl hm)).elim
        | exact (hwl wk hk (Or.inr hm)).elim

/-- "admin-list changes never once frozen": once `mutable = false`, the admin list (and the flag) is constant over ALL
continuations — arbitrary callers (admins included), arbitrary messages on any contract, sudo, instantiate, time. -/
theorem C05_frozen_admins (s : AuthState) (hf : s.wlMutable = false) (ops : List Op) :
    (run s ops).wlAdmins = s.wlAdmins ∧ (run s ops).wlMutable = false := by
  induction ops generalizing s with
  | nil => exact ⟨rfl, hf⟩
  | cons op ops ih =>
    have h := Priv.step'_frozen s op hf
    have := ih (step' s op) h.2
    simp only [run, List.foldl_cons] at this ⊢
    exact ⟨this.1.trans h.1, this.2⟩

/-- and `freeze` by an admin does reach that state (non-vacuity of the hypothesis, for every state) -/
theorem C05_freeze_freezes (s : AuthState) (c : Caller) (k : WlKind) (a : Args) (w : Bool) (hk : k ≠ .immutable)
    (hm : s.wlMutable = true) (hc : c.addr ∈ s.wlAdmins) :
    (step' s (.exec c (.whitelist k) freeze a w)).wlMutable = false := by
  cases k <;> simp_all [step', step, principal, wlPrincipal, authorised, effect]

/-! ## Factory params and minter status change only through sudo; minter admin never changes -/

theorem Priv.step'_frame (s : AuthState) (op : Op) (h : op.isSudo = false) :
    (step' s op).params = s.params ∧ (step' s op).status = s.status ∧ (step' s op).minterAdmin = s.minterAdmin ∧
    (step' s op).mergeSources = s.mergeSources := by
  cases op with
  | tick t => simp [step', step]
  | inst c k w => rw [Priv.step'_inst]; exact ⟨rfl, rfl, rfl, rfl⟩
  | sudo k m v w => simp [Op.isSudo] at h
  | exec c k m a w =>
    cases hst : step s (.exec c k m a w) with
    | none => rw [Priv.step'_of_none hst]; exact ⟨rfl, rfl, rfl, rfl⟩
    | some s' =>
      rw [Priv.step'_of_some hst]
      obtain ⟨_, heff⟩ := Priv.exec_inv hst
      rcases Priv.effect_inv heff with rfl | ⟨_, _, _, _, rfl⟩ | ⟨_, _, _, rfl⟩ | ⟨_, _, _, rfl⟩ | ⟨_, _, _, _, rfl⟩ |
        ⟨_, _, _, rfl⟩ | ⟨_, _, _, rfl⟩ | ⟨_, _, _, rfl⟩ | ⟨_, _, rfl⟩ | ⟨_, _, rfl⟩ | ⟨_, _, rfl⟩ <;>
      exact ⟨rfl, rfl, rfl, rfl⟩

/-- "Factory parameters and minter status change only through governance (sudo), never through a user message" —
PARTIAL.  Proved: no `execute` (by anyone, of any message kind, on any contract, with any arguments, whatever its outcome)
and no `instantiate` changes them.

What is missing: `LP.Priv.Op` has NO migrate operation (tick / exec / inst / sudo only).  All four factories'
`migrate(Option<UpdateParamsMsg>)` apply the same `update_params` as sudo `UpdateParams` and save `SUDO_PARAMS`; the entry
point is reachable through `MsgMigrateContract` by the factory's wasm admin.  Whether that admin is governance is a
deployment fact, not checked here (migrate entry points are C20's subject).  So the full clause "…ONLY through governance"
is proved for histories of execute / instantiate / tick, not for histories containing a migrate.

This is a FRAME fact of the model (`effect` has no branch writing `params` / `status`): that no execute handler of the code
writes params / status is checked only by the monitors `execute-changed-params|status`. -/
theorem C05_sudo_only_partial (s : AuthState) (c : Caller) (k : Kind) (m : MsgKind) (a : Args) (w : Bool) :
    (step' s (.exec c k m a w)).params = s.params ∧ (step' s (.exec c k m a w)).status = s.status ∧
    (step' s (.inst c k w)).params = s.params ∧ (step' s (.inst c k w)).status = s.status := by
  have h1 := Priv.step'_frame s (.exec c k m a w) rfl
  have h2 := Priv.step'_frame s (.inst c k w) rfl
  exact ⟨h1.1, h1.2.1, h2.1, h2.2.1⟩

/-- alias of `C05_sudo_only_partial` (kept because other modules refer to it) -/
theorem C05_sudo_only (s : AuthState) (c : Caller) (k : Kind) (m : MsgKind) (a : Args) (w : Bool) :
    (step' s (.exec c k m a w)).params = s.params ∧ (step' s (.exec c k m a w)).status = s.status ∧
    (step' s (.inst c k w)).params = s.params ∧ (step' s (.inst c k w)).status = s.status :=
  C05_sudo_only_partial s c k m a w

/-- the same over every history without a sudo op — PARTIAL in the same sense: histories are lists of
tick / execute / instantiate (/ sudo, excluded by `h`); `MsgMigrateContract` of a factory by its wasm admin is not an
operation of the model and is NOT covered. -/
theorem C05_sudo_only_run_partial (s : AuthState) (ops : List Op) (h : ∀ op ∈ ops, op.isSudo = false) :
    (run s ops).params = s.params ∧ (run s ops).status = s.status := by
  induction ops generalizing s with
  | nil => exact ⟨rfl, rfl⟩
  | cons op ops ih =>
    have h1 := Priv.step'_frame s op (h op (by simp))
    have h2 := ih (step' s op) (fun o ho => h o (by simp [ho]))
    simp only [run, List.foldl_cons] at h2 ⊢
    exact ⟨h2.1.trans h1.1, h2.2.trans h1.2.1⟩

/-- alias of `C05_sudo_only_run_partial` (kept because other modules refer to it) -/
theorem C05_sudo_only_run (s : AuthState) (ops : List Op) (h : ∀ op ∈ ops, op.isSudo = false) :
    (run s ops).params = s.params ∧ (run s ops).status = s.status :=
  C05_sudo_only_run_partial s ops h

/-- the sudo messages themselves are rejected when a user sends them through `execute` -/
theorem C05_sudo_rows :
    (∀ f ∈ FactoryKind.all, principal (.factory f) updateParams = sudoOnly) ∧
    (∀ k ∈ MinterKind.all, principal (.minter k) updateStatus = sudoOnly) := by decide

theorem C05_sudo_msg_via_execute_rejected (s : AuthState) (c : Caller) (a : Args) (w : Bool) :
    (∀ f, step s (.exec c (.factory f) updateParams a w) = none) ∧
    (∀ k, step s (.exec c (.minter k) updateStatus a w) = none) := by
  refine ⟨fun f => ?_, fun k => ?_⟩
  · exact C05_reject_nobody s c _ _ a w (Or.inr (C05_sudo_rows.1 f (Priv.FactoryKind.mem_all f)))
  · exact C05_reject_nobody s c _ _ a w (Or.inr (C05_sudo_rows.2 k (Priv.MinterKind.mem_all k)))

/-- no message at all changes the minter's admin or the token-merge source list: over ALL histories (sudo included).
A FRAME fact of the model (`effect` and the sudo branch have no case writing `minterAdmin` / `mergeSources`); that no handler
of the code does is checked only by the monitor `auth-state-changed-outside-handover`. -/
theorem C05_minter_admin_constant (s : AuthState) (ops : List Op) :
    (run s ops).minterAdmin = s.minterAdmin ∧ (run s ops).mergeSources = s.mergeSources := by
  induction ops generalizing s with
  | nil => exact ⟨rfl, rfl⟩
  | cons op ops ih =>
    have h1 : (step' s op).minterAdmin = s.minterAdmin ∧ (step' s op).mergeSources = s.mergeSources := by
      cases hop : op.isSudo
      · have := Priv.step'_frame s op hop; exact ⟨this.2.2.1, this.2.2.2⟩
      · cases op with
        | sudo k m v w =>
          simp only [step', step]; split
          · simp
          · split <;> simp
        | tick t => simp [Op.isSudo] at hop
        | inst c k w => simp [Op.isSudo] at hop
        | exec c k m a w => simp [Op.isSudo] at hop
    have h2 := ih (step' s op)
    simp only [run, List.foldl_cons] at h2 ⊢
    exact ⟨h2.1.trans h1.1, h2.2.trans h1.2⟩

/-! ## Instantiate: minters and collections only by a contract -/

/-- "a minter or collection can only be instantiated by a contract, never directly by a user account" — a TABLE fact of
the model: unfolds `instPrincipal` (= `contractOnly` for these kinds) and `authorised _ c contractOnly = c.isContract`; tied
to the code by the harness only (direct instantiate of all 28 kinds, sender and `minter` field varied independently). -/
theorem C05_instantiate_contract_only (s : AuthState) (c : Caller) (k : Kind) (w : Bool)
    (hk : (∃ m, k = .minter m) ∨ (∃ cl, k = .collection cl)) (hc : c.isContract = false) :
    step s (.inst c k w) = none ∧ step' s (.inst c k w) = s := by
  rcases hk with ⟨m, rfl⟩ | ⟨cl, rfl⟩ <;> simp [step, step', instPrincipal, authorised, hc]

/-! ## Hand-over: the new principal passes, the old one is rejected -/

/-- collection creator hand-over (`update_collection_info{creator: b}` by the creator, info not frozen):
afterwards `b` is the `creator` principal and `a ≠ b` no longer is — every creator-reserved message now fails for the
old creator (also on the base minter, which reads the creator live) and passes the guard for the new one. -/
theorem C05_principal_tracks_handover_creator (s : AuthState) (old new : Caller) (k : CollKind) (args : Args) (w : Bool)
    (hold : old.addr = s.creator) (hfz : s.collFrozen = false) (hnew : args.newCreator = some new.addr)
    (hne : old.addr ≠ new.addr) :
    let s' := step' s (.exec old (.collection k) updateCollectionInfo args w)
    s'.creator = new.addr ∧ authorised s' new creator = true ∧ authorised s' old creator = false ∧
    (∀ m ∈ creatorMsgs, ∀ a2 w2, step s' (.exec old (.collection k) m a2 w2) = none) ∧
    step s' (.exec new (.collection k) freezeCollectionInfo args w) ≠ none ∧
    (∀ a2, step s' (.exec new (.minter .base) mint a2 true) = some s') ∧
    (∀ a2 w2, step s' (.exec old (.minter .base) mint a2 w2) = none) := by
  have hs : step' s (.exec old (.collection k) updateCollectionInfo args w) = { s with creator := new.addr } := by
    have hp : principal (.collection k) updateCollectionInfo = creator := by cases k <;> rfl
    simp [step', step, hp, authorised, hold, effect, hfz, hnew]
  intro s'
  rw [show s' = _ from hs]
  refine ⟨rfl, by simp [authorised], by simp [authorised, hne], ?_, ?_, ?_, ?_⟩
  · intro m hm a2 w2
    exact (C05_clause_collection_creator { s with creator := new.addr } old k m a2 w2 hm hne).1
  · have hp : principal (.collection k) freezeCollectionInfo = creator := by cases k <;> rfl
    simp [step, hp, authorised, effect]
  · intro a2; simp [step, principal, minterPrincipal, MinterKind.family, authorised, effect]
  · intro a2 w2
    exact (C05_clause_base_minter { s with creator := new.addr } old mint a2 w2 (Or.inl rfl) hne).1

/-- cw_ownable hand-over of the collection's minter role: `transfer_ownership{new}` by the owner, then
`accept_ownership` by `new` before the expiry: `new` is the `collMinter` principal, `old` is rejected on `mint` -/
theorem C05_principal_tracks_handover_owner (s : AuthState) (old new : Caller) (k : CollKind) (args : Args) (w : Bool)
    (hk : k = .base ∨ k = .metadataOnchain)
    (hold : s.collOwner = some old.addr) (hnew : args.newOwner = new.addr)
    (hex : ∀ t, args.expiry = some t → s.now < t) (hne : old.addr ≠ new.addr) :
    let s1 := step' s (.exec old (.collection k) transferOwnership args w)
    let s2 := step' s1 (.exec new (.collection k) acceptOwnership args w)
    s1.collOwner = some old.addr ∧ s1.collPending = some new.addr ∧
    s2.collOwner = some new.addr ∧ s2.collPending = none ∧
    authorised s2 new collMinter = true ∧ authorised s2 old collMinter = false ∧
    (∀ a2 w2, step s2 (.exec old (.collection k) mint a2 w2) = none) ∧
    (∀ a2, step s2 (.exec new (.collection k) mint a2 true) = some s2) := by
  have hp1 : principal (.collection k) transferOwnership = collMinter := by rcases hk with rfl | rfl <;> rfl
  have hp2 : principal (.collection k) acceptOwnership = pendingOwner := by rcases hk with rfl | rfl <;> rfl
  have hs1 : step' s (.exec old (.collection k) transferOwnership args w)
      = { s with collPending := some new.addr, collPendingExpiry := args.expiry } := by
    simp [step', step, hp1, authorised, hold, effect, hnew]
  have hexp : transferExpired { s with collPending := some new.addr, collPendingExpiry := args.expiry } = false := by
    unfold transferExpired
    cases he : args.expiry with
    | none => simp
    | some t => have := hex t he; simp; omega
  have hs2 : step' { s with collPending := some new.addr, collPendingExpiry := args.expiry }
      (.exec new (.collection k) acceptOwnership args w)
      = { s with collOwner := some new.addr, collPending := none, collPendingExpiry := none } := by
    simp [step', step, hp2, authorised, effect, hexp]
  intro s1 s2
  have e1 : s1 = _ := hs1
  have e2 : s2 = { s with collOwner := some new.addr, collPending := none, collPendingExpiry := none } := by
    show step' s1 _ = _
    rw [e1]; exact hs2
  rw [e2, e1]
  have hpm : principal (.collection k) mint = collMinter := by cases k <;> rfl
  refine ⟨hold, rfl, rfl, rfl, by simp [authorised], by simp [authorised, Ne.symm hne], ?_, ?_⟩
  · intro a2 w2
    exact (C05_clause_collection_minter
      { s with collOwner := some new.addr, collPending := none, collPendingExpiry := none } old k mint a2 w2
      (Or.inl rfl) (by simp [Ne.symm hne])).1
  · intro a2; simp [step, hpm, authorised, effect]

/-- the pending owner is not yet the minter: until `accept_ownership`, `mint` still belongs to the old owner only -/
theorem C05_pending_owner_cannot_mint (s : AuthState) (c : Caller) (k : CollKind) (a : Args) (w : Bool)
    (_hp : s.collPending = some c.addr) (ho : s.collOwner ≠ some c.addr) :
    step s (.exec c (.collection k) mint a w) = none :=
  (C05_clause_collection_minter s c k mint a w (Or.inl rfl) ho).1

/-- `renounce_ownership`: afterwards NOBODY can mint, update the trading time or touch the ownership, for ever -/
theorem C05_principal_tracks_handover_renounce (s : AuthState) (old : Caller) (k : CollKind) (args : Args) (w : Bool)
    (hk : k = .base ∨ k = .metadataOnchain) (hold : s.collOwner = some old.addr) :
    let s' := step' s (.exec old (.collection k) renounceOwnership args w)
    s'.collOwner = none ∧ s'.collPending = none ∧
    ∀ (c : Caller) (m : MsgKind) a2 w2, m = mint ∨ m = updateStartTradingTime ∨ m = transferOwnership ∨
        m = acceptOwnership ∨ m = renounceOwnership →
      step s' (.exec c (.collection k) m a2 w2) = none := by
  have hp : principal (.collection k) renounceOwnership = collMinter := by rcases hk with rfl | rfl <;> rfl
  have hs : step' s (.exec old (.collection k) renounceOwnership args w)
      = { s with collOwner := none, collPending := none, collPendingExpiry := none } := by
    simp [step', step, hp, authorised, hold, effect]
  intro s'
  rw [show s' = _ from hs]
  refine ⟨rfl, rfl, ?_⟩
  intro c m a2 w2 hm
  rcases hk with rfl | rfl <;> rcases hm with rfl | rfl | rfl | rfl | rfl <;>
    simp [step, principal, collPrincipal, authorised]

/-- whitelist admin hand-over (`update_admins{L}` by an admin while mutable): afterwards exactly the members of `L` pass -/
theorem C05_principal_tracks_handover_wl_admins (s : AuthState) (old : Caller) (k : WlKind) (args : Args) (w : Bool)
    (hk : k ≠ .immutable) (hold : old.addr ∈ s.wlAdmins) (hm : s.wlMutable = true) :
    let s' := step' s (.exec old (.whitelist k) updateAdmins args w)
    s'.wlAdmins = args.admins ∧
    (∀ c : Caller, authorised s' c wlAdmin = true ↔ c.addr ∈ args.admins) ∧
    (old.addr ∉ args.admins → ∀ m, m ∈ wlAdminMsgs ∨ m = updateAdmins ∨ m = freeze →
        ∀ a2 w2, step s' (.exec old (.whitelist k) m a2 w2) = none) ∧
    (∀ c : Caller, c.addr ∈ args.admins → ∀ a2,
        step s' (.exec c (.whitelist k) updateAdmins a2 true) = some { s' with wlAdmins := a2.admins }) := by
  have hp : principal (.whitelist k) updateAdmins = wlAdminMutable := by cases k <;> first | rfl | contradiction
  have hs : step' s (.exec old (.whitelist k) updateAdmins args w) = { s with wlAdmins := args.admins } := by
    simp [step', step, hp, authorised, hold, hm, effect]
  intro s'
  rw [show s' = _ from hs]
  refine ⟨rfl, fun c => by simp [authorised], ?_, ?_⟩
  · intro hnot m hmm a2 w2
    exact (C05_clause_whitelist_admin { s with wlAdmins := args.admins } old k m a2 w2 hmm hnot).1
  · intro c hc a2
    simp [step, hp, authorised, hc, hm, effect]

/-- splits admin hand-over to a new admin: the new admin distributes and may hand over again, the old one is rejected -/
theorem C05_principal_tracks_handover_splits_admin (s : AuthState) (old new : Caller) (args : Args) (w : Bool)
    (hold : s.splitsAdmin = some old.addr) (hnew : args.newAdmin = some new.addr) (hne : old.addr ≠ new.addr) :
    let s' := step' s (.exec old .splits updateAdmin args w)
    s'.splitsAdmin = some new.addr ∧
    (∀ a2, step s' (.exec new .splits distribute a2 true) = some s') ∧
    (∀ a2 w2, step s' (.exec old .splits distribute a2 w2) = none) ∧
    (∀ a2 w2, step s' (.exec old .splits updateAdmin a2 w2) = none) := by
  have hs : step' s (.exec old .splits updateAdmin args w) = { s with splitsAdmin := some new.addr } := by
    simp [step', step, principal, authorised, hold, effect, hnew]
  intro s'
  rw [show s' = _ from hs]
  refine ⟨rfl, ?_, ?_, ?_⟩
  · intro a2; simp [step, principal, authorised, effect]
  · intro a2 w2
    exact (C05_clause_splits { s with splitsAdmin := some new.addr } old a2 w2
      (Or.inl ⟨new.addr, rfl, Ne.symm hne⟩)).1
  · intro a2 w2
    exact (C05_clause_splits_admin { s with splitsAdmin := some new.addr } old a2 w2 (by simp [Ne.symm hne])).1

/-- splits admin removed (`update_admin{None}`): exactly the cw4 group members may distribute — the old admin only if
it is a member — and the admin can never be set again -/
theorem C05_principal_tracks_handover_splits_members (s : AuthState) (old : Caller) (args : Args) (w : Bool)
    (hold : s.splitsAdmin = some old.addr) (hnew : args.newAdmin = none) :
    let s' := step' s (.exec old .splits updateAdmin args w)
    s'.splitsAdmin = none ∧
    (∀ c : Caller, c.addr ∈ s.members → ∀ a2, step s' (.exec c .splits distribute a2 true) = some s') ∧
    (∀ c : Caller, c.addr ∉ s.members → ∀ a2 w2, step s' (.exec c .splits distribute a2 w2) = none) ∧
    (∀ (c : Caller) a2 w2, step s' (.exec c .splits updateAdmin a2 w2) = none) := by
  have hs : step' s (.exec old .splits updateAdmin args w) = { s with splitsAdmin := none } := by
    simp [step', step, principal, authorised, hold, effect, hnew]
  intro s'
  rw [show s' = _ from hs]
  refine ⟨rfl, ?_, ?_, ?_⟩
  · intro c hc a2; simp [step, principal, authorised, effect, hc]
  · intro c hc a2 w2
    exact (C05_clause_splits { s with splitsAdmin := none } c a2 w2 (Or.inr ⟨rfl, hc⟩)).1
  · intro c a2 w2
    exact (C05_clause_splits_admin { s with splitsAdmin := none } c a2 w2 (by simp)).1

/-- group membership hand-over (cw4 `update_members` by the group admin) while the splits admin is unset:
a removed member is rejected, an added one passes -/
theorem C05_principal_tracks_handover_group (s : AuthState) (ga c : Caller) (args : Args) (w : Bool)
    (hga : s.groupAdmin = some ga.addr) (hsa : s.splitsAdmin = none) :
    let s' := step' s (.exec ga .group updateMembers args w)
    (c.addr ∈ args.remove → ∀ a2 w2, step s' (.exec c .splits distribute a2 w2) = none) ∧
    (c.addr ∈ args.add → c.addr ∉ args.remove → ∀ a2, step s' (.exec c .splits distribute a2 true) = some s') := by
  have hs : step' s (.exec ga .group updateMembers args w)
      = { s with members := updMembers s.members args.add args.remove } := by
    simp [step', step, principal, authorised, hga, effect]
  intro s'
  rw [show s' = _ from hs]
  refine ⟨?_, ?_⟩
  · intro hr a2 w2
    refine (C05_clause_splits { s with members := updMembers s.members args.add args.remove } c a2 w2
      (Or.inr ⟨hsa, ?_⟩)).1
    simp [updMembers, hr]
  · intro ha hr a2
    have hmem : c.addr ∈ updMembers s.members args.add args.remove := by
      simp only [updMembers, List.mem_filter, List.mem_append]
      refine ⟨?_, by simpa using hr⟩
      by_cases h : c.addr ∈ s.members
      · exact Or.inl h
      · exact Or.inr ⟨ha, by simpa using h⟩
    simp [step, principal, authorised, hsa, effect, hmem]

/-- Summary over the four hand-over mechanisms, in terms of the guard alone: after a successful hand-over from `old`
to `new ≠ old`, `new` satisfies the principal class and `old` no longer does (so, by `C05_reject`, every message of
that class now fails for `old`; the detailed per-message consequences are the theorems above). -/
theorem C05_principal_tracks_handover (s : AuthState) (old new : Caller) (hne : old.addr ≠ new.addr) (w : Bool) :
    (∀ k, old.addr = s.creator → s.collFrozen = false →
      let s' := step' s (.exec old (.collection k) updateCollectionInfo { newCreator := some new.addr } w)
      authorised s' new creator = true ∧ authorised s' old creator = false) ∧
    (∀ k, k = CollKind.base ∨ k = CollKind.metadataOnchain → s.collOwner = some old.addr →
      let a : Args := { newOwner := new.addr }
      let s2 := step' (step' s (.exec old (.collection k) transferOwnership a w)) (.exec new (.collection k) acceptOwnership a w)
      authorised s2 new collMinter = true ∧ authorised s2 old collMinter = false) ∧
    (∀ k, k ≠ WlKind.immutable → old.addr ∈ s.wlAdmins → s.wlMutable = true →
      let s' := step' s (.exec old (.whitelist k) updateAdmins { admins := [new.addr] } w)
      authorised s' new wlAdmin = true ∧ authorised s' old wlAdmin = false) ∧
    (s.splitsAdmin = some old.addr →
      let s' := step' s (.exec old .splits updateAdmin { newAdmin := some new.addr } w)
      authorised s' new splitsAdminElseMember = true ∧ authorised s' old splitsAdminElseMember = false ∧
      authorised s' new splitsAdmin = true ∧ authorised s' old splitsAdmin = false) := by
  refine ⟨?_, ?_, ?_, ?_⟩
  · intro k hold hfz
    have h := C05_principal_tracks_handover_creator s old new k { newCreator := some new.addr } w hold hfz rfl hne
    exact ⟨h.2.1, h.2.2.1⟩
  · intro k hk hold
    have h := C05_principal_tracks_handover_owner s old new k { newOwner := new.addr } w hk hold rfl
      (fun t ht => by simp at ht) hne
    exact ⟨h.2.2.2.2.1, h.2.2.2.2.2.1⟩
  · intro k hk hold hm
    have h := C05_principal_tracks_handover_wl_admins s old k { admins := [new.addr] } w hk hold hm
    refine ⟨(h.2.1 new).2 (by simp), ?_⟩
    have hn : ¬ authorised (step' s (.exec old (.whitelist k) updateAdmins { admins := [new.addr] } w)) old wlAdmin = true := by
      intro hc; have := (h.2.1 old).1 hc; simp at this; exact hne this
    simpa using hn
  · intro hold
    have hs : step' s (.exec old .splits updateAdmin { newAdmin := some new.addr } w) = { s with splitsAdmin := some new.addr } := by
      simp [step', step, principal, authorised, hold, effect]
    intro s'
    rw [show s' = _ from hs]
    simp [authorised, Ne.symm hne]

/-! ## A principal only ever changes at the hands of the principal -/

/-- strong frame: if one transaction changes the creator, the cw_ownable owner, the whitelist admin list / flag or the
splits admin, then it was the corresponding hand-over message sent by the principal of the state before -/
theorem C05_change_needs_principal (s : AuthState) (op : Op) :
    ((step' s op).creator ≠ s.creator →
        ∃ c k a w, op = .exec c (.collection k) updateCollectionInfo a w ∧ c.addr = s.creator) ∧
    ((step' s op).collOwner ≠ s.collOwner →
        ∃ c k a w, (op = .exec c (.collection k) acceptOwnership a w ∧ s.collPending = some c.addr) ∨
                   (op = .exec c (.collection k) renounceOwnership a w ∧ s.collOwner = some c.addr)) ∧
    (((step' s op).wlAdmins ≠ s.wlAdmins ∨ (step' s op).wlMutable ≠ s.wlMutable) →
        ∃ c k m a w, op = .exec c (.whitelist k) m a w ∧ c.addr ∈ s.wlAdmins ∧ s.wlMutable = true) ∧
    ((step' s op).splitsAdmin ≠ s.splitsAdmin →
        ∃ c a w, op = .exec c .splits updateAdmin a w ∧ s.splitsAdmin = some c.addr) := by
  cases op with
  | tick t => simp [step', step]
  | inst c k w => simp [Priv.step'_inst]
  | sudo k m v w =>
    have h : (step' s (.sudo k m v w)).creator = s.creator ∧ (step' s (.sudo k m v w)).collOwner = s.collOwner ∧
        (step' s (.sudo k m v w)).wlAdmins = s.wlAdmins ∧ (step' s (.sudo k m v w)).wlMutable = s.wlMutable ∧
        (step' s (.sudo k m v w)).splitsAdmin = s.splitsAdmin := by
      simp only [step', step]; split
      · simp
      · split <;> simp
    simp [h.1, h.2.1, h.2.2.1, h.2.2.2.1, h.2.2.2.2]
  | exec c k m a w =>
    cases hst : step s (.exec c k m a w) with
    | none => simp [Priv.step'_of_none hst]
    | some s' =>
      rw [Priv.step'_of_some hst]
      obtain ⟨hauth, heff⟩ := Priv.exec_inv hst
      rcases Priv.effect_inv heff with rfl | ⟨ck, rfl, rfl, _, rfl⟩ | ⟨ck, rfl, rfl, rfl⟩ | ⟨ck, rfl, rfl, rfl⟩ |
        ⟨ck, rfl, rfl, _, rfl⟩ | ⟨ck, rfl, rfl, rfl⟩ | ⟨wk, rfl, rfl, rfl⟩ | ⟨wk, rfl, rfl, rfl⟩ | ⟨rfl, rfl, rfl⟩ |
        ⟨rfl, rfl, rfl⟩ | ⟨rfl, rfl, rfl⟩
      · simp
      · -- update_collection_info: sent by the creator
        have hp := (Priv.table_handover.1 ck (Priv.CollKind.mem_all ck)).1
        rw [hp] at hauth
        have hc : c.addr = s.creator := by simpa [authorised] using hauth
        refine ⟨fun _ => ⟨c, ck, a, w, rfl, hc⟩, by simp, by simp, by simp⟩
      · simp
      · simp
      · -- accept_ownership: sent by the pending owner
        have hp := (Priv.table_handover.1 ck (Priv.CollKind.mem_all ck)).2.1
        have hc : s.collPending = some c.addr := by
          rcases hp with h | h <;> simp [h, authorised] at hauth; exact hauth
        refine ⟨by simp, fun _ => ⟨c, ck, a, w, Or.inl ⟨rfl, hc⟩⟩, by simp, by simp⟩
      · -- renounce_ownership: sent by the owner
        have hp := (Priv.table_handover.1 ck (Priv.CollKind.mem_all ck)).2.2.1
        have hc : s.collOwner = some c.addr := by
          rcases hp with h | h <;> simp [h, authorised] at hauth; exact hauth
        refine ⟨by simp, fun _ => ⟨c, ck, a, w, Or.inr ⟨rfl, hc⟩⟩, by simp, by simp⟩
      · -- update_admins: sent by an admin while mutable
        have hp := Priv.table_handover.2 wk (Priv.WlKind.mem_all wk) updateAdmins (by decide)
        have hc : s.wlMutable = true ∧ c.addr ∈ s.wlAdmins := by
          rcases hp with h | h <;> simp [h, authorised] at hauth; exact hauth
        refine ⟨by simp, by simp, fun _ => ⟨c, wk, _, a, w, rfl, hc.2, hc.1⟩, by simp⟩
      · -- freeze: sent by an admin while mutable
        have hp := Priv.table_handover.2 wk (Priv.WlKind.mem_all wk) freeze (by decide)
        have hc : s.wlMutable = true ∧ c.addr ∈ s.wlAdmins := by
          rcases hp with h | h <;> simp [h, authorised] at hauth; exact hauth
        refine ⟨by simp, by simp, fun _ => ⟨c, wk, _, a, w, rfl, hc.2, hc.1⟩, by simp⟩
      · -- splits update_admin: sent by the splits admin
        have hc : s.splitsAdmin = some c.addr := by simpa [principal, authorised] using hauth
        refine ⟨by simp, by simp, by simp, fun _ => ⟨c, a, w, rfl, hc⟩⟩
      · simp
      · simp

/-! ## Non-vacuity: concrete states satisfying the hypotheses above -/

/-- a typical world right after creation: creator 10 is minter admin, minter contract 1003 owns the collection,
whitelist admin 11 (mutable), splits admin 14, members 15/16, group admin 19 -/
def Priv.sample : AuthState :=
  { now := 5, minterAdmin := 10, collOwner := some 1003, collPending := none, collPendingExpiry := none, creator := 10,
    collFrozen := false, wlAdmins := [11], wlMutable := true, splitsAdmin := some 14, members := [15, 16],
    groupAdmin := some 19, mergeSources := [1007], params := 0, status := 0 }

example : privileged (.minter .vending) mintTo = true ∧ authorised Priv.sample ⟨99, false⟩ (principal (.minter .vending) mintTo) = false ∧
    authorised Priv.sample ⟨10, false⟩ (principal (.minter .vending) mintTo) = true := by decide
example : step Priv.sample (.exec ⟨10, false⟩ (.minter .vending) mintTo {} true) = some Priv.sample := by decide
example : step Priv.sample (.exec ⟨99, false⟩ (.minter .vending) mintTo {} true) = none := by decide
example : (step' Priv.sample (.exec ⟨10, false⟩ (.collection .base) updateCollectionInfo { newCreator := some 12 } true)).creator = 12 := by decide
example : (run Priv.sample [.exec ⟨11, false⟩ (.whitelist .plain) freeze {} true,
                            .exec ⟨11, false⟩ (.whitelist .plain) updateAdmins { admins := [13] } true]).wlAdmins = [11] := by decide
example : (run Priv.sample [.exec ⟨1003, true⟩ (.collection .base) transferOwnership { newOwner := 17, expiry := some 9 } true,
                            .exec ⟨17, false⟩ (.collection .base) acceptOwnership {} true]).collOwner = some 17 := by decide
/-- boundary: at the expiry instant the transfer can no longer be accepted -/
example : (run Priv.sample [.exec ⟨1003, true⟩ (.collection .base) transferOwnership { newOwner := 17, expiry := some 9 } true,
                            .tick 9,
                            .exec ⟨17, false⟩ (.collection .base) acceptOwnership {} true]).collOwner = some 1003 := by decide
example : step Priv.sample (.inst ⟨10, false⟩ (.minter .vending) true) = none ∧
    step Priv.sample (.inst ⟨1001, true⟩ (.minter .vending) true) = some Priv.sample := by decide
example : (step' Priv.sample (.sudo (.factory .vending) updateParams 7 true)).params = 7 := by decide

/-! ## The literal "(the collection creator)" fails after a creator hand-over -/

/-- Counter-example to the identity reading of "the minter admin (the collection creator)": from a world right after
creation (creator 10 = minter admin 10), the creator hands the collection over to 12.  In the resulting REACHABLE state
the old creator 10 — no longer the collection creator — still passes `mint_to` (and every other configuration / airdrop /
burn-remaining row), and the new creator 12 is rejected.  The same happens on the real contracts (every vending /
open-edition / token-merge minter): replay corpus/C05/minter-admin-not-creator.json. -/
theorem C05_clause_minter_admin_counterexample :
    let s := run Priv.sample [.exec ⟨10, false⟩ (.collection .base) updateCollectionInfo { newCreator := some 12 } true]
    s.creator = 12 ∧ s.minterAdmin = 10 ∧
    (∃ c : Caller, c.addr ≠ s.creator ∧ mintTo ∈ minterAdminMsgs ∧
        step s (.exec c (.minter .vending) mintTo {} true) = some s) ∧
    (∀ m ∈ minterAdminMsgs, ∀ a w, step s (.exec ⟨s.creator, false⟩ (.minter .vending) m a w) = none) := by
  refine ⟨by decide, by decide, ⟨⟨10, false⟩, by decide, by decide, by decide⟩, ?_⟩
  intro m hm a w
  exact (C05_clause_minter_admin_partial _ ⟨12, false⟩ .vending m a w (by decide) hm (by decide)).1

/-! ## Default-deny: a message kind the table does not list is reserved -/

/-- `MsgKind.other` (any `ExecuteMsg` variant found in the repo's schema that is not a row of the table) is never public:
it belongs to the contract's configuration principal, or to nobody (factories, the immutable whitelist). A `decide` TABLE fact
about the model's `principal`, like the `C05_table_*` theorems; tied to the code by the harness only. -/
theorem C05_default_deny :
    (∀ k ∈ Kind.all, principal k other ≠ anyone) ∧
    (∀ k ∈ MinterKind.all, principal (.minter k) other = (if k = .base then creator else minterAdmin)) ∧
    (∀ k ∈ CollKind.all, principal (.collection k) other = creator) ∧
    (∀ k ∈ WlKind.all, principal (.whitelist k) other = (if k = .immutable then nobody else wlAdmin)) ∧
    (∀ k ∈ FactoryKind.all, principal (.factory k) other = nobody) ∧
    principal .splits other = splitsAdmin ∧ principal .group other = groupAdmin := by decide

/-! ## cw_ownable acceptance: exactly the pending owner, strictly before the expiry instant -/

/-- `accept_ownership` on sg721-base / sg721-metadata-onchain succeeds IFF the caller is the pending owner and the
transfer has not expired; `Expiration::AtTime(t)` is expired from the instant `t` on -/
theorem C05_accept_ownership_iff (s : AuthState) (c : Caller) (k : CollKind) (a : Args) (w : Bool)
    (hk : k = .base ∨ k = .metadataOnchain) :
    step s (.exec c (.collection k) acceptOwnership a w) ≠ none ↔
      (s.collPending = some c.addr ∧ ∀ t, s.collPendingExpiry = some t → s.now < t) := by
  have hp : principal (.collection k) acceptOwnership = pendingOwner := by rcases hk with rfl | rfl <;> rfl
  constructor
  · intro h
    cases hst : step s (.exec c (.collection k) acceptOwnership a w) with
    | none => exact absurd hst h
    | some s' =>
      obtain ⟨hauth, heff⟩ := Priv.exec_inv hst
      rw [hp] at hauth
      refine ⟨by simpa [authorised] using hauth, ?_⟩
      intro t ht
      simp only [effect] at heff
      split at heff
      · cases heff
      · rename_i hex
        simp [transferExpired, ht] at hex
        omega
  · rintro ⟨hpend, hex⟩
    have hne : transferExpired s = false := by
      unfold transferExpired
      cases he : s.collPendingExpiry with
      | none => rfl
      | some t => have := hex t he; simp; omega
    simp [step, hp, authorised, hpend, effect, hne]

/-- the three boundary instants of an expiring transfer: one nanosecond before the expiry the pending owner is accepted,
at the expiry instant and one nanosecond later he is rejected (and nothing changes) -/
theorem C05_accept_expiry_boundary (s : AuthState) (c : Caller) (k : CollKind) (a : Args) (w : Bool) (t : Nat)
    (hk : k = .base ∨ k = .metadataOnchain) (hp : s.collPending = some c.addr) (he : s.collPendingExpiry = some t) (ht : 0 < t) :
    step { s with now := t - 1 } (.exec c (.collection k) acceptOwnership a w) ≠ none ∧
    step { s with now := t } (.exec c (.collection k) acceptOwnership a w) = none ∧
    step { s with now := t + 1 } (.exec c (.collection k) acceptOwnership a w) = none := by
  refine ⟨?_, ?_, ?_⟩
  · exact (C05_accept_ownership_iff { s with now := t - 1 } c k a w hk).2 ⟨hp, fun t' h' => by
      have : t' = t := by simpa [he] using h'.symm
      subst this; show t' - 1 < t'; omega⟩
  · cases hst : step { s with now := t } (.exec c (.collection k) acceptOwnership a w) with
    | none => rfl
    | some s' =>
      have := ((C05_accept_ownership_iff { s with now := t } c k a w hk).1 (by simp [hst])).2 t he
      exact absurd this (Nat.lt_irrefl _)
  · cases hst : step { s with now := t + 1 } (.exec c (.collection k) acceptOwnership a w) with
    | none => rfl
    | some s' =>
      have := ((C05_accept_ownership_iff { s with now := t + 1 } c k a w hk).1 (by simp [hst])).2 t he
      have h2 : t + 1 < t := this
      omega

/-! ## Invariants and finality over histories -/

/-- invariant of every step: an expiry is only ever stored together with a pending owner -/
theorem C05_inv_pending_expiry (s : AuthState) (op : Op) (h : s.collPending = none → s.collPendingExpiry = none) :
    (step' s op).collPending = none → (step' s op).collPendingExpiry = none := by
  cases op with
  | tick t => simpa [step', step] using h
  | inst c k w => rw [Priv.step'_inst]; exact h
  | sudo k m v w =>
    simp only [step', step]; split
    · simpa using h
    · split <;> simpa using h
  | exec c k m a w =>
    cases hst : step s (.exec c k m a w) with
    | none => rw [Priv.step'_of_none hst]; exact h
    | some s' =>
      rw [Priv.step'_of_some hst]
      obtain ⟨_, heff⟩ := Priv.exec_inv hst
      rcases Priv.effect_inv heff with rfl | ⟨_, _, _, _, rfl⟩ | ⟨_, _, _, rfl⟩ | ⟨_, _, _, rfl⟩ | ⟨_, _, _, _, rfl⟩ |
        ⟨_, _, _, rfl⟩ | ⟨_, _, _, rfl⟩ | ⟨_, _, _, rfl⟩ | ⟨_, _, rfl⟩ | ⟨_, _, rfl⟩ | ⟨_, _, rfl⟩ <;>
      first | exact h | (intro _; rfl) | (intro hp; simp at hp)

theorem C05_inv_pending_expiry_run (s : AuthState) (ops : List Op) (h : s.collPending = none → s.collPendingExpiry = none) :
    (run s ops).collPending = none → (run s ops).collPendingExpiry = none := by
  induction ops generalizing s with
  | nil => exact h
  | cons op ops ih =>
    simp only [run, List.foldl_cons]
    exact ih (step' s op) (C05_inv_pending_expiry s op h)

theorem Priv.step'_frozen_creator (s : AuthState) (op : Op) (hf : s.collFrozen = true) :
    (step' s op).creator = s.creator ∧ (step' s op).collFrozen = true := by
  cases op with
  | tick t => simp [step', step, hf]
  | inst c k w => rw [Priv.step'_inst]; exact ⟨rfl, hf⟩
  | sudo k m v w =>
    simp only [step', step]; split
    · simp [hf]
    · split <;> simp [hf]
  | exec c k m a w =>
    cases hst : step s (.exec c k m a w) with
    | none => rw [Priv.step'_of_none hst]; exact ⟨rfl, hf⟩
    | some s' =>
      rw [Priv.step'_of_some hst]
      obtain ⟨_, heff⟩ := Priv.exec_inv hst
      rcases Priv.effect_inv heff with rfl | ⟨_, _, _, hnf, rfl⟩ | ⟨_, _, _, rfl⟩ | ⟨_, _, _, rfl⟩ | ⟨_, _, _, _, rfl⟩ |
        ⟨_, _, _, rfl⟩ | ⟨_, _, _, rfl⟩ | ⟨_, _, _, rfl⟩ | ⟨_, _, rfl⟩ | ⟨_, _, rfl⟩ | ⟨_, _, rfl⟩
      all_goals first
        | exact ⟨rfl, hf⟩
        | exact ⟨rfl, rfl⟩
        | (rw [hf] at hnf; cases hnf)

/-- once the collection info is frozen, the creator can never be handed over again: constant over ALL continuations
(so every creator-reserved message stays with the creator of the freezing instant, for ever) -/
theorem C05_frozen_creator (s : AuthState) (hf : s.collFrozen = true) (ops : List Op) :
    (run s ops).creator = s.creator ∧ (run s ops).collFrozen = true := by
  induction ops generalizing s with
  | nil => exact ⟨rfl, hf⟩
  | cons op ops ih =>
    have h := Priv.step'_frozen_creator s op hf
    have := ih (step' s op) h.2
    simp only [run, List.foldl_cons] at this ⊢
    exact ⟨this.1.trans h.1, this.2⟩

theorem Priv.step'_renounced (s : AuthState) (op : Op) (ho : s.collOwner = none) (hp : s.collPending = none) :
    (step' s op).collOwner = none ∧ (step' s op).collPending = none := by
  cases op with
  | tick t => simp [step', step, ho, hp]
  | inst c k w => rw [Priv.step'_inst]; exact ⟨ho, hp⟩
  | sudo k m v w =>
    simp only [step', step]; split
    · simp [ho, hp]
    · split <;> simp [ho, hp]
  | exec c k m a w =>
    cases hst : step s (.exec c k m a w) with
    | none => rw [Priv.step'_of_none hst]; exact ⟨ho, hp⟩
    | some s' =>
      rw [Priv.step'_of_some hst]
      obtain ⟨hauth, heff⟩ := Priv.exec_inv hst
      rcases Priv.effect_inv heff with rfl | ⟨_, _, _, _, rfl⟩ | ⟨_, _, _, rfl⟩ | ⟨ck, hk, hm, rfl⟩ | ⟨_, _, _, _, rfl⟩ |
        ⟨_, _, _, rfl⟩ | ⟨_, _, _, rfl⟩ | ⟨_, _, _, rfl⟩ | ⟨_, _, rfl⟩ | ⟨_, _, rfl⟩ | ⟨_, _, rfl⟩
      all_goals first
        | exact ⟨ho, hp⟩
        | exact ⟨hp, rfl⟩
        | exact ⟨rfl, rfl⟩
        | skip
      -- transfer_ownership needs the owner: there is none
      subst hk; subst hm
      have ht := (Priv.table_handover.1 ck (Priv.CollKind.mem_all ck)).2.2.2
      rcases ht with h | h <;> simp [h, authorised, ho] at hauth

/-- renounced ownership is final: once the collection has neither an owner nor a pending owner, it never has one again —
over ALL continuations nobody can mint, update the trading time, or touch the ownership -/
theorem C05_renounced_final (s : AuthState) (ho : s.collOwner = none) (hp : s.collPending = none) (ops : List Op) :
    (run s ops).collOwner = none ∧ (run s ops).collPending = none ∧
    ∀ (c : Caller) (k : CollKind) (m : MsgKind) a w, m = mint ∨ m = updateStartTradingTime ∨ m = transferOwnership ∨
        m = acceptOwnership ∨ m = renounceOwnership →
      step (run s ops) (.exec c (.collection k) m a w) = none := by
  have hrun : (run s ops).collOwner = none ∧ (run s ops).collPending = none := by
    induction ops generalizing s with
    | nil => exact ⟨ho, hp⟩
    | cons op ops ih =>
      have h := Priv.step'_renounced s op ho hp
      simpa only [run, List.foldl_cons] using ih (step' s op) h.1 h.2
  refine ⟨hrun.1, hrun.2, ?_⟩
  intro c k m a w hm
  have ho' := hrun.1
  have hp' := hrun.2
  rcases hm with rfl | rfl | rfl | rfl | rfl <;> cases k <;>
    simp [step, principal, collPrincipal, authorised, ho', hp']

/-! ## History-level: a principal changes only at the hands of the principal of that moment -/

/-- if the collection creator at the end of a history differs from the one at its beginning, then somewhere in the history
there is an `update_collection_info` sent by the account that was the creator AT THAT MOMENT -/
theorem C05_creator_change_history (s : AuthState) (ops : List Op) (h : (run s ops).creator ≠ s.creator) :
    ∃ pre c k a w post, ops = pre ++ .exec c (.collection k) updateCollectionInfo a w :: post ∧
      c.addr = (run s pre).creator := by
  induction ops generalizing s with
  | nil => exact absurd rfl h
  | cons op ops ih =>
    by_cases hc : (step' s op).creator = s.creator
    · have h' : (run (step' s op) ops).creator ≠ (step' s op).creator := by
        rw [hc]; simpa only [run, List.foldl_cons] using h
      obtain ⟨pre, c, k, a, w, post, he, hcr⟩ := ih (step' s op) h'
      exact ⟨op :: pre, c, k, a, w, post, by simp [he], by simpa only [run, List.foldl_cons] using hcr⟩
    · obtain ⟨c, k, a, w, he, hcr⟩ := (C05_change_needs_principal s op).1 hc
      exact ⟨[], c, k, a, w, ops, by simp [he], by simpa [run] using hcr⟩

/-- the same for the whitelist admin list: it only ever changes through a whitelist message sent by an account that was
an admin, while the list was still mutable, at that moment -/
theorem C05_wl_admins_change_history (s : AuthState) (ops : List Op) (h : (run s ops).wlAdmins ≠ s.wlAdmins) :
    ∃ pre c k m a w post, ops = pre ++ .exec c (.whitelist k) m a w :: post ∧
      c.addr ∈ (run s pre).wlAdmins ∧ (run s pre).wlMutable = true := by
  induction ops generalizing s with
  | nil => exact absurd rfl h
  | cons op ops ih =>
    by_cases hc : (step' s op).wlAdmins = s.wlAdmins
    · have h' : (run (step' s op) ops).wlAdmins ≠ (step' s op).wlAdmins := by
        rw [hc]; simpa only [run, List.foldl_cons] using h
      obtain ⟨pre, c, k, m, a, w, post, he, h1, h2⟩ := ih (step' s op) h'
      exact ⟨op :: pre, c, k, m, a, w, post, by simp [he], by simpa only [run, List.foldl_cons] using h1,
        by simpa only [run, List.foldl_cons] using h2⟩
    · obtain ⟨c, k, m, a, w, he, h1, h2⟩ := (C05_change_needs_principal s op).2.2.1 (Or.inl hc)
      exact ⟨[], c, k, m, a, w, ops, by simp [he], by simpa [run] using h1, by simpa [run] using h2⟩

/-! ## History-level: a stranger can do nothing privileged and influences nothing -/

/-- the accounts an operation NAMES in its hand-over arguments -/
def Priv.Op.names (x : Addr) : Op → Bool
  | .exec _ _ _ a _ =>
    a.newCreator == some x || a.newOwner == x || a.admins.contains x || a.newAdmin == some x || a.add.contains x
  | _ => false

/-- `x` holds no role at all in `s` -/
def Priv.strangerTo (s : AuthState) (x : Addr) : Prop :=
  x ≠ s.minterAdmin ∧ s.collOwner ≠ some x ∧ s.collPending ≠ some x ∧ x ≠ s.creator ∧ x ∉ s.wlAdmins ∧
  s.splitsAdmin ≠ some x ∧ x ∉ s.members ∧ s.groupAdmin ≠ some x ∧ x ∉ s.mergeSources

/-- a privileged `execute` sent by `x` -/
def Priv.Op.privBy (x : Addr) : Op → Bool
  | .exec c k m _ _ => c.addr == x && privileged k m
  | _ => false

theorem Priv.Kind.mem_all (k : Kind) : k ∈ Kind.all := by
  cases k with
  | factory f => cases f <;> decide
  | minter m => cases m <;> decide
  | collection c => cases c <;> decide
  | whitelist w => cases w <;> decide
  | splits => decide
  | group => decide

theorem Priv.principal_not_contractOnly : ∀ k ∈ Kind.all, ∀ m ∈ MsgKind.all, principal k m ≠ contractOnly := by decide

/-- every privileged row rejects an account that holds no role (whether or not it is a contract) -/
theorem C05_stranger_rejected (s : AuthState) (x : Addr) (ct : Bool) (k : Kind) (m : MsgKind) (a : Args) (w : Bool)
    (hs : Priv.strangerTo s x) (hp : privileged k m = true) : step s (.exec ⟨x, ct⟩ k m a w) = none := by
  obtain ⟨h1, h2, h3, h4, h5, h6, h7, h8, h9⟩ := hs
  have hne : principal k m ≠ anyone := by simpa [privileged] using hp
  have hnc := Priv.principal_not_contractOnly k (Priv.Kind.mem_all k) m (Priv.MsgKind.mem_all m)
  have hu : authorised s ⟨x, ct⟩ (principal k m) = false := by
    cases hcl : principal k m <;> simp_all [authorised]
    cases hsa' : s.splitsAdmin with
    | none => rfl
    | some adm =>
      simp only [hsa'] at h6
      simp only [beq_eq_false_iff_ne, ne_eq]
      intro hh; exact h6 (by rw [hh])
  simp [step, hu]

theorem Priv.strangerTo_step' (s : AuthState) (x : Addr) (op : Op) (hs : Priv.strangerTo s x) (hn : Priv.Op.names x op = false) :
    Priv.strangerTo (step' s op) x := by
  cases op with
  | tick t => simpa [step', step, Priv.strangerTo] using hs
  | inst c k w => rw [Priv.step'_inst]; exact hs
  | sudo k m v w =>
    simp only [step', step]; split
    · simpa using hs
    · split <;> simpa [Priv.strangerTo] using hs
  | exec c k m a w =>
    cases hst : step s (.exec c k m a w) with
    | none => rw [Priv.step'_of_none hst]; exact hs
    | some s' =>
      rw [Priv.step'_of_some hst]
      obtain ⟨_, heff⟩ := Priv.exec_inv hst
      simp only [Priv.Op.names, Bool.or_eq_false_iff, beq_eq_false_iff_ne, ne_eq, List.contains_eq_mem,
        decide_eq_false_iff_not] at hn
      obtain ⟨⟨⟨⟨n1, n2⟩, n3⟩, n4⟩, n5⟩ := hn
      obtain ⟨h1, h2, h3, h4, h5, h6, h7, h8, h9⟩ := hs
      rcases Priv.effect_inv heff with rfl | ⟨_, _, _, _, rfl⟩ | ⟨_, _, _, rfl⟩ | ⟨_, _, _, rfl⟩ | ⟨_, _, _, _, rfl⟩ |
        ⟨_, _, _, rfl⟩ | ⟨_, _, _, rfl⟩ | ⟨_, _, _, rfl⟩ | ⟨_, _, rfl⟩ | ⟨_, _, rfl⟩ | ⟨_, _, rfl⟩
      · exact ⟨h1, h2, h3, h4, h5, h6, h7, h8, h9⟩
      · refine ⟨h1, h2, h3, ?_, h5, h6, h7, h8, h9⟩
        cases hnc : a.newCreator with
        | none => simpa using h4
        | some y => simp; intro hxy; exact n1 (by rw [hnc, hxy])
      · exact ⟨h1, h2, h3, h4, h5, h6, h7, h8, h9⟩
      · exact ⟨h1, h2, by simpa using fun hh => n2 hh, h4, h5, h6, h7, h8, h9⟩
      · exact ⟨h1, h3, by simp, h4, h5, h6, h7, h8, h9⟩
      · exact ⟨h1, by simp, by simp, h4, h5, h6, h7, h8, h9⟩
      · exact ⟨h1, h2, h3, h4, n3, h6, h7, h8, h9⟩
      · exact ⟨h1, h2, h3, h4, h5, h6, h7, h8, h9⟩
      · exact ⟨h1, h2, h3, h4, h5, n4, h7, h8, h9⟩
      · exact ⟨h1, h2, h3, h4, h5, h6, h7, n4, h9⟩
      · refine ⟨h1, h2, h3, h4, h5, h6, ?_, h8, h9⟩
        simp only [updMembers, List.mem_filter, List.mem_append, not_and]
        intro hmem
        rcases hmem with hm | hm
        · exact absurd hm h7
        · exact absurd hm.1 n5

/-- NON-INTERFERENCE over histories.  Let `x` hold no role in `s`, and let nobody in the history `ops` name `x` in a
hand-over.  Then, whatever `x` and everybody else send (any messages, any order, sudo and time included):
(1) `x` still holds no role at the end; (2) every privileged message `x` sends anywhere in the history fails;
(3) the final authorisation state is exactly the one of the history with all of `x`'s privileged messages deleted. -/
theorem C05_stranger_history (s : AuthState) (x : Addr) (ops : List Op)
    (hs : Priv.strangerTo s x) (hn : ∀ op ∈ ops, Priv.Op.names x op = false) :
    Priv.strangerTo (run s ops) x ∧
    (∀ pre op post, ops = pre ++ op :: post → Priv.Op.privBy x op = true → step (run s pre) op = none) ∧
    run s (ops.filter fun op => !Priv.Op.privBy x op) = run s ops := by
  induction ops generalizing s with
  | nil =>
    refine ⟨hs, ?_, rfl⟩
    intro pre op post h; simp at h
  | cons op ops ih =>
    have hs1 := Priv.strangerTo_step' s x op hs (hn op (by simp))
    obtain ⟨i1, i2, i3⟩ := ih (step' s op) hs1 (fun o ho => hn o (by simp [ho]))
    have hfail : Priv.Op.privBy x op = true → step s op = none := by
      intro hp
      cases op with
      | exec c k m a w =>
        simp only [Priv.Op.privBy, Bool.and_eq_true, beq_iff_eq] at hp
        obtain ⟨hcx, hpk⟩ := hp
        have : c = ⟨x, c.isContract⟩ := by cases c; simp_all
        rw [this]; exact C05_stranger_rejected s x c.isContract k m a w hs hpk
      | tick t => simp [Priv.Op.privBy] at hp
      | inst c k w => simp [Priv.Op.privBy] at hp
      | sudo k m v w => simp [Priv.Op.privBy] at hp
    refine ⟨by simpa only [run, List.foldl_cons] using i1, ?_, ?_⟩
    · intro pre o post he hp
      cases pre with
      | nil =>
        simp only [List.nil_append, List.cons.injEq] at he
        obtain ⟨rfl, _⟩ := he
        simpa [run] using hfail hp
      | cons p pre' =>
        simp only [List.cons_append, List.cons.injEq] at he
        obtain ⟨rfl, he'⟩ := he
        simpa only [run, List.foldl_cons] using i2 pre' o post he' hp
    · cases hpb : Priv.Op.privBy x op with
      | true =>
        have hnone := hfail hpb
        have hst : step' s op = s := Priv.step'_of_none hnone
        simp only [List.filter_cons, hpb, Bool.not_true, Bool.false_eq_true, if_false, run, List.foldl_cons]
        rw [hst] at i3 ⊢
        simpa only [run] using i3
      | false =>
        simp only [List.filter_cons, hpb, Bool.not_false, if_true, run, List.foldl_cons]
        simpa only [run] using i3

/-- non-vacuity: account 99 holds no role in the sample world; the history below (99 trying everything, a real hand-over
to 12 in between) leaves the same state as the history without 99's messages -/
example : Priv.strangerTo Priv.sample 99 := by simp [Priv.strangerTo, Priv.sample]
example : run Priv.sample [.exec ⟨99, false⟩ (.minter .vending) mintTo {} true,
                           .exec ⟨10, false⟩ (.collection .base) updateCollectionInfo { newCreator := some 12 } true,
                           .exec ⟨99, false⟩ (.collection .base) updateCollectionInfo { newCreator := some 13 } true]
        = run Priv.sample [.exec ⟨10, false⟩ (.collection .base) updateCollectionInfo { newCreator := some 12 } true] := by decide

end LP
