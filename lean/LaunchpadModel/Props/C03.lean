import LaunchpadModel.Model.MintLimits
/-!
# C03 — Per-address, per-whitelist and per-stage mint limits are never exceeded

All theorems are about `LP.MintLimits.step` / `run` — the definitions the driver executes against the nine real
minters.  "∀ ops" = every finite list of operations by arbitrary senders with arbitrary message fields, arbitrary
environment witnesses (payment / clock / supply outcome, whitelist answers) — in particular every interleaving of
buyers, admin, limit updates, whitelist swaps, whitelist-side edits and clock steps.

A trace starts from a `Fresh` state (all counter maps empty — what `instantiate` leaves behind).
-/
namespace LP
open LP.MintLimits

/-! ## Traces -/

/-- number of `hit` events since the last `reset` event -/
def tally (hit reset : Event → Bool) (es : List Event) : Nat :=
  es.foldl (fun n e => if reset e then 0 else if hit e then n + 1 else n) 0

theorem tally_snoc (hit reset : Event → Bool) (es : List Event) (e : Event) :
    tally hit reset (es ++ [e]) =
      if reset e then 0 else if hit e then tally hit reset es + 1 else tally hit reset es := by
  simp [tally, List.foldl_append]

private theorem foldl_noreset (hit reset : Event → Bool) (es : List Event) (h : ∀ e ∈ es, reset e = false) :
    ∀ n, es.foldl (fun n e => if reset e then 0 else if hit e then n + 1 else n) n = n + es.countP hit := by
  induction es with
  | nil => intro n; simp
  | cons e es ih =>
    intro n
    have he : reset e = false := h e (by simp)
    have ih' := ih (fun x hx => h x (by simp [hx]))
    simp only [List.foldl_cons, he, Bool.false_eq_true, if_false]
    by_cases hh : hit e = true
    · simp [hh, ih']; omega
    · simp [hh, ih']

/-- without resets the tally is the plain count -/
theorem tally_noreset (hit : Event → Bool) (es : List Event) :
    tally hit (fun _ => false) es = es.countP hit := by
  have := foldl_noreset hit (fun _ => false) es (by simp) 0
  simpa [tally] using this

/-- with a reset event `r`, the tally is the count over what follows the LAST reset -/
theorem tally_after_reset (hit reset : Event → Bool) (pre post : List Event) (r : Event)
    (hr : reset r = true) (hpost : ∀ e ∈ post, reset e = false) :
    tally hit reset (pre ++ r :: post) = post.countP hit := by
  simp only [tally, List.foldl_append, List.foldl_cons, hr, if_true]
  simpa using foldl_noreset hit reset post hpost 0

/-- all counter maps empty: the state right after `instantiate` -/
def Fresh (s : State) : Prop :=
  (∀ a, s.pub a = 0) ∧ (∀ a, s.wlc a = 0) ∧ (∀ k a, s.stg k a = 0) ∧ (∀ k, s.tot k = 0)

theorem create_fresh {k : MinterKind} {admin lim nt mp : Nat} {cap : Bool} {wl : Option (Nat × WlKind)} {wa pre : Bool}
    {s : State} (h : create k admin lim nt mp cap wl wa pre = .ok s) : Fresh s := by
  unfold create at h
  by_cases hc : createOk k wl wa pre = true
  · simp only [hc, if_true, Except.ok.injEq] at h
    subst h; simp [Fresh, zero]
  · simp only [hc, Bool.false_eq_true, if_false] at h
    cases h

/-- invariants lift from single successful steps to whole traces (failed steps change nothing) -/
theorem run_inv (P : State → List Event → Prop) (s : State) (h0 : P s [])
    (hstep : ∀ st es op s' e, P st es → step st op = .ok (s', e) → P s' (es ++ [e])) :
    ∀ ops, P (run s ops).1 (run s ops).2 := by
  intro ops
  unfold run
  suffices h : ∀ (p : State × List Event), P p.1 p.2 → P (ops.foldl stepAcc p).1 (ops.foldl stepAcc p).2 from h (s, []) h0
  induction ops with
  | nil => intro p hp; simpa using hp
  | cons op ops ih =>
    intro p hp
    simp only [List.foldl_cons]
    apply ih
    unfold stepAcc
    split
    · next s' e hs => exact hstep p.1 p.2 op s' e hp hs
    · exact hp

/-! ## What one successful step does (everything else follows from this) -/

theorem wlCount_some {s : State} {wk : WlKind} {a : Addr} {v : View} {cnt sid : Nat}
    (h : wlCount s wk a v = some (cnt, sid)) :
    (sid = 0 ∧ cnt = s.wlc a ∧ wk.tieredName = false) ∨
    (1 ≤ sid ∧ sid ≤ 3 ∧ sid = v.stageId ∧ cnt = s.stg sid a ∧ wk.tieredName = true) := by
  unfold wlCount at h
  split at h
  · next ht =>
    split at h
    · next hr => cases h; right; exact ⟨hr.1, hr.2, rfl, rfl, ht⟩
    · cases h
  · next ht => cases h; left; exact ⟨rfl, rfl, by simpa using ht⟩

/-- the gate lets a mint through as a PUBLIC mint only when no whitelist is attached or it is not active -/
theorem gate_pub {s : State} {a : Addr} {f : Fields} {v : View} (h : gate s a f v = .ok .pub) :
    s.wl = none ∨ v.active = false := by
  unfold gate at h
  split at h
  · left; assumption
  · right
    split at h
    · cases h
    · split at h
      · assumption
      · split at h
        · cases h
        · cases h
        · split at h
          · cases h
          · simp only at h
            repeat (first | cases h | split at h)

/-- what a whitelist-mint verdict of the gate means -/
theorem gate_wl {s : State} {a : Addr} {f : Fields} {v : View} {sid cnt ent tot : Nat} {slim : Option Nat}
    (h : gate s a f v = .ok (.wl sid cnt ent tot slim)) :
    ∃ id wk leaf, s.wl = some (id, wk) ∧ v.active = true ∧ membership s.kind wk f v = some (true, leaf) ∧
      wlCount s wk a v = some (cnt, sid) ∧ ent = entitlement s.kind f v leaf ∧ cnt < ent ∧
      (sid = 0 → tot = 0 ∧ slim = none) ∧
      (sid ≠ 0 → tot = s.tot sid ∧ slim = v.stageLimit ∧ ∀ L, slim = some L → tot < L) := by
  unfold gate at h
  split at h
  · cases h
  · next id wk hw =>
    split at h
    · cases h
    · split at h
      · cases h
      · next hact =>
        split at h
        · cases h
        · cases h
        · next leaf hm =>
          split at h
          · cases h
          · next cnt' sid' hc =>
            simp only at h
            split at h
            · cases h
            · split at h
              · cases h
              · split at h
                · cases h
                · next hlt =>
                  have hlt' : cnt' < entitlement s.kind f v leaf := by omega
                  split at h
                  · next hs0 =>
                    cases h
                    refine ⟨id, wk, leaf, hw, by simpa using hact, hm, by simpa [hs0] using hc, rfl, hlt', ?_, ?_⟩
                    · intro _; exact ⟨rfl, rfl⟩
                    · intro hne; exact absurd rfl hne
                  · next hs0 =>
                    split at h
                    · cases h
                    · split at h
                      · next hsl =>
                        cases h
                        refine ⟨id, wk, leaf, hw, by simpa using hact, hm, hc, rfl, hlt', ?_, ?_⟩
                        · intro h0; exact absurd h0 hs0
                        · intro _; exact ⟨rfl, hsl.symm, by intro L hL; cases hL⟩
                      · next L hsl =>
                        split at h
                        · next hL =>
                          cases h
                          refine ⟨id, wk, leaf, hw, by simpa using hact, hm, hc, rfl, hlt', ?_, ?_⟩
                          · intro h0; exact absurd h0 hs0
                          · intro _; exact ⟨rfl, hsl.symm, by intro L' hL'; cases hL'; exact hL⟩
                        · cases h

/-- Effect of a successful step, by the kind of event it produced. -/
def Effect (s s' : State) : Event → Prop
  | .publicMint a c L =>
      c = s.pub a ∧ L = s.limit ∧ c < L ∧ s'.pub = upd s.pub a (c + 1) ∧ s'.wlc = s.wlc ∧ s'.stg = s.stg ∧ s'.tot = s.tot
  | .airdrop adm _ =>
      adm = s.admin ∧ s'.pub = upd s.pub adm (s.pub adm + 1) ∧ s'.wlc = s.wlc ∧ s'.stg = s.stg ∧ s'.tot = s.tot
  | .wlMint a sid cnt ent tot slim =>
      cnt < ent ∧ s'.pub = s.pub ∧
      (sid = 0 → cnt = s.wlc a ∧ s'.wlc = upd s.wlc a (cnt + 1) ∧ s'.stg = s.stg ∧ s'.tot = s.tot) ∧
      (sid ≠ 0 → 1 ≤ sid ∧ sid ≤ 3 ∧ cnt = s.stg sid a ∧ tot = s.tot sid ∧ (∀ L, slim = some L → tot < L) ∧
                 s'.wlc = s.wlc ∧ s'.stg = upd2 s.stg sid a (cnt + 1) ∧ s'.tot = upd s.tot sid (tot + 1))
  | .purge =>
      s'.pub = zero ∧ s'.wlc = (if s.kind.flavor = .flex then zero else s.wlc) ∧ s'.stg = s.stg ∧ s'.tot = s.tot
  | .other => s'.pub = s.pub ∧ s'.wlc = s.wlc ∧ s'.stg = s.stg ∧ s'.tot = s.tot

theorem step_mint {s s' : State} {a : Addr} {f : Fields} {v : View} {st pre : Bool} {e : Event}
    (h : step s (.mint a f v st pre) = .ok (s', e)) :
    (gate s a f v = .ok .pub ∧ st = true ∧ pre = true ∧ s.pub a < s.limit ∧
      s' = { s with pub := upd s.pub a (s.pub a + 1), owned := upd s.owned a (s.owned a + 1) } ∧
      e = .publicMint a (s.pub a) s.limit) ∨
    (∃ sid cnt ent tot slim, gate s a f v = .ok (.wl sid cnt ent tot slim) ∧ pre = true ∧
      e = .wlMint a sid cnt ent tot slim ∧
      ((sid = 0 ∧ s' = { s with wlc := upd s.wlc a (cnt + 1), owned := upd s.owned a (s.owned a + 1) }) ∨
       (sid ≠ 0 ∧ s' = { s with stg := upd2 s.stg sid a (cnt + 1), tot := upd s.tot sid (s.tot sid + 1),
                                 owned := upd s.owned a (s.owned a + 1) }))) := by
  simp only [step] at h
  split at h
  · cases h
  · split at h
    · cases h
    · next hg =>
      split at h
      · cases h
      · split at h
        · cases h
        · split at h
          · cases h
          · next h1 h2 h3 =>
            cases h
            left
            refine ⟨hg, by simpa using h1, by simpa using h3, by omega, rfl, rfl⟩
    · next sid cnt ent tot slim hg =>
      split at h
      · cases h
      · next hp =>
        split at h
        · next h0 =>
          cases h
          right
          exact ⟨sid, cnt, ent, tot, slim, hg, by simpa using hp, by simp [h0], Or.inl ⟨h0, rfl⟩⟩
        · next h0 =>
          cases h
          right
          exact ⟨sid, cnt, ent, tot, slim, hg, by simpa using hp, rfl, Or.inr ⟨h0, rfl⟩⟩

theorem step_effect {s s' : State} {op : Op} {e : Event} (h : step s op = .ok (s', e)) :
    Effect s s' e ∧ s'.kind = s.kind ∧ s'.admin = s.admin := by
  cases op with
  | mint a f v st pre =>
    rcases step_mint h with ⟨_, _, _, hlt, hs, he⟩ | ⟨sid, cnt, ent, tot, slim, hg, _, he, hs⟩
    · subst hs he
      exact ⟨⟨rfl, rfl, hlt, rfl, rfl, rfl, rfl⟩, rfl, rfl⟩
    · obtain ⟨id, wk, leaf, _, _, _, hc, _, hlt, h0, h1⟩ := gate_wl hg
      subst he
      rcases hs with ⟨hz, hs⟩ | ⟨hnz, hs⟩
      · subst hs
        rcases wlCount_some hc with ⟨_, hcnt, _⟩ | ⟨hge, _⟩
        · refine ⟨⟨hlt, rfl, ?_, ?_⟩, rfl, rfl⟩
          · intro _; exact ⟨hcnt, rfl, rfl, rfl⟩
          · intro hne; exact absurd hz hne
        · omega
      · subst hs
        rcases wlCount_some hc with ⟨hz, _⟩ | ⟨hge, hle, _, hcnt, _⟩
        · exact absurd hz hnz
        · obtain ⟨ht, _, hL⟩ := h1 hnz
          refine ⟨⟨hlt, rfl, ?_, ?_⟩, rfl, rfl⟩
          · intro hz; exact absurd hz hnz
          · intro _; exact ⟨hge, hle, hcnt, ht, hL, rfl, rfl, by rw [ht]⟩
  | mintTo sender r forId pre =>
    simp only [step] at h
    split at h
    · cases h
    · next hs =>
      split at h
      · cases h
      · split at h
        · cases h
        · cases h
          have : sender = s.admin := by simpa using hs
          exact ⟨⟨this, rfl, rfl, rfl, rfl⟩, rfl, rfl⟩
  | setLimit sender n funds =>
    simp only [step] at h
    repeat (first | cases h | split at h)
    exact ⟨⟨rfl, rfl, rfl, rfl⟩, rfl, rfl⟩
  | setWhitelist sender id wk funds started oa na pre =>
    simp only [step] at h
    repeat (first | cases h | split at h)
    exact ⟨⟨rfl, rfl, rfl, rfl⟩, rfl, rfl⟩
  | purge funds pre =>
    simp only [step] at h
    repeat (first | cases h | split at h)
    exact ⟨⟨rfl, rfl, rfl, rfl⟩, rfl, rfl⟩
  | env =>
    simp only [step] at h
    cases h
    exact ⟨⟨rfl, rfl, rfl, rfl⟩, rfl, rfl⟩
  | govern mp =>
    simp only [step] at h
    cases h
    exact ⟨⟨rfl, rfl, rfl, rfl⟩, rfl, rfl⟩

/-! ## Generic counting lemmas over traces -/

/-- a counter that every successful step either resets, bumps by one (on `hit`) or leaves alone equals the tally -/
theorem tally_exact (I : State → Prop) (m : State → Nat) (hit reset : Event → Bool) (s0 : State)
    (hI0 : I s0) (hm0 : m s0 = 0)
    (hI : ∀ s op s' e, I s → step s op = .ok (s', e) → I s')
    (hstep : ∀ s op s' e, I s → step s op = .ok (s', e) →
      m s' = if reset e then 0 else if hit e then m s + 1 else m s) :
    ∀ ops, m (run s0 ops).1 = tally hit reset (run s0 ops).2 := by
  intro ops
  have := run_inv (fun s es => I s ∧ m s = tally hit reset es) s0 ⟨hI0, by simp [hm0, tally]⟩
    (by
      intro st es op s' e ⟨hi, hm⟩ hs
      refine ⟨hI st op s' e hi hs, ?_⟩
      rw [hstep st op s' e hi hs, tally_snoc, hm]) ops
  exact this.2

/-- if moreover every `sub`-event (`sub ⊆ hit`) only happens while the counter is below the limit that event
carries, then the number of `sub`-events since the last reset never exceeds any bound on those limits -/
theorem tally_bound (I : State → Prop) (m : State → Nat) (sub hit reset : Event → Bool) (lim : Event → Option Nat)
    (s0 : State) (hI0 : I s0) (hm0 : m s0 = 0)
    (hsub : ∀ e, sub e = true → hit e = true)
    (hI : ∀ s op s' e, I s → step s op = .ok (s', e) → I s')
    (hstep : ∀ s op s' e, I s → step s op = .ok (s', e) →
      m s' = if reset e then 0 else if hit e then m s + 1 else m s)
    (hlt : ∀ s op s' e, I s → step s op = .ok (s', e) → sub e = true → ∀ B, lim e = some B → m s < B) :
    ∀ ops L, (∀ e ∈ (run s0 ops).2, sub e = true → ∃ B, lim e = some B ∧ B ≤ L) →
      tally sub reset (run s0 ops).2 ≤ L := by
  intro ops L
  have := run_inv (fun s es => I s ∧ m s = tally hit reset es ∧ tally sub reset es ≤ tally hit reset es ∧
      ((∀ e ∈ es, sub e = true → ∃ B, lim e = some B ∧ B ≤ L) → tally sub reset es ≤ L)) s0
    ⟨hI0, by simp [hm0, tally], by simp [tally], by intro _; simp [tally]⟩
    (by
      intro st es op s' e ⟨hi, hm, hle, hb⟩ hs
      refine ⟨hI st op s' e hi hs, ?_, ?_, ?_⟩
      · rw [hstep st op s' e hi hs, tally_snoc, hm]
      · rw [tally_snoc, tally_snoc]
        by_cases hr : reset e = true
        · simp [hr]
        · by_cases hsb : sub e = true
          · simp [hr, hsb, hsub e hsb]; omega
          · by_cases hh : hit e = true
            · simp [hr, hsb, hh]; omega
            · simp [hr, hsb, hh]; omega
      · intro hall
        have hprev := hb (fun x hx => hall x (by simp [hx]))
        rw [tally_snoc]
        by_cases hr : reset e = true
        · simp [hr]
        · by_cases hsb : sub e = true
          · obtain ⟨B, hB, hBL⟩ := hall e (by simp) hsb
            have := hlt st op s' e hi hs hsb B hB
            simp [hr, hsb]; omega
          · simp [hr, hsb]; exact hprev) ops
  exact this.2.2.2

/-! ## Event classifiers -/

def isPurge : Event → Bool
  | .purge => true
  | _ => false

/-- a public mint completed by `a` itself -/
def publicMintBy (a : Addr) : Event → Bool
  | .publicMint b _ _ => decide (b = a)
  | _ => false

/-- everything that lands in `a`'s public counter: its public mints and, for the admin, its airdrops -/
def publicInitiatedBy (a : Addr) : Event → Bool
  | .publicMint b _ _ => decide (b = a)
  | .airdrop b _ => decide (b = a)
  | _ => false

/-- a whitelist mint by `a` in stage `k` (0 = a non-tiered whitelist) -/
def wlMintBy (a : Addr) (k : Nat) : Event → Bool
  | .wlMint b sid _ _ _ _ => decide (b = a) && decide (sid = k)
  | _ => false

/-- any whitelist mint in tiered stage `k` -/
def stageMint (k : Nat) : Event → Bool
  | .wlMint _ sid _ _ _ _ => decide (sid = k)
  | _ => false

def publicLimitOf : Event → Option Nat
  | .publicMint _ _ L => some L
  | _ => none

def entitlementOf : Event → Option Nat
  | .wlMint _ _ _ ent _ _ => some ent
  | _ => none

def stageLimitOf : Event → Option Nat
  | .wlMint _ _ _ _ _ slim => slim
  | _ => none

/-! ## Clause 1 — public mints against the per-address limit in force -/

/-- "No address ever completes more public mints than the per-address limit in force at the time of each mint":
one step — a successful mint while no whitelist is active is a public mint, and it only happens while the sender's
stored public count is strictly below the limit in force at that step; it bumps exactly that counter by one. -/
theorem C03_public_step (s s' : State) (a : Addr) (f : Fields) (v : View) (st pre : Bool) (e : Event)
    (h : step s (.mint a f v st pre) = .ok (s', e)) (hpub : s.wl = none ∨ v.active = false) :
    e = .publicMint a (s.pub a) s.limit ∧ s.pub a < s.limit ∧ s'.pub a = s.pub a + 1 ∧
    (∀ b, b ≠ a → s'.pub b = s.pub b) := by
  rcases step_mint h with ⟨_, _, _, hlt, hs, he⟩ | ⟨sid, cnt, ent, tot, slim, hg, _⟩
  · subst hs
    refine ⟨he, hlt, by simp [upd], ?_⟩
    intro b hb; simp [upd, hb]
  · obtain ⟨id, wk, leaf, hw, hact, _⟩ := gate_wl hg
    rcases hpub with h1 | h1
    · rw [h1] at hw; cases hw
    · rw [h1] at hact; cases hact

/-- every event labelled `publicMint` records the count and limit that were in force, with count < limit -/
theorem C03_public_event (s s' : State) (op : Op) (a : Addr) (c L : Nat)
    (h : step s op = .ok (s', .publicMint a c L)) : c = s.pub a ∧ L = s.limit ∧ c < L := by
  have := (step_effect h).1
  exact ⟨this.1, this.2.1, this.2.2.1⟩

theorem pub_step (a : Addr) (s : State) (op : Op) (s' : State) (e : Event) (h : step s op = .ok (s', e)) :
    s'.pub a = if isPurge e then 0 else if publicInitiatedBy a e then s.pub a + 1 else s.pub a := by
  have he := (step_effect h).1
  cases e with
  | publicMint b c L =>
    obtain ⟨hc, _, _, hp, _⟩ := he
    by_cases hb : b = a <;> simp [isPurge, publicInitiatedBy, hp, upd, hb, hc]
    · intro h'; exact absurd h'.symm hb
  | airdrop b r =>
    obtain ⟨_, hp, _⟩ := he
    by_cases hb : b = a <;> simp [isPurge, publicInitiatedBy, hp, upd, hb]
    · intro h'; exact absurd h'.symm hb
  | wlMint b sid cnt ent tot slim => simp [isPurge, publicInitiatedBy, he.2.1]
  | purge => simp [isPurge, he.1, zero]
  | other => simp [isPurge, publicInitiatedBy, he.1]

/-- "until a purge … clears them, the per-address public … mint counts the minter [stores] equal the mints that
address initiated": over every trace the public counter of `a` is exactly the number of public mints by `a` plus
the airdrops `a` (the admin) sent, since the last purge. -/
theorem C03_counter_exact_public (s0 : State) (h0 : Fresh s0) (a : Addr) (ops : List Op) :
    (run s0 ops).1.pub a = tally (publicInitiatedBy a) isPurge (run s0 ops).2 :=
  tally_exact (fun _ => True) (fun s => s.pub a) (publicInitiatedBy a) isPurge s0 trivial (h0.1 a)
    (fun _ _ _ _ _ _ => trivial) (fun s op s' e _ h => pub_step a s op s' e h) ops

/-- History form of clause 1: in every trace, if `L` bounds the per-address limits that were in force at the
public mints of `a`, then `a` completed at most `L` public mints (since the last purge, which only happens after
sell-out). Airdrops are not limit-checked but only ever make the admin's own public mints scarcer. -/
theorem C03_public_history (s0 : State) (h0 : Fresh s0) (a : Addr) (ops : List Op) (L : Nat)
    (hL : ∀ e ∈ (run s0 ops).2, publicMintBy a e = true → ∃ B, publicLimitOf e = some B ∧ B ≤ L) :
    tally (publicMintBy a) isPurge (run s0 ops).2 ≤ L :=
  tally_bound (fun _ => True) (fun s => s.pub a) (publicMintBy a) (publicInitiatedBy a) isPurge publicLimitOf s0
    trivial (h0.1 a)
    (by intro e he; cases e <;> simp_all [publicMintBy, publicInitiatedBy])
    (fun _ _ _ _ _ _ => trivial) (fun s op s' e _ h => pub_step a s op s' e h)
    (by
      intro s op s' e _ h hsub B hB
      cases e with
      | publicMint b c L' =>
        have hb : b = a := by simpa [publicMintBy] using hsub
        obtain ⟨hc, hl, hlt, _⟩ := (step_effect h).1
        simp [publicLimitOf] at hB
        subst hb; omega
      | _ => simp [publicMintBy] at hsub)
    ops L hL

/-- with a constant limit the bound is that limit (the usual reading) -/
theorem C03_public_history_const (s0 : State) (h0 : Fresh s0) (a : Addr) (ops : List Op) (L : Nat)
    (hL : ∀ e ∈ (run s0 ops).2, ∀ c B, e = .publicMint a c B → B ≤ L) :
    tally (publicMintBy a) isPurge (run s0 ops).2 ≤ L := by
  apply C03_public_history s0 h0 a ops L
  intro e he hp
  cases e with
  | publicMint b c B =>
    have hb : b = a := by simpa [publicMintBy] using hp
    subst hb
    exact ⟨B, rfl, hL _ he c B rfl⟩
  | _ => simp [publicMintBy] at hp

/-! ## Clause 2 — whitelist mints against the entitlement read from the whitelist -/

/-- on a Merkle minter the entitlement is the whitelist's own limit unless the membership came from a verified
leaf carrying exactly that allocation -/
theorem merkle_entitlement {k : MinterKind} {wk : WlKind} {f : Fields} {v : View} {leaf : Bool}
    (hk : k.flavor = .merkle) (hm : membership k wk f v = some (true, leaf)) :
    entitlement k f v leaf = v.limit ∨
      (v.leafOk = true ∧ f.proof = true ∧ f.alloc = some (entitlement k f v leaf)) := by
  unfold membership at hm
  unfold entitlement
  simp only [hk] at hm ⊢
  cases hoe : k.isOE <;> cases hp : f.proof <;> cases hmc : v.merkleCfg <;>
    cases h1 : wk.answersHasMemberProof <;> cases h2 : wk.answersHasMember <;> cases hfa : f.alloc <;>
    simp_all

/-- "no address completes more whitelist mints than its whitelist entitlement: the whitelist's per-address limit
(per stage for tiered whitelists), the member's own mint count for flex whitelists, or the allocation proven by
the Merkle proof for Merkle whitelists": one step.  A successful mint while the attached whitelist is active is
a whitelist mint; the sender's stored count *for that whitelist stage* is strictly below the entitlement, and the
entitlement is: plain minters — the whitelist's `per_address_limit` (the active stage's for tiered); flex minters —
the member's `mint_count`; Merkle minters — the whitelist's `per_address_limit`, or the message's `allocation`
ONLY IF the leaf `stage‖sender‖allocation` verified against the whitelist's stored root (`leafOk`). -/
theorem C03_wl_step (s s' : State) (a : Addr) (f : Fields) (v : View) (st pre : Bool) (e : Event)
    (h : step s (.mint a f v st pre) = .ok (s', e)) (hwl : s.wl ≠ none) (hact : v.active = true) :
    ∃ sid cnt ent tot slim, e = .wlMint a sid cnt ent tot slim ∧ cnt < ent ∧
      (sid = 0 → cnt = s.wlc a ∧ s'.wlc a = cnt + 1) ∧
      (sid ≠ 0 → sid = v.stageId ∧ 1 ≤ sid ∧ sid ≤ 3 ∧ cnt = s.stg sid a ∧ s'.stg sid a = cnt + 1) ∧
      (s.kind.flavor = .plain → ent = v.limit) ∧
      (s.kind.flavor = .flex → ent = v.memberCount) ∧
      (s.kind.flavor = .merkle → ent = v.limit ∨ (v.leafOk = true ∧ f.proof = true ∧ f.alloc = some ent)) := by
  rcases step_mint h with ⟨hg, _⟩ | ⟨sid, cnt, ent, tot, slim, hg, _, he, hs⟩
  · rcases gate_pub hg with h1 | h1
    · exact absurd h1 hwl
    · rw [hact] at h1; cases h1
  · obtain ⟨id, wk, leaf, hw, _, hm, hc, hent, hlt, _, _⟩ := gate_wl hg
    refine ⟨sid, cnt, ent, tot, slim, he, hlt, ?_, ?_, ?_, ?_, ?_⟩
    · intro hz
      rcases hs with ⟨_, hs⟩ | ⟨hnz, _⟩
      · rcases wlCount_some hc with ⟨_, hcnt, _⟩ | ⟨hge, _⟩
        · subst hs; exact ⟨hcnt, by simp [upd]⟩
        · omega
      · exact absurd hz hnz
    · intro hnz
      rcases hs with ⟨hz, _⟩ | ⟨_, hs⟩
      · exact absurd hz hnz
      · rcases wlCount_some hc with ⟨hz, _⟩ | ⟨hge, hle, hsid, hcnt, _⟩
        · exact absurd hz hnz
        · subst hs; exact ⟨hsid, hge, hle, hcnt, by simp [upd2, upd]⟩
    · intro hk; rw [hent]; simp [entitlement, hk]
    · intro hk; rw [hent]; simp [entitlement, hk]
    · intro hk
      rw [hent]
      exact merkle_entitlement hk hm

/-- a leaf that does not verify never raises anything: on a Merkle minter, without a verified leaf the only
entitlement a successful whitelist mint can have been checked against is the whitelist's own limit -/
theorem C03_no_self_raise_unverifiable_leaf (s s' : State) (a : Addr) (f : Fields) (v : View) (st pre : Bool)
    (sid cnt ent tot : Nat) (slim : Option Nat) (hk : s.kind.flavor = .merkle) (hl : v.leafOk = false)
    (h : step s (.mint a f v st pre) = .ok (s', .wlMint a sid cnt ent tot slim)) : ent = v.limit ∧ cnt < v.limit := by
  rcases step_mint h with ⟨_, _, _, _, _, he⟩ | ⟨sid', cnt', ent', tot', slim', hg, _, he, _⟩
  · cases he
  · cases he
    obtain ⟨id, wk, leaf, _, _, hm, _, hent, hlt, _⟩ := gate_wl hg
    rcases merkle_entitlement hk hm with h1 | ⟨h1, _⟩
    · rw [hent, h1] at hlt ⊢; exact ⟨rfl, hlt⟩
    · rw [hl] at h1; cases h1

/-- airdrops (`MintTo` / `MintFor`): only the admin, not limit-checked, and they land in the ADMIN's public
counter (`is_public = true` with `info.sender` = admin), the token going to the recipient -/
theorem C03_airdrop_step (s s' : State) (sender r : Addr) (forId pre : Bool) (e : Event)
    (h : step s (.mintTo sender r forId pre) = .ok (s', e)) :
    sender = s.admin ∧ e = .airdrop s.admin r ∧ s'.pub s.admin = s.pub s.admin + 1 ∧
    (∀ b, b ≠ s.admin → s'.pub b = s.pub b) ∧ s'.owned r = s.owned r + 1 := by
  simp only [step] at h
  split at h
  · cases h
  · next hs =>
    have hs' : sender = s.admin := by simpa using hs
    subst hs'
    split at h
    · cases h
    · split at h
      · cases h
      · cases h
        refine ⟨rfl, rfl, by simp [upd], ?_, by simp [upd]⟩
        intro b hb; simp [upd, hb]

theorem wlc_step (k : MinterKind) (a : Addr) (s : State) (op : Op) (s' : State) (e : Event)
    (hk : s.kind = k) (h : step s op = .ok (s', e)) :
    s'.wlc a = if (isPurge e && decide (k.flavor = .flex)) then 0
               else if wlMintBy a 0 e then s.wlc a + 1 else s.wlc a := by
  have he := (step_effect h).1
  cases e with
  | publicMint b c L => simp [isPurge, wlMintBy, he.2.2.2.2.1]
  | airdrop b r => simp [isPurge, wlMintBy, he.2.2.1]
  | wlMint b sid cnt ent tot slim =>
    obtain ⟨_, _, h0, h1⟩ := he
    by_cases hs : sid = 0
    · obtain ⟨hc, hw, _⟩ := h0 hs
      by_cases hb : b = a <;> simp [isPurge, wlMintBy, hw, upd, hb, hs, hc]
      · intro h'; exact absurd h'.symm hb
    · obtain ⟨_, _, _, _, _, hw, _⟩ := h1 hs
      simp [isPurge, wlMintBy, hw, hs]
  | purge =>
    obtain ⟨_, hw, _⟩ := he
    rw [hk] at hw
    by_cases hf : k.flavor = .flex <;> simp [isPurge, wlMintBy, hw, hf, zero]
  | other => simp [isPurge, wlMintBy, he.2.1]

theorem stg_step (a : Addr) (k : Nat) (hk : k ≠ 0) (s : State) (op : Op) (s' : State) (e : Event)
    (h : step s op = .ok (s', e)) :
    s'.stg k a = if (fun _ => false) e then 0 else if wlMintBy a k e then s.stg k a + 1 else s.stg k a := by
  have he := (step_effect h).1
  cases e with
  | publicMint b c L => simp [wlMintBy, he.2.2.2.2.2.1]
  | airdrop b r => simp [wlMintBy, he.2.2.2.1]
  | wlMint b sid cnt ent tot slim =>
    obtain ⟨_, _, h0, h1⟩ := he
    by_cases hs : sid = 0
    · obtain ⟨_, _, hst, _⟩ := h0 hs
      have : ¬ (0 = k) := fun h' => hk h'.symm
      simp [wlMintBy, hst, hs, this]
    · obtain ⟨_, _, hc, _, _, _, hst, _⟩ := h1 hs
      by_cases hsk : sid = k
      · subst hsk
        by_cases hb : b = a <;> simp [wlMintBy, hst, upd2, upd, hb, hc]
        · intro h'; exact absurd h'.symm hb
      · have : ¬ (k = sid) := fun h' => hsk h'.symm
        simp [wlMintBy, hst, upd2, hsk, this]
  | purge => simp [wlMintBy, he.2.2.1]
  | other => simp [wlMintBy, he.2.2.1]

theorem kind_inv (k : MinterKind) (s : State) (op : Op) (s' : State) (e : Event)
    (hk : s.kind = k) (h : step s op = .ok (s', e)) : s'.kind = k := by
  rw [(step_effect h).2.1, hk]

/-- the whitelist counter (non-tiered whitelists) of `a` is exactly the number of whitelist mints `a` completed —
since the last purge on the flex minters (their `Purge` also clears `WHITELIST_MINTER_ADDRS`), ever on the others -/
theorem C03_counter_exact_wl (s0 : State) (h0 : Fresh s0) (a : Addr) (ops : List Op) :
    (run s0 ops).1.wlc a =
      tally (wlMintBy a 0) (fun e => isPurge e && decide (s0.kind.flavor = .flex)) (run s0 ops).2 :=
  tally_exact (fun s => s.kind = s0.kind) (fun s => s.wlc a) (wlMintBy a 0) _ s0 rfl (h0.2.1 a)
    (fun s op s' e hk h => kind_inv s0.kind s op s' e hk h)
    (fun s op s' e hk h => wlc_step s0.kind a s op s' e hk h) ops

/-- the per-stage whitelist counters (`WHITELIST_{FS,SS,TS}_MINTER_ADDRS`) are never cleared: they equal the
number of whitelist mints `a` completed in that stage over the whole trace -/
theorem C03_counter_exact_stage (s0 : State) (h0 : Fresh s0) (a : Addr) (k : Nat) (hk : k ≠ 0) (ops : List Op) :
    (run s0 ops).1.stg k a = (run s0 ops).2.countP (wlMintBy a k) := by
  rw [← tally_noreset]
  exact tally_exact (fun _ => True) (fun s => s.stg k a) (wlMintBy a k) (fun _ => false) s0 trivial (h0.2.2.1 k a)
    (fun _ _ _ _ _ _ => trivial) (fun s op s' e _ h => stg_step a k hk s op s' e h) ops

/-- History form of clause 2, non-tiered whitelists (plain / flex / Merkle): if `L` bounds the entitlements that
were in force at `a`'s whitelist mints, `a` completed at most `L` of them. -/
theorem C03_wl_history (s0 : State) (h0 : Fresh s0) (a : Addr) (ops : List Op) (L : Nat)
    (hL : ∀ e ∈ (run s0 ops).2, wlMintBy a 0 e = true → ∃ B, entitlementOf e = some B ∧ B ≤ L) :
    tally (wlMintBy a 0) (fun e => isPurge e && decide (s0.kind.flavor = .flex)) (run s0 ops).2 ≤ L :=
  tally_bound (fun s => s.kind = s0.kind) (fun s => s.wlc a) (wlMintBy a 0) (wlMintBy a 0) _ entitlementOf s0
    rfl (h0.2.1 a) (fun _ h => h)
    (fun s op s' e hk h => kind_inv s0.kind s op s' e hk h)
    (fun s op s' e hk h => wlc_step s0.kind a s op s' e hk h)
    (by
      intro s op s' e _ h hsub B hB
      cases e with
      | wlMint b sid cnt ent tot slim =>
        simp only [wlMintBy, Bool.and_eq_true, decide_eq_true_eq] at hsub
        obtain ⟨hlt, _, h0', _⟩ := (step_effect h).1
        obtain ⟨hc, _⟩ := h0' hsub.2
        simp [entitlementOf] at hB
        rw [← hsub.1, ← hc]; omega
      | _ => simp [wlMintBy] at hsub)
    ops L hL

/-- History form of clause 2, tiered whitelists, per stage `k ∈ {1,2,3}`: if `L` bounds the stage entitlements
in force at `a`'s stage-`k` mints, `a` completed at most `L` mints in stage `k` — over the whole trace. -/
theorem C03_wl_history_stage (s0 : State) (h0 : Fresh s0) (a : Addr) (k : Nat) (hk : k ≠ 0) (ops : List Op) (L : Nat)
    (hL : ∀ e ∈ (run s0 ops).2, wlMintBy a k e = true → ∃ B, entitlementOf e = some B ∧ B ≤ L) :
    (run s0 ops).2.countP (wlMintBy a k) ≤ L := by
  rw [← tally_noreset]
  exact tally_bound (fun _ => True) (fun s => s.stg k a) (wlMintBy a k) (wlMintBy a k) (fun _ => false) entitlementOf s0
    trivial (h0.2.2.1 k a) (fun _ h => h)
    (fun _ _ _ _ _ _ => trivial) (fun s op s' e _ h => stg_step a k hk s op s' e h)
    (by
      intro s op s' e _ h hsub B hB
      cases e with
      | wlMint b sid cnt ent tot slim =>
        simp only [wlMintBy, Bool.and_eq_true, decide_eq_true_eq] at hsub
        obtain ⟨hlt, _, _, h1⟩ := (step_effect h).1
        have hs : sid ≠ 0 := by rw [hsub.2]; exact hk
        obtain ⟨_, _, hc, _⟩ := h1 hs
        simp [entitlementOf] at hB
        rw [← hsub.1, ← hsub.2, ← hc]; omega
      | _ => simp [wlMintBy] at hsub)
    ops L hL

/-! ## Clause 3 — stage totals against the stage's `mint_count_limit` -/

theorem tot_step (k : Nat) (hk : k ≠ 0) (s : State) (op : Op) (s' : State) (e : Event)
    (h : step s op = .ok (s', e)) :
    s'.tot k = if (fun _ => false) e then 0 else if stageMint k e then s.tot k + 1 else s.tot k := by
  have he := (step_effect h).1
  cases e with
  | publicMint b c L => simp [stageMint, he.2.2.2.2.2.2]
  | airdrop b r => simp [stageMint, he.2.2.2.2]
  | wlMint b sid cnt ent tot slim =>
    obtain ⟨_, _, h0, h1⟩ := he
    by_cases hs : sid = 0
    · obtain ⟨_, _, _, ht⟩ := h0 hs
      have : ¬ (0 = k) := fun h' => hk h'.symm
      simp [stageMint, ht, hs, this]
    · obtain ⟨_, _, _, htot, _, _, _, ht⟩ := h1 hs
      by_cases hsk : sid = k
      · subst hsk; simp [stageMint, ht, upd, htot]
      · have : ¬ (k = sid) := fun h' => hsk h'.symm
        simp [stageMint, ht, upd, hsk, this]
  | purge => simp [stageMint, he.2.2.2]
  | other => simp [stageMint, he.2.2.2]

/-- "the total minted in a tiered stage never exceeds that stage's mint-count limit": one step — a whitelist mint
in stage `k` with a `mint_count_limit` of `L` in force only happens while the stage total is strictly below `L` -/
theorem C03_stage_total_step (s s' : State) (op : Op) (a : Addr) (sid cnt ent tot L : Nat)
    (h : step s op = .ok (s', .wlMint a sid cnt ent tot (some L))) :
    sid ≠ 0 ∧ tot = s.tot sid ∧ tot < L ∧ s'.tot sid = tot + 1 := by
  obtain ⟨_, _, h0, h1⟩ := (step_effect h).1
  by_cases hs : sid = 0
  · -- a non-tiered whitelist mint never carries a stage limit
    cases op with
    | mint a' f v st pre =>
      rcases step_mint h with ⟨_, _, _, _, _, he⟩ | ⟨sid', cnt', ent', tot', slim', hg, _, he, _⟩
      · cases he
      · cases he
        have := (gate_wl hg).choose_spec.choose_spec.choose_spec.2.2.2.2.2.2.1 hs
        cases this.2
    | mintTo sender r forId pre => simp only [step] at h; repeat (first | cases h | split at h)
    | setLimit sender n funds => simp only [step] at h; repeat (first | cases h | split at h)
    | setWhitelist sender id wk funds started oa na pre => simp only [step] at h; repeat (first | cases h | split at h)
    | purge funds pre => simp only [step] at h; repeat (first | cases h | split at h)
    | env => simp only [step] at h; cases h
    | govern mp => simp only [step] at h; cases h
  · obtain ⟨_, _, _, htot, hL, _, _, ht⟩ := h1 hs
    exact ⟨hs, htot, hL L rfl, by simp [ht, upd]⟩

/-- the stage totals are never cleared and count exactly the whitelist mints completed in that stage -/
theorem C03_stage_total_exact (s0 : State) (h0 : Fresh s0) (k : Nat) (hk : k ≠ 0) (ops : List Op) :
    (run s0 ops).1.tot k = (run s0 ops).2.countP (stageMint k) := by
  rw [← tally_noreset]
  exact tally_exact (fun _ => True) (fun s => s.tot k) (stageMint k) (fun _ => false) s0 trivial (h0.2.2.2 k)
    (fun _ _ _ _ _ _ => trivial) (fun s op s' e _ h => tot_step k hk s op s' e h) ops

/-- History form: in every trace, if every stage-`k` mint happened under some `mint_count_limit ≤ L`, the number
of mints completed in stage `k` (= the stored stage total) is at most `L`. -/
theorem C03_stage_total_bound (s0 : State) (h0 : Fresh s0) (k : Nat) (hk : k ≠ 0) (ops : List Op) (L : Nat)
    (hL : ∀ e ∈ (run s0 ops).2, stageMint k e = true → ∃ B, stageLimitOf e = some B ∧ B ≤ L) :
    (run s0 ops).1.tot k ≤ L := by
  rw [C03_stage_total_exact s0 h0 k hk, ← tally_noreset]
  exact tally_bound (fun _ => True) (fun s => s.tot k) (stageMint k) (stageMint k) (fun _ => false) stageLimitOf s0
    trivial (h0.2.2.2 k) (fun _ h => h)
    (fun _ _ _ _ _ _ => trivial) (fun s op s' e _ h => tot_step k hk s op s' e h)
    (by
      intro s op s' e _ h hsub B hB
      cases e with
      | wlMint b sid cnt ent tot slim =>
        simp only [stageMint, decide_eq_true_eq] at hsub
        simp only [stageLimitOf] at hB
        subst hB
        have := C03_stage_total_step s s' op b sid cnt ent tot B h
        rw [← hsub, ← this.2.1]; exact this.2.2.1
      | _ => simp [stageMint] at hsub)
    ops L hL

/-! ## Clause 4 — what the `MintCount` query reports -/

/-- every mint `a` initiated: public mints, airdrops it sent, whitelist mints in any stage -/
def initiatedBy (a : Addr) : Event → Bool
  | .publicMint b _ _ => decide (b = a)
  | .airdrop b _ => decide (b = a)
  | .wlMint b _ _ _ _ _ => decide (b = a)
  | _ => false

theorem report_step (a : Addr) (s : State) (op : Op) (s' : State) (e : Event)
    (h : step s op = .ok (s', e)) (hp : isPurge e = false) :
    reportCount s' a + reportWl s' a =
      (reportCount s a + reportWl s a) + (if initiatedBy a e then 1 else 0) := by
  have hk := (step_effect h).2.1
  have he := (step_effect h).1
  have key : ∀ t : State, reportCount t a + reportWl t a = t.pub a + t.wlc a + tieredSum t a := by
    intro t; unfold reportCount reportWl; split <;> omega
  rw [key, key]
  cases e with
  | publicMint b c L =>
    obtain ⟨hc, _, _, hpu, hw, hst, _⟩ := he
    by_cases hb : b = a
    · subst hb; simp [initiatedBy, tieredSum, hpu, hw, hst, upd, hc]; omega
    · have : ¬ (a = b) := fun h' => hb h'.symm
      simp [initiatedBy, tieredSum, hpu, hw, hst, upd, hb, this]
  | airdrop b r =>
    obtain ⟨_, hpu, hw, hst, _⟩ := he
    by_cases hb : b = a
    · subst hb; simp [initiatedBy, tieredSum, hpu, hw, hst, upd]; omega
    · have : ¬ (a = b) := fun h' => hb h'.symm
      simp [initiatedBy, tieredSum, hpu, hw, hst, upd, hb, this]
  | wlMint b sid cnt ent tot slim =>
    obtain ⟨_, hpu, h0, h1⟩ := he
    by_cases hs : sid = 0
    · obtain ⟨hc, hw, hst, _⟩ := h0 hs
      by_cases hb : b = a
      · subst hb; simp [initiatedBy, tieredSum, hpu, hw, hst, upd, hc]; omega
      · have : ¬ (a = b) := fun h' => hb h'.symm
        simp [initiatedBy, tieredSum, hpu, hw, hst, upd, hb, this]
    · obtain ⟨hge, hle, hc, _, _, hw, hst, _⟩ := h1 hs
      by_cases hb : b = a
      · subst hb
        have : sid = 1 ∨ sid = 2 ∨ sid = 3 := by omega
        rcases this with h' | h' | h' <;> subst h' <;>
          simp [initiatedBy, tieredSum, hpu, hw, hst, upd2, upd, hc] <;> omega
      · have : ¬ (a = b) := fun h' => hb h'.symm
        have h3 : sid = 1 ∨ sid = 2 ∨ sid = 3 := by omega
        rcases h3 with h' | h' | h' <;> subst h' <;>
          simp [initiatedBy, tieredSum, hpu, hw, hst, upd2, upd, hb, this]
  | purge => simp [isPurge] at hp
  | other =>
    obtain ⟨hpu, hw, hst, _⟩ := he
    simp [initiatedBy, tieredSum, hpu, hw, hst]

/-- "until a purge after sell-out clears them, the per-address public and whitelist mint counts the minter
reports equal the mints that address initiated": in every trace without a successful purge, what `MintCount`
reports for `a` (`count`, plus `whitelist_count` on the flex minters) is exactly the number of successful mints
`a` initiated. -/
theorem C03_report_exact (s0 : State) (h0 : Fresh s0) (a : Addr) (ops : List Op)
    (hnp : ∀ e ∈ (run s0 ops).2, isPurge e = false) :
    reportCount (run s0 ops).1 a + reportWl (run s0 ops).1 a = (run s0 ops).2.countP (initiatedBy a) := by
  have := run_inv (fun s es => (∀ e ∈ es, isPurge e = false) →
      reportCount s a + reportWl s a = es.countP (initiatedBy a)) s0
    (by
      intro _
      have key : reportCount s0 a + reportWl s0 a = s0.pub a + s0.wlc a + tieredSum s0 a := by
        unfold reportCount reportWl; split <;> omega
      rw [key]; simp [tieredSum, h0.1 a, h0.2.1 a, h0.2.2.1])
    (by
      intro st es op s' e ih hs hall
      have hprev := ih (fun x hx => hall x (by simp [hx]))
      have hpe := hall e (by simp)
      rw [report_step a st op s' e hs hpe, hprev, List.countP_append]
      by_cases hi : initiatedBy a e = true <;> simp [hi]) ops
  exact this hnp

/-- split form on the flex minters: `count` = public mints + airdrops sent, `whitelist_count` = whitelist mints;
on the other minters `count` is their sum and there is no `whitelist_count` -/
theorem C03_report_split (s : State) (a : Addr) :
    (s.kind.flavor = .flex → reportCount s a = s.pub a ∧ reportWl s a = s.wlc a + tieredSum s a) ∧
    (s.kind.flavor ≠ .flex → reportCount s a = s.pub a + s.wlc a + tieredSum s a ∧ reportWl s a = 0) := by
  unfold reportCount reportWl
  constructor <;> intro h <;> simp [h]

/-! ## Clause 5 — no self-raise through unauthenticated message fields -/

/-- plain and flex minters: the mint message has no fields at all (anything extra is rejected) -/
theorem C03_no_self_raise_no_fields (s s' : State) (a : Addr) (f : Fields) (v : View) (st pre : Bool) (e : Event)
    (hk : s.kind.flavor ≠ .merkle) (h : step s (.mint a f v st pre) = .ok (s', e)) : f = Fields.empty := by
  simp only [step] at h
  split at h
  · cases h
  · next hc =>
    by_cases hf : f = Fields.empty
    · exact hf
    · exact absurd ⟨hk, hf⟩ hc

theorem membership_unverified {k : MinterKind} {wk : WlKind} {f : Fields} {v : View}
    (hk : k.flavor = .merkle) (hp : wk.answersHasMemberProof = false) (hm : v.merkleCfg = false) :
    membership k wk f v =
      if k.isOE then none else (if wk.answersHasMember then some (v.memberPlain, false) else none) := by
  unfold membership
  cases hoe : k.isOE <;> cases hpf : f.proof <;> simp [hk, hp, hm]

theorem entitlement_unverified {k : MinterKind} {f : Fields} {v : View}
    (hk : k.flavor = .merkle) (hoe : k.isOE = false) : entitlement k f v false = v.limit := by
  unfold entitlement
  cases hfa : f.alloc <;> simp [hk, hoe]

/-- Merkle minters wired to a whitelist that does not answer Merkle-proof queries (plain / tiered — the pairing of
the former defect F-C03), or to no whitelist: the complete outcome (success, new state, event) is independent of
`stage`, `proof_hashes`, `allocation` and of anything a proof could verify. `merkleCfg = false` is what every
list-based whitelist reports (`member_limit ≥ 1`). -/
theorem C03_no_self_raise_unverified (s : State) (a : Addr) (f f' : Fields) (v : View) (l l' : Bool) (st pre : Bool)
    (hk : s.kind.flavor = .merkle)
    (hw : ∀ id wk, s.wl = some (id, wk) → wk.answersHasMemberProof = false)
    (hm : v.merkleCfg = false) :
    step s (.mint a f { v with leafOk := l } st pre) = step s (.mint a f' { v with leafOk := l' } st pre) := by
  have hg : gate s a f { v with leafOk := l } = gate s a f' { v with leafOk := l' } := by
    unfold gate
    cases hwl : s.wl with
    | none => rfl
    | some p =>
      obtain ⟨id, wk⟩ := p
      have hp := hw id wk hwl
      have hm1 : ({ v with leafOk := l } : View).merkleCfg = false := hm
      have hm2 : ({ v with leafOk := l' } : View).merkleCfg = false := hm
      simp only [membership_unverified hk hp hm1, membership_unverified hk hp hm2]
      cases hoe : s.kind.isOE
      · cases h2 : wk.answersHasMember <;> cases h3 : v.memberPlain <;>
          simp [entitlement_unverified hk hoe, wlCount]
      · simp
  simp only [step, hk, hg]
  simp

/-- on every minter, the `stage` field is never read by the minter itself: it only matters through the leaf the
whitelist verifies (`leafOk`) -/
theorem C03_stage_field_only_in_leaf (s : State) (a : Addr) (f : Fields) (x y : Option Nat) (v : View) (st pre : Bool)
    (hk : s.kind.flavor = .merkle) :
    step s (.mint a { f with stage := x } v st pre) = step s (.mint a { f with stage := y } v st pre) := by
  have hg : gate s a { f with stage := x } v = gate s a { f with stage := y } v := by
    unfold gate membership entitlement; rfl
  simp only [step, hk, hg]
  simp

/-- the limits themselves can only be moved by the admin: the per-address limit changes only through a successful
`UpdatePerAddressLimit` sent by the admin (within 1..max_per_address_limit), the attached whitelist only through a
successful `SetWhitelist` sent by the admin before the start time -/
theorem C03_limits_only_admin (s s' : State) (op : Op) (e : Event) (h : step s op = .ok (s', e)) :
    (s'.limit ≠ s.limit → ∃ n fu, op = .setLimit s.admin n fu ∧ s'.limit = n ∧ 1 ≤ n ∧ n ≤ s.maxPerAddr) ∧
    (s'.wl ≠ s.wl → ∃ id wk fu oa na pre, op = .setWhitelist s.admin id wk fu false oa na pre ∧
        s'.wl = some (id, wk) ∧ configOk s.kind.flavor wk = true) := by
  cases op with
  | mint a f v st pre =>
    rcases step_mint h with ⟨_, _, _, _, hs, _⟩ | ⟨_, _, _, _, _, _, _, _, hs⟩
    · subst hs; exact ⟨fun hne => absurd rfl hne, fun hne => absurd rfl hne⟩
    · rcases hs with ⟨_, hs⟩ | ⟨_, hs⟩ <;> subst hs <;>
        exact ⟨fun hne => absurd rfl hne, fun hne => absurd rfl hne⟩
  | mintTo sender r forId pre =>
    simp only [step] at h
    repeat (first | cases h | split at h)
    exact ⟨fun hne => absurd rfl hne, fun hne => absurd rfl hne⟩
  | setLimit sender n funds =>
    simp only [step] at h
    split at h
    · cases h
    · next hf =>
      split at h
      · cases h
      · next hs =>
        split at h
        · cases h
        · next hn =>
          split at h
          · cases h
          · cases h
            refine ⟨fun _ => ⟨n, funds, ?_, rfl, by omega, by omega⟩, fun hne => absurd rfl hne⟩
            have : sender = s.admin := by simpa using hs
            rw [this]
  | setWhitelist sender id wk funds started oa na pre =>
    simp only [step] at h
    split at h
    · cases h
    · split at h
      · cases h
      · next hs =>
        split at h
        · cases h
        · next hst =>
          split at h
          · cases h
          · split at h
            · cases h
            · next hc =>
              split at h
              · cases h
              · split at h
                · cases h
                · cases h
                  refine ⟨fun hne => absurd rfl hne, fun _ => ⟨id, wk, funds, oa, na, pre, ?_, rfl, by simpa using hc⟩⟩
                  have h1 : sender = s.admin := by simpa using hs
                  have h2 : started = false := by simpa using hst
                  rw [h1, h2]
  | purge funds pre =>
    simp only [step] at h
    repeat (first | cases h | split at h)
    exact ⟨fun hne => absurd rfl hne, fun hne => absurd rfl hne⟩
  | env =>
    simp only [step] at h
    cases h
    exact ⟨fun hne => absurd rfl hne, fun hne => absurd rfl hne⟩
  | govern mp =>
    simp only [step] at h
    cases h
    exact ⟨fun hne => absurd rfl hne, fun hne => absurd rfl hne⟩

/-! ## The (minter × whitelist) pairing table (checked against what the harness discovers on the real contracts) -/

/-- rows = the nine minters in `allMinterKinds` order, columns = plain, flex, tiered, tiered-flex, merkle,
tiered-merkle, immutable; 0 = rejected at instantiate / SetWhitelist, 1 = attachable but no whitelist mint can
succeed, 2 = whitelist mints work -/
theorem C03_compatible_table :
    (allMinterKinds.map fun k => allWlKinds.map (compatible k)) =
      [ [2, 0, 2, 0, 1, 1, 0], [2, 0, 2, 0, 1, 1, 0],
        [0, 2, 0, 2, 0, 0, 0], [0, 2, 0, 2, 0, 0, 0],
        [2, 0, 1, 0, 2, 2, 0], [2, 0, 1, 0, 2, 2, 0],
        [2, 0, 2, 0, 1, 1, 0], [0, 2, 0, 2, 0, 0, 0], [1, 0, 1, 0, 2, 2, 0] ] := by
  decide

/-- a pairing the model calls incompatible can never be attached -/
theorem C03_incompatible_never_attached (s s' : State) (sender : Addr) (id : Nat) (wk : WlKind)
    (fu st oa na pre : Bool) (e : Event) (hc : compatible s.kind wk = 0)
    (h : step s (.setWhitelist sender id wk fu st oa na pre) = .ok (s', e)) : False := by
  have hconf : configOk s.kind.flavor wk = false := by
    unfold compatible at hc
    split at hc
    · assumption
    · split at hc <;> cases hc
  simp only [step] at h
  repeat (first | cases h | split at h)
  all_goals simp_all

/-! ## Non-vacuity: concrete traces -/

/-- a vending-merkle minter wired to a PLAIN whitelist (limit 1): the F-C03 shape -/
def exMerklePlain : State :=
  { kind := .vendingMerkle, admin := 10, limit := 2, numTokens := 9, maxPerAddr := 5, oeNoCap := false,
    wl := some (0, .plain), pub := zero, wlc := zero, stg := fun _ => zero, tot := zero, owned := zero }

def exViewPlain : View := { active := true, memberPlain := true, limit := 1 }

/-- the member mints once; a second mint declaring `allocation: 5` is rejected (it was accepted before d3ea89f) -/
example :
    let ops := [Op.mint 21 { alloc := some 5 } exViewPlain false true,
                Op.mint 21 { alloc := some 5 } exViewPlain false true,
                Op.mint 21 { alloc := some 5, proof := true } exViewPlain false true]
    (run exMerklePlain ops).1.wlc 21 = 1 ∧ (run exMerklePlain ops).2.length = 1 := by
  decide

example : Fresh exMerklePlain := by simp [Fresh, exMerklePlain, zero]

/-- a tiered stage with `mint_count_limit = 2`: two buyers mint, the third is refused; then public phase with
limit 2, an airdrop by the admin landing in the admin's public counter, a limit update, and a purge -/
def exTiered : State :=
  { kind := .vending, admin := 10, limit := 1, numTokens := 9, maxPerAddr := 3, oeNoCap := false,
    wl := some (0, .tiered), pub := zero, wlc := zero, stg := fun _ => zero, tot := zero, owned := zero }

def exViewStage : View := { active := true, memberPlain := true, limit := 1, stageId := 2, stageLimit := some 2 }

example :
    let ops := [Op.mint 21 {} exViewStage false true, Op.mint 22 {} exViewStage false true,
                Op.mint 23 {} exViewStage false true, Op.mint 21 {} exViewStage false true,
                Op.mint 21 {} {} true true, Op.mint 21 {} {} true true,
                Op.mintTo 10 22 false true, Op.setLimit 10 2 false, Op.mint 21 {} {} true true,
                Op.setLimit 21 3 false]
    let r := run exTiered ops
    r.1.tot 2 = 2 ∧ r.1.stg 2 21 = 1 ∧ r.1.stg 2 23 = 0 ∧ r.1.pub 21 = 2 ∧ r.1.pub 10 = 1 ∧ r.1.limit = 2 ∧
    reportCount r.1 21 = 3 ∧ r.2.length = 6 := by
  decide

/-- a Merkle whitelist on a Merkle minter: a verified leaf with allocation 2 entitles to exactly two mints,
whatever the whitelist's own limit (1); declaring 3 with a leaf that no longer verifies is refused -/
def exMerkle : State :=
  { kind := .openEditionMerkle, admin := 10, limit := 2, numTokens := 0, maxPerAddr := 5, oeNoCap := false,
    wl := some (0, .merkle), pub := zero, wlc := zero, stg := fun _ => zero, tot := zero, owned := zero }

example :
    let ok : View := { active := true, leafOk := true, limit := 1, merkleCfg := true }
    let bad : View := { active := true, leafOk := false, limit := 1, merkleCfg := true }
    let ops := [Op.mint 21 { proof := true, alloc := some 2 } ok false true,
                Op.mint 21 { proof := true, alloc := some 3 } bad false true,
                Op.mint 21 { proof := true, alloc := some 2 } ok false true,
                Op.mint 21 { proof := true, alloc := some 2 } ok false true]
    (run exMerkle ops).1.wlc 21 = 2 ∧ (run exMerkle ops).2.length = 2 := by
  decide

/-- the admin's airdrops are not limit-checked and use up the admin's own public allowance (limit 1) -/
example :
    let ops := [Op.mintTo 10 21 false true, Op.mintTo 10 22 false true, Op.mint 10 {} {} true true]
    (run { exTiered with wl := none } ops).1.pub 10 = 2 ∧ (run { exTiered with wl := none } ops).2.length = 2 := by
  decide

end LP
