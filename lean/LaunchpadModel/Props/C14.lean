import LaunchpadModel.Model.Merkle
import LaunchpadModel.Model.MerkleWl
import LaunchpadModel.Model.Sha256
import LaunchpadModel.Model.Blake3
import LaunchpadModel.Lemmas.Merkle
/-!
# C14 — Merkle whitelist membership is complete and sound

> For any member list, every listed entry is accepted with its Merkle proof against the stored root, and no string
> outside the list is accepted with any proof (another member's, truncated, extended, reordered or bit-flipped), up to
> hash collisions. Malformed hashes produce an error and never a positive answer, the root cannot be changed by any
> call, and the tiered variant checks against the root of the currently active stage only. Because minters bind the
> sender (and stage/allocation) into the leaf, a proof issued for one address is useless to another.

All theorems are over an **arbitrary** hash `H : Bytes → Bytes`; "up to hash collisions" is the explicit disjunct
`Collision H := ∃ x ≠ y, H x = H y` (the theorem *returns* the collision). The two facts about the hash that are needed
(`Hlen`: fixed digest length `n`; `Hbyte`: digest bytes < 256, needed only for hex round-trips) are proved for the two
executable instances (`Sha256.sha256`, `Blake3.blake3_16`) that the driver runs against the real contracts.
-/
namespace LP
open LP.Merkle LP.MerkleWl

/-! ## hypotheses on the hash and their instances -/

/-- digests have length `n` and consist of bytes -/
structure HashOk (H : Bytes → Bytes) (n : Nat) : Prop where
  len : ∀ x, (H x).length = n
  byte : ∀ x, ∀ b ∈ H x, b < 256

theorem sha256_ok : HashOk Sha256.sha256 32 where
  len := Sha256.sha256_length
  byte := by
    intro x b hb
    simp only [Sha256.sha256, Sha256.St.toBytes, Sha256.be, List.mem_append, List.mem_cons, List.not_mem_nil,
      or_false] at hb
    omega

theorem blake3_16_ok : HashOk Blake3.blake3_16 16 where
  len := Blake3.blake3_16_length
  byte := by
    intro x b hb
    simp only [Blake3.blake3_16, Blake3.blake3, Blake3.CV.toBytes, Blake3.le, List.cons_append, List.nil_append,
      List.mem_cons, List.not_mem_nil, or_false] at hb
    omega

/-! ## small bridges between the contract function and the fold -/

theorem hasMember_eq_some (H : Bytes → Bytes) (n : Nat) (rootStr : List Nat) (m : Bytes) (proof : List (List Nat))
    (b : Bool) :
    hasMember H n rootStr m proof = some b ↔
      ∃ ps, proof.mapM (decodeN n) = some ps ∧ b = (rootStr == hexEncode (foldProof H (H m) ps)) := by
  unfold hasMember
  cases h : proof.mapM (decodeN n) with
  | none => simp
  | some ps => simp [eq_comm]

theorem all_layers (P : Bytes → Prop) (H : Bytes → Bytes) (hH : ∀ x, P (H x)) (k : Nat) (l : List Bytes)
    (hl : ∀ x ∈ l, P x) : ∀ layer ∈ layersFrom H k l, ∀ x ∈ layer, P x := by
  have hp : ∀ l : List Bytes, (∀ x ∈ l, P x) → ∀ x ∈ pairUp H l, P x := by
    intro l
    fun_induction pairUp H l with
    | case1 a b rest ih =>
      intro hl x hx
      simp only [List.mem_cons] at hx
      rcases hx with rfl | hx
      · exact hH _
      · exact ih (fun y hy => hl y (by simp [hy])) x hx
    | case2 a => intro hl; exact hl
    | case3 => intro hl; exact hl
  induction k generalizing l with
  | zero => intro layer hl'; simp [layersFrom] at hl'; subst hl'; exact hl
  | succ k ih =>
    intro layer hl'
    simp only [layersFrom, List.mem_cons] at hl'
    rcases hl' with rfl | hl'
    · exact hl
    · exact ih (pairUp H l) (hp l hl) layer hl'

theorem sib_mem (l : List Bytes) (i : Nat) (x : Bytes) (h : sib l i = some x) : x ∈ l := by
  unfold sib at h; split at h <;> exact List.mem_of_getElem? h

theorem proofAt_mem (layers : List (List Bytes)) (i : Nat) :
    ∀ x ∈ proofAt layers i, ∃ layer ∈ layers, x ∈ layer := by
  induction layers generalizing i with
  | nil => simp [proofAt]
  | cons l rest ih =>
    intro x hx
    simp only [proofAt, List.mem_append, Option.mem_toList] at hx
    rcases hx with hx | hx
    · exact ⟨l, by simp, sib_mem l i x hx⟩
    · obtain ⟨layer, h1, h2⟩ := ih (i / 2) x hx
      exact ⟨layer, by simp [h1], h2⟩

/-! ## completeness -/

/-- **Clause "every listed entry is accepted with its Merkle proof against the stored root"** — for every tree over
the member list (any shape, any size, duplicates allowed), every path to a leaf yields a proof whose sorted-pair fold
from `H member` is the root. -/
theorem C14_complete (H : Bytes → Bytes) (t : Tree) (ds : List Dir) (m : Bytes) (p : List Bytes)
    (h : t.proofOf H ds = some (m, p)) : foldProof H (H m) p = t.root H :=
  complete H t ds m p h

/-- … and every listed entry has such a path/proof. -/
theorem C14_complete_every_member (H : Bytes → Bytes) (t : Tree) (m : Bytes) (hm : m ∈ t.leaves) :
    ∃ ds p, t.proofOf H ds = some (m, p) ∧ foldProof H (H m) p = t.root H := by
  obtain ⟨ds, p, h⟩ := mem_proofOf H t m hm
  exact ⟨ds, p, h, complete H t ds m p h⟩

/-- The same at the contract's interface (`query_has_member` with hex strings): if the stored root string is the
lower-case hex of the tree root, every listed entry with its hex-encoded proof is answered `has_member: true`. -/
theorem C14_complete_query (H : Bytes → Bytes) (n : Nat) (hH : HashOk H n) (t : Tree) (ds : List Dir) (m : Bytes)
    (p : List Bytes) (h : t.proofOf H ds = some (m, p)) :
    hasMember H n (hexEncode (t.root H)) m (p.map hexEncode) = some true := by
  have hall : ∀ q ∈ p, q.length = n ∧ ∀ x ∈ q, x < 256 := by
    -- every proof element is the root of a subtree, i.e. a value of `H`
    have : ∀ (t : Tree) ds m p, t.proofOf H ds = some (m, p) → ∀ q ∈ p, ∃ s : Tree, q = s.root H := by
      intro t
      induction t with
      | leaf m' =>
        intro ds m p h
        cases ds <;> simp [Tree.proofOf] at h
        obtain ⟨_, rfl⟩ := h; simp
      | node l r ihl ihr =>
        intro ds m p h
        cases ds with
        | nil => simp [Tree.proofOf] at h
        | cons d ds =>
          cases d with
          | L =>
            simp only [Tree.proofOf, Option.map_eq_some_iff] at h
            obtain ⟨⟨m', p'⟩, hp, heq⟩ := h
            simp at heq; obtain ⟨rfl, rfl⟩ := heq
            intro q hq
            simp only [List.mem_append, List.mem_singleton] at hq
            rcases hq with hq | rfl
            · exact ihl ds m' p' hp q hq
            · exact ⟨r, rfl⟩
          | R =>
            simp only [Tree.proofOf, Option.map_eq_some_iff] at h
            obtain ⟨⟨m', p'⟩, hp, heq⟩ := h
            simp at heq; obtain ⟨rfl, rfl⟩ := heq
            intro q hq
            simp only [List.mem_append, List.mem_singleton] at hq
            rcases hq with hq | rfl
            · exact ihr ds m' p' hp q hq
            · exact ⟨l, rfl⟩
    intro q hq
    obtain ⟨s, rfl⟩ := this t ds m p h q hq
    cases s <;> exact ⟨hH.len _, hH.byte _⟩
  rw [hasMember_eq_some]
  refine ⟨p, mapM_decodeN_hexEncode n p (fun q hq => (hall q hq).1) (fun q hq => (hall q hq).2), ?_⟩
  rw [complete H t ds m p h]; simp

/-- **The trees the roots and proofs actually come from** (`rs_merkle` layered builder with the repo's sorting hasher:
pairs hashed in sorted order, an odd last node promoted, bit-length-many iterations): for every non-empty member list
there is a `Tree` with exactly these leaves whose root is the layered root … -/
theorem C14_layered (H : Bytes → Bytes) (members : List Bytes) (hne : members ≠ []) :
    ∃ t : Tree, toTree members = some t ∧ t.leaves = members ∧ layeredRoot H members = some (t.root H) := by
  have hlen : 1 ≤ (members.map Tree.leaf).length := by
    cases members with
    | nil => exact absurd rfl hne
    | cons a l => simp
  have hh : halves (bitLen members.length) (members.map Tree.leaf).length = 1 := by
    have := halves_bitLen (members.map Tree.leaf).length hlen
    simpa using this
  obtain ⟨t, h1, h2, h3⟩ := treeFrom_spec H (bitLen members.length) (members.map Tree.leaf) hh
  refine ⟨t, h1, ?_, ?_⟩
  · rw [h2]; simp [List.flatMap_map, Tree.leaves, List.flatMap_singleton']
  · rw [layeredRoot_eq]
    have : (members.map Tree.leaf).map (Tree.root H) = members.map H := by simp [Tree.root]
    rw [← this]; exact h3

/-- … and the layered proof of the `i`-th member (`MerkleTree::proof(&[i])`: the sibling in every layer where there is
one) is accepted by the contract against that root — all sizes, odd sizes and duplicates included. -/
theorem C14_layered_complete (H : Bytes → Bytes) (n : Nat) (hH : HashOk H n) (members : List Bytes) (i : Nat)
    (m r : Bytes) (hm : members[i]? = some m) (hr : layeredRoot H members = some r) :
    hasMember H n (hexEncode r) m ((proofAt (treeLayers H (members.map H)) i).map hexEncode) = some true := by
  have hi : i < members.length := by
    rcases Nat.lt_or_ge i members.length with h | h
    · exact h
    · simp [List.getElem?_eq_none h] at hm
  have hx : (members.map H)[i]? = some (H m) := by simp [hm]
  have hh : halves (bitLen members.length) (members.map H).length = 1 := by
    simpa using halves_bitLen members.length (by omega)
  have hc := layers_complete H (bitLen members.length) (members.map H) i (H m) hx hh
  rw [layeredRoot_eq, hc] at hr
  have hr' : r = foldProof H (H m) (proofAt (treeLayers H (members.map H)) i) := by
    simp [treeLayers] at hr ⊢; exact hr.symm
  have hall : ∀ q ∈ proofAt (treeLayers H (members.map H)) i, q.length = n ∧ ∀ x ∈ q, x < 256 := by
    intro q hq
    obtain ⟨layer, h1, h2⟩ := proofAt_mem _ i q hq
    exact all_layers (fun q => q.length = n ∧ ∀ x ∈ q, x < 256) H (fun x => ⟨hH.len x, hH.byte x⟩) _ _
      (by intro x hx; simp only [List.mem_map] at hx; obtain ⟨y, _, rfl⟩ := hx; exact ⟨hH.len y, hH.byte y⟩)
      layer h1 q h2
  rw [hasMember_eq_some]
  refine ⟨_, mapM_decodeN_hexEncode n _ (fun q hq => (hall q hq).1) (fun q hq => (hall q hq).2), ?_⟩
  rw [← hr']; simp

/-! ## soundness -/

/-- **Clause "no string outside the list is accepted with any proof (another member's, truncated, extended, reordered
or bit-flipped), up to hash collisions"** — `proof` is universally quantified: whatever list of strings is supplied, a
`has_member: true` answer for `m` means `m` is a listed entry, or the run exhibits a collision of `H`.

Side condition (needed, see `C14_length_condition_needed`): the contracts do not separate leaf and inner hashes, so
strings of exactly `2·n` bytes (the size of an inner preimage) are excluded — for listed entries and for the queried
string. Every leaf `stage‖bech32 address‖allocation` built by the minters is ASCII text; with 32-byte digests `2n = 64`,
with 16-byte digests `2n = 32`. -/
theorem C14_sound (H : Bytes → Bytes) (n : Nat) (Hlen : ∀ x, (H x).length = n) (t : Tree)
    (hleaf : ∀ x ∈ t.leaves, x.length ≠ 2 * n) (m : Bytes) (hm : m.length ≠ 2 * n)
    (proof : List (List Nat))
    (h : hasMember H n (hexEncode (t.root H)) m proof = some true) :
    m ∈ t.leaves ∨ Collision H := by
  rw [hasMember_eq_some] at h
  obtain ⟨ps, hps, heq⟩ := h
  have : hexEncode (t.root H) = hexEncode (foldProof H (H m) ps) := by
    simpa using heq.symm
  have hfold := (hexEncode_inj _ _ this).symm
  exact sound H n Hlen t hleaf m hm ps (mapM_decodeN_length n proof ps hps) hfold

/-- Soundness against the root the layered (`rs_merkle`) builder computes for a member list. -/
theorem C14_sound_layered (H : Bytes → Bytes) (n : Nat) (Hlen : ∀ x, (H x).length = n) (members : List Bytes)
    (r : Bytes) (hr : layeredRoot H members = some r)
    (hleaf : ∀ x ∈ members, x.length ≠ 2 * n) (m : Bytes) (hm : m.length ≠ 2 * n)
    (proof : List (List Nat)) (h : hasMember H n (hexEncode r) m proof = some true) :
    m ∈ members ∨ Collision H := by
  have hne : members ≠ [] := by
    intro h0; subst h0
    simp [layeredRoot, treeLayers, bitLen, layersFrom, layersRoot] at hr
  obtain ⟨t, _, h2, h3⟩ := C14_layered H members hne
  rw [hr] at h3
  have hrt : r = t.root H := by simpa using h3
  subst hrt
  have := C14_sound H n Hlen t (by rw [h2]; exact hleaf) m hm proof h
  rwa [h2] at this

/-- the two deployed instances, with no hypothesis left on the hash -/
theorem C14_sound_sha256 (members : List Bytes) (r : Bytes) (hr : layeredRoot Sha256.sha256 members = some r)
    (hleaf : ∀ x ∈ members, x.length ≠ 64) (m : Bytes) (hm : m.length ≠ 64) (proof : List (List Nat))
    (h : hasMember Sha256.sha256 32 (hexEncode r) m proof = some true) :
    m ∈ members ∨ Collision Sha256.sha256 :=
  C14_sound_layered _ 32 sha256_ok.len members r hr hleaf m hm proof h

theorem C14_sound_blake3 (members : List Bytes) (r : Bytes) (hr : layeredRoot Blake3.blake3_16 members = some r)
    (hleaf : ∀ x ∈ members, x.length ≠ 32) (m : Bytes) (hm : m.length ≠ 32) (proof : List (List Nat))
    (h : hasMember Blake3.blake3_16 16 (hexEncode r) m proof = some true) :
    m ∈ members ∨ Collision Blake3.blake3_16 :=
  C14_sound_layered _ 16 blake3_16_ok.len members r hr hleaf m hm proof h

/-- The length side condition cannot be dropped: the preimage of the root of a two-leaf tree (a `2n`-byte string) is
accepted with the empty proof although it need not be listed. (Recorded as an observation about the code: there is no
leaf/inner domain separation. No minter-built leaf has this form.) -/
theorem C14_length_condition_needed (H : Bytes → Bytes) (n : Nat) (a b : Bytes) :
    hasMember H n (hexEncode ((Tree.node (.leaf a) (.leaf b)).root H)) (sortPair (H a) (H b)) [] = some true := by
  simp [hasMember, foldProof, Tree.root]

/-! ## malformed hashes -/

theorem decodeN_none_of_bad (n : Nat) (s : List Nat)
    (hbad : ¬ (s.length = 2 * n ∧ ∀ c ∈ s, (hexVal c).isSome)) : decodeN n s = none := by
  cases h : decodeN n s with
  | none => rfl
  | some p => exact absurd ((decodeN_isSome_iff n s).mp (by simp [h])) hbad

/-- **Clause "Malformed hashes produce an error and never a positive answer"** — if any proof element is not exactly
`2n` hex characters (wrong length — too short, too long, odd — or a non-hex character anywhere), the query errors,
whatever the other elements, the member and the stored root are. -/
theorem C14_malformed (H : Bytes → Bytes) (n : Nat) (rootStr : List Nat) (m : Bytes) (proof : List (List Nat))
    (s : List Nat) (hs : s ∈ proof) (hbad : ¬ (s.length = 2 * n ∧ ∀ c ∈ s, (hexVal c).isSome)) :
    hasMember H n rootStr m proof = none := by
  simp [hasMember, mapM_none_of_mem n proof s hs (decodeN_none_of_bad n s hbad)]

/-- in particular it is never answered positively (nor negatively) -/
theorem C14_malformed_never_true (H : Bytes → Bytes) (n : Nat) (rootStr : List Nat) (m : Bytes)
    (proof : List (List Nat)) (s : List Nat) (hs : s ∈ proof)
    (hbad : ¬ (s.length = 2 * n ∧ ∀ c ∈ s, (hexVal c).isSome)) (b : Bool) :
    hasMember H n rootStr m proof ≠ some b := by
  rw [C14_malformed H n rootStr m proof s hs hbad]; simp

/-- conversely, with only well-formed elements the query always answers (it never errors) -/
theorem C14_wellformed_answers (H : Bytes → Bytes) (n : Nat) (rootStr : List Nat) (m : Bytes)
    (proof : List (List Nat)) (hok : ∀ s ∈ proof, s.length = 2 * n ∧ ∀ c ∈ s, (hexVal c).isSome) :
    ∃ b, hasMember H n rootStr m proof = some b := by
  have : ∃ ps, proof.mapM (decodeN n) = some ps := by
    induction proof with
    | nil => exact ⟨[], rfl⟩
    | cons s ss ih =>
      obtain ⟨ps, hps⟩ := ih (fun x hx => hok x (by simp [hx]))
      obtain ⟨p, hp⟩ := Option.isSome_iff_exists.mp ((decodeN_isSome_iff n s).mpr (hok s (by simp)))
      exact ⟨p :: ps, by simp [List.mapM_cons, hp, hps]⟩
  obtain ⟨ps, hps⟩ := this
  exact ⟨rootStr == hexEncode (foldProof H (H m) ps), by simp [hasMember, hps]⟩

/-- a malformed root is rejected at instantiation (`verify_merkle_root`), in both contracts -/
theorem C14_malformed_root_plain (now : Nat) (funds : List Coin) (msg : PlainInit)
    (hbad : ¬ (msg.root.length = 64 ∧ ∀ c ∈ msg.root, (hexVal c).isSome)) :
    instantiatePlain now funds msg = none := by
  have : validHash 32 msg.root = false := by
    simp [validHash, decodeN_none_of_bad 32 msg.root hbad]
  simp [instantiatePlain, this]

theorem C14_malformed_root_tiered (now : Nat) (funds : List Coin) (msg : TieredInit) (r : List Nat)
    (hr : r ∈ msg.roots) (hbad : ¬ (r.length = 32 ∧ ∀ c ∈ r, (hexVal c).isSome)) :
    instantiateTiered now funds msg = none := by
  have h1 : validHash 16 r = false := by
    simp [validHash, decodeN_none_of_bad 16 r hbad]
  have : msg.roots.all (validHash 16) = false := by
    rw [List.all_eq_false]; exact ⟨r, hr, by simp [h1]⟩
  simp [instantiateTiered, this]

/-! ## the root cannot be changed -/

theorem step_roots (H : Bytes → Bytes) (now : Nat) (w w' : World) (op : Op) (h : step H now w op = some w') :
    w'.wl.roots = w.wl.roots := by
  cases op with
  | plain o =>
    cases hw : w.wl with
    | tiered s => simp [step, hw] at h
    | plain s =>
      simp only [step, hw, Option.map_eq_some_iff] at h
      obtain ⟨s', hs, rfl⟩ := h
      have : s'.root = s.root := by
        cases o <;> simp only [Plain.exec] at hs <;> (repeat' split at hs) <;> simp_all <;> subst hs <;> rfl
      simp [Wl.roots, this]
  | tiered o =>
    cases hw : w.wl with
    | plain s => simp [step, hw] at h
    | tiered s =>
      simp only [step, hw, Option.map_eq_some_iff] at h
      obtain ⟨s', hs, rfl⟩ := h
      have : s'.roots = s.roots := by
        cases o <;> simp only [Tiered.exec] at hs <;> (repeat' split at hs) <;> simp_all <;> subst hs <;> rfl
      simp [Wl.roots, this]
  | mint sender stage alloc proof =>
    simp only [step, mint] at h
    repeat' split at h
    all_goals simp_all
    all_goals subst h; rfl

/-- **Clause "the root cannot be changed by any call"** — for every history of execute messages (the complete
`ExecuteMsg` surface of both whitelist contracts, migrate, and mints through a bound minter), by any senders, with any
arguments, at any block times, the stored root(s) are those written at instantiation. -/
theorem C14_root_immutable (H : Bytes → Bytes) (w : World) (ops : List (Nat × Op)) :
    (run H w ops).wl.roots = w.wl.roots := by
  induction ops generalizing w with
  | nil => rfl
  | cons op ops ih =>
    simp only [run, List.foldl_cons] at ih ⊢
    rw [ih]
    unfold step'
    cases h : step H op.1 w op.2 with
    | none => rfl
    | some w' => exact step_roots H op.1 w w' op.2 h

/-- a plain whitelist stays a plain whitelist with the same root -/
theorem step_plain (H : Bytes → Bytes) (now : Nat) (w w' : World) (op : Op) (s : Plain) (hw : w.wl = .plain s)
    (h : step H now w op = some w') : ∃ s', w'.wl = .plain s' ∧ s'.root = s.root := by
  have hr := step_roots H now w w' op h
  cases op with
  | plain o =>
    simp only [step, hw, Option.map_eq_some_iff] at h
    obtain ⟨s', _, rfl⟩ := h
    refine ⟨s', rfl, ?_⟩
    simpa [Wl.roots, hw] using hr
  | tiered o => simp [step, hw] at h
  | mint sender stage alloc proof =>
    simp only [step, mint] at h
    repeat' split at h
    all_goals simp_all
    all_goals subst h; exact ⟨s, rfl, rfl⟩

theorem run_plain (H : Bytes → Bytes) (w : World) (ops : List (Nat × Op)) (s : Plain) (hw : w.wl = .plain s) :
    ∃ s', (run H w ops).wl = .plain s' ∧ s'.root = s.root := by
  induction ops generalizing w s with
  | nil => exact ⟨s, hw, rfl⟩
  | cons op ops ih =>
    simp only [run, List.foldl_cons] at ih ⊢
    unfold step'
    cases h : step H op.1 w op.2 with
    | none => exact ih w s hw
    | some w' =>
      obtain ⟨s1, h1, h2⟩ := step_plain H op.1 w w' op.2 s hw h
      obtain ⟨s2, h3, h4⟩ := ih w' s1 h1
      exact ⟨s2, h3, by rw [h4, h2]⟩

/-- consequently the plain whitelist's answers never change: after any history, at any block time, `HasMember`
answers exactly what it answered right after instantiation (accepted entries stay accepted, nothing else ever becomes
accepted). -/
theorem C14_plain_answers_stable (H : Bytes → Bytes) (w : World) (s : Plain) (hw : w.wl = .plain s)
    (ops : List (Nat × Op)) (now now' : Nat) (m : Bytes) (proof : List (List Nat)) :
    (run H w ops).wl.hasMember H now m proof = w.wl.hasMember H now' m proof := by
  obtain ⟨s', h1, h2⟩ := run_plain H w ops s hw
  simp [Wl.hasMember, h1, hw, Plain.hasMember, h2]

/-! ## the tiered variant -/

/-- **Clause "the tiered variant checks against the root of the currently active stage only"** —
no active stage ⇒ the query errors; -/
theorem C14_tiered_no_active_stage (H : Bytes → Bytes) (s : Tiered) (now : Nat) (m : Bytes) (proof : List (List Nat))
    (h : activeIdx now s.stages = none) : s.hasMember H now m proof = none := by
  simp [Tiered.hasMember, h]

/-- with active stage `i` the answer is the plain membership check against `roots[i]` and nothing else: it is the same
in any other state whose active stage and `i`-th root agree (the other stages' roots are irrelevant). -/
theorem C14_tiered_active_root (H : Bytes → Bytes) (s : Tiered) (now i : Nat) (r : List Nat) (m : Bytes)
    (proof : List (List Nat)) (hi : activeIdx now s.stages = some i) (hr : s.roots[i]? = some r) :
    s.hasMember H now m proof = hasMember H 16 r m proof := by
  simp [Tiered.hasMember, hi, hr]

theorem C14_tiered_other_roots_irrelevant (H : Bytes → Bytes) (s s' : Tiered) (now i : Nat) (m : Bytes)
    (proof : List (List Nat)) (hi : activeIdx now s.stages = some i) (hi' : activeIdx now s'.stages = some i)
    (hr : s.roots[i]? = s'.roots[i]?) :
    s.hasMember H now m proof = s'.hasMember H now m proof := by
  simp [Tiered.hasMember, hi, hi', hr]

/-- the active stage is the first one whose window `[start, end]` contains the block time -/
theorem C14_tiered_active_spec (now : Nat) (stages : List Stage) (i : Nat) (h : activeIdx now stages = some i) :
    ∃ st, stages[i]? = some st ∧ st.start ≤ now ∧ now ≤ st.end_ ∧
      ∀ j, j < i → ∀ sj, stages[j]? = some sj → ¬ (sj.start ≤ now ∧ now ≤ sj.end_) := by
  unfold activeIdx at h
  rw [List.findIdx?_eq_some_iff_getElem] at h
  obtain ⟨hi, hp, hlt⟩ := h
  refine ⟨stages[i], by simp [hi], ?_, ?_, ?_⟩
  · simp at hp; exact hp.1
  · simp at hp; exact hp.2
  · intro j hj sj hsj hc
    have hjl : j < stages.length := by omega
    have := hlt j hj
    have e : stages[j] = sj := by
      have := List.getElem?_eq_getElem hjl
      rw [this] at hsj; simpa using hsj
    rw [e] at this
    simp at this
    exact absurd hc.2 (by have := this hc.1; omega)

/-- completeness of the tiered query: while stage `i` is active, every entry of the list committed at index `i` is
accepted with its layered proof -/
theorem C14_tiered_complete (H : Bytes → Bytes) (hH : HashOk H 16) (s : Tiered) (now i j : Nat)
    (members : List Bytes) (m r : Bytes)
    (hi : activeIdx now s.stages = some i) (hroot : s.roots[i]? = some (hexEncode r))
    (hm : members[j]? = some m) (hr : layeredRoot H members = some r) :
    s.hasMember H now m ((proofAt (treeLayers H (members.map H)) j).map hexEncode) = some true := by
  rw [C14_tiered_active_root H s now i _ m _ hi hroot]
  exact C14_layered_complete H 16 hH members j m r hm hr

/-- soundness of the tiered query: a positive answer at time `now` means membership in the **active** stage's list
(whose tree's root is stored at the active index), or a collision — membership in another stage's list does not help. -/
theorem C14_tiered_sound (H : Bytes → Bytes) (Hlen : ∀ x, (H x).length = 16) (s : Tiered) (now i : Nat)
    (members : List Bytes) (r : Bytes)
    (hi : activeIdx now s.stages = some i) (hroot : s.roots[i]? = some (hexEncode r))
    (hr : layeredRoot H members = some r)
    (hleaf : ∀ x ∈ members, x.length ≠ 32) (m : Bytes) (hm : m.length ≠ 32) (proof : List (List Nat))
    (h : s.hasMember H now m proof = some true) : m ∈ members ∨ Collision H := by
  rw [C14_tiered_active_root H s now i _ m proof hi hroot] at h
  exact C14_sound_layered H 16 Hlen members r hr hleaf m hm proof h

/-! ## the sender is bound into the leaf -/

/-- **Clause "minters bind the sender (and stage/allocation) into the leaf"** — the leaf string
`stage‖sender‖allocation` (absent parts omitted, numbers in decimal) determines all three components, **provided** the
two senders have the same length and start with a non-digit character (true of every bech32 address `stars1…`, all of
one chain-wide length per account type). -/
theorem C14_sender_bound (stage stage' alloc alloc' : Option Nat) (sender sender' : Bytes)
    (hlen : sender.length = sender'.length)
    (hs : ∃ c r, sender = c :: r ∧ ¬ isDigit c) (hs' : ∃ c r, sender' = c :: r ∧ ¬ isDigit c)
    (h : leafStr stage sender alloc = leafStr stage' sender' alloc') :
    stage = stage' ∧ sender = sender' ∧ alloc = alloc' := by
  unfold leafStr at h
  rw [List.append_assoc, List.append_assoc] at h
  have hx : ∃ c r, sender ++ optDec alloc = c :: r ∧ ¬ isDigit c := by
    obtain ⟨c, r, rfl, hc⟩ := hs; exact ⟨c, r ++ optDec alloc, rfl, hc⟩
  have hx' : ∃ c r, sender' ++ optDec alloc' = c :: r ∧ ¬ isDigit c := by
    obtain ⟨c, r, rfl, hc⟩ := hs'; exact ⟨c, r ++ optDec alloc', rfl, hc⟩
  obtain ⟨h1, h2⟩ := digit_prefix_unique _ _ _ _ (optDec_digits stage) (optDec_digits stage') hx hx' h
  obtain ⟨h3, h4⟩ := List.append_inj h2 hlen
  exact ⟨optDec_inj _ _ h1, h3, optDec_inj _ _ h4⟩

/-- the hypothesis is needed: with a sender that starts with a digit two different (stage, sender, allocation)
triples of equal sender length share a leaf string -/
theorem C14_sender_bound_needs_hypothesis :
    leafStr (some 1) [50, 97, 98] (some 3) = leafStr (some 12) [97, 98, 51] none := by
  simp [leafStr, optDec, decBytes]

/-- a successful whitelist mint means the minter-built leaf for **this transaction's sender** passed the membership
query (there is no other way through the gate) -/
theorem mint_ok_hasMember (H : Bytes → Bytes) (now : Nat) (w w' : World) (sender : Bytes) (stage alloc : Option Nat)
    (proof : Option (List (List Nat))) (h : mint H now w sender stage alloc proof = some w') :
    ∃ pf, proof = some pf ∧ w.wl.hasMember H now (leafStr stage sender alloc) pf = some true := by
  unfold mint at h
  repeat' split at h
  all_goals simp_all

/-- **Clause "a proof issued for one address is useless to another"** — plain whitelist. The list was built from
entries `(stage, address, allocation)`; all addresses (the listed ones and the caller's) have one length and start with
a non-digit; no leaf is 64 bytes long. If a mint by `sender` passes the whitelist gate — with *any* proof, in
particular one issued to somebody else — then the caller's own `(stage, sender, allocation)` is a listed entry, or a
SHA-256-style collision is exhibited. -/
theorem C14_mint_sender_bound_plain (H : Bytes → Bytes) (Hlen : ∀ x, (H x).length = 32) (now : Nat) (w w' : World)
    (s : Plain) (hw : w.wl = .plain s)
    (entries : List (Option Nat × Bytes × Option Nat)) (L : Nat) (r : Bytes)
    (hr : layeredRoot H (entries.map fun e => leafStr e.1 e.2.1 e.2.2) = some r) (hroot : s.root = hexEncode r)
    (hent : ∀ e ∈ entries, e.2.1.length = L ∧ (∃ c r, e.2.1 = c :: r ∧ ¬ isDigit c) ∧
      (leafStr e.1 e.2.1 e.2.2).length ≠ 64)
    (sender : Bytes) (stage alloc : Option Nat) (proof : Option (List (List Nat)))
    (hsl : sender.length = L) (hsd : ∃ c r, sender = c :: r ∧ ¬ isDigit c)
    (hll : (leafStr stage sender alloc).length ≠ 64)
    (h : mint H now w sender stage alloc proof = some w') :
    (stage, sender, alloc) ∈ entries ∨ Collision H := by
  obtain ⟨pf, _, hm⟩ := mint_ok_hasMember H now w w' sender stage alloc proof h
  simp only [Wl.hasMember, hw, Plain.hasMember, hroot] at hm
  have := C14_sound_layered H 32 Hlen _ r hr
    (by intro x hx; simp only [List.mem_map] at hx; obtain ⟨e, he, rfl⟩ := hx; exact (hent e he).2.2)
    _ hll pf hm
  rcases this with hmem | hc
  · left
    simp only [List.mem_map] at hmem
    obtain ⟨e, he, heq⟩ := hmem
    obtain ⟨h1, h2, h3⟩ := C14_sender_bound e.1 stage e.2.2 alloc e.2.1 sender
      (by rw [(hent e he).1, hsl]) (hent e he).2.1 hsd heq
    have : e = (stage, sender, alloc) := by
      obtain ⟨a, b, c⟩ := e; simp_all
    rw [← this]; exact he
  · right; exact hc

/-- … and this holds in every state reachable from instantiation by any history (the root is still the committed one). -/
theorem C14_mint_sender_bound_history (H : Bytes → Bytes) (Hlen : ∀ x, (H x).length = 32) (w0 : World) (s0 : Plain)
    (hw0 : w0.wl = .plain s0) (ops : List (Nat × Op)) (now : Nat) (w' : World)
    (entries : List (Option Nat × Bytes × Option Nat)) (L : Nat) (r : Bytes)
    (hr : layeredRoot H (entries.map fun e => leafStr e.1 e.2.1 e.2.2) = some r) (hroot : s0.root = hexEncode r)
    (hent : ∀ e ∈ entries, e.2.1.length = L ∧ (∃ c r, e.2.1 = c :: r ∧ ¬ isDigit c) ∧
      (leafStr e.1 e.2.1 e.2.2).length ≠ 64)
    (sender : Bytes) (stage alloc : Option Nat) (proof : Option (List (List Nat)))
    (hsl : sender.length = L) (hsd : ∃ c r, sender = c :: r ∧ ¬ isDigit c)
    (hll : (leafStr stage sender alloc).length ≠ 64)
    (h : mint H now (run H w0 ops) sender stage alloc proof = some w') :
    (stage, sender, alloc) ∈ entries ∨ Collision H := by
  obtain ⟨s', h1, h2⟩ := run_plain H w0 ops s0 hw0
  exact C14_mint_sender_bound_plain H Hlen now (run H w0 ops) w' s' h1 entries L r hr (by rw [h2, hroot]) hent
    sender stage alloc proof hsl hsd hll h

/-- the same through the tiered whitelist: the entry must be in the list of the stage that is active **now** -/
theorem C14_mint_sender_bound_tiered (H : Bytes → Bytes) (Hlen : ∀ x, (H x).length = 16) (now i : Nat) (w w' : World)
    (s : Tiered) (hw : w.wl = .tiered s)
    (entries : List (Option Nat × Bytes × Option Nat)) (L : Nat) (r : Bytes)
    (hi : activeIdx now s.stages = some i) (hroot : s.roots[i]? = some (hexEncode r))
    (hr : layeredRoot H (entries.map fun e => leafStr e.1 e.2.1 e.2.2) = some r)
    (hent : ∀ e ∈ entries, e.2.1.length = L ∧ (∃ c r, e.2.1 = c :: r ∧ ¬ isDigit c) ∧
      (leafStr e.1 e.2.1 e.2.2).length ≠ 32)
    (sender : Bytes) (stage alloc : Option Nat) (proof : Option (List (List Nat)))
    (hsl : sender.length = L) (hsd : ∃ c r, sender = c :: r ∧ ¬ isDigit c)
    (hll : (leafStr stage sender alloc).length ≠ 32)
    (h : mint H now w sender stage alloc proof = some w') :
    (stage, sender, alloc) ∈ entries ∨ Collision H := by
  obtain ⟨pf, _, hm⟩ := mint_ok_hasMember H now w w' sender stage alloc proof h
  simp only [Wl.hasMember, hw] at hm
  have := C14_tiered_sound H Hlen s now i _ r hi hroot hr
    (by intro x hx; simp only [List.mem_map] at hx; obtain ⟨e, he, rfl⟩ := hx; exact (hent e he).2.2)
    _ hll pf hm
  rcases this with hmem | hc
  · left
    simp only [List.mem_map] at hmem
    obtain ⟨e, he, heq⟩ := hmem
    obtain ⟨h1, h2, h3⟩ := C14_sender_bound e.1 stage e.2.2 alloc e.2.1 sender
      (by rw [(hent e he).1, hsl]) (hent e he).2.1 hsd heq
    have : e = (stage, sender, alloc) := by
      obtain ⟨a, b, c⟩ := e; simp_all
    rw [← this]; exact he
  · right; exact hc

/-! ## non-vacuity -/

/-- a toy hash with 1-byte digests to exhibit concrete instances of the hypotheses -/
def toyH (x : Bytes) : Bytes := [(x.foldl (fun a b => (a * 31 + b + 7) % 256) x.length) % 256]

example : HashOk toyH 1 := ⟨fun _ => rfl, by intro x b hb; simp [toyH] at hb; omega⟩

/-- three members (odd size): the layered root exists, and member 2 (the promoted node) verifies with a 1-element proof -/
example : ∃ r, layeredRoot toyH [[1], [2], [3]] = some r ∧
    hasMember toyH 1 (hexEncode r) [3] ((proofAt (treeLayers toyH ([[1], [2], [3]].map toyH)) 2).map hexEncode) = some true := by
  refine ⟨_, rfl, ?_⟩
  decide

/-- hypotheses of `C14_sender_bound` are satisfiable with distinct data, e.g. "1abc5" vs "1abc" -/
example : leafStr (some 1) [97, 98, 99] (some 5) ≠ leafStr (some 1) [97, 98, 99] none := by
  simp [leafStr, optDec, decBytes]

/-- the tiered query really errors between two stages and answers inside one -/
example : activeIdx 15 [⟨1, 10, 1, 0⟩, ⟨20, 30, 1, 0⟩] = none := by decide
example : activeIdx 10 [⟨1, 10, 1, 0⟩, ⟨10, 30, 1, 0⟩] = some 0 := by decide

end LP
