import LaunchpadModel.Model.Merkle
import LaunchpadModel.Model.MerkleWl
import LaunchpadModel.Model.Sha256
import LaunchpadModel.Model.Blake3
import LaunchpadModel.Lemmas.Merkle
/-!
# C14 — Merkle whitelist membership is complete and sound

> For any member list, every listed entry is accepted with its Merkle proof against the stored root, and no string
> outside the list is accepted with any proof (another member's, truncated, extended, reordered or bit-flipped), up to
> hash collisions. Malformed hashes produce an error and never a positive answer, the root cannot be changed by any
> call, and the tiered variant checks against the root of the currently active stage only. Because minters bind the
> sender (and stage/allocation) into the leaf, a proof issued for one address is useless to another.

All theorems are over an **arbitrary** hash `H : Bytes → Bytes`; "up to hash collisions" is the explicit disjunct
`Collision H := ∃ x ≠ y, H x = H y` (the theorem *returns* the collision). The two facts about the hash that are needed
(`Hlen`: fixed digest length `n`; `Hbyte`: digest bytes < 256, needed only for hex round-trips) are proved for the two
executable instances (`Sha256.sha256`, `Blake3.blake3_16`) that the driver runs against the real contracts.
-/
namespace LP
open LP.Merkle LP.MerkleWl

/-! ## hypotheses on the hash and their instances -/

/-- digests have length `n` and consist of bytes -/
structure HashOk (H : Bytes → Bytes) (n : Nat) : Prop where
  len : ∀ x, (H x).length = n
  byte : ∀ x, ∀ b ∈ H x, b < 256

theorem sha256_ok : HashOk Sha256.sha256 32 where
  len := Sha256.sha256_length
  byte := by
    intro x b hb
    simp only [Sha256.sha256, Sha256.St.toBytes, Sha256.be, List.mem_append, List.mem_cons, List.not_mem_nil,
      or_false] at hb
    omega

theorem blake3_16_ok : HashOk Blake3.blake3_16 16 where
  len := Blake3.blake3_16_length
  byte := by
    intro x b hb
    simp only [Blake3.blake3_16, Blake3.blake3, Blake3.CV.toBytes, Blake3.le, List.cons_append, List.nil_append,
      List.mem_cons, List.not_mem_nil, or_false] at hb
    omega

/-! ## small bridges between the contract function and the fold -/

theorem hasMember_eq_some (H : Bytes → Bytes) (n : Nat) (rootStr : List Nat) (m : Bytes) (proof : List (List Nat))
    (b : Bool) :
    hasMember H n rootStr m proof = some b ↔
      ∃ ps, proof.mapM (decodeN n) = some ps ∧ b = (rootStr == hexEncode (foldProof H (H m) ps)) := by
  unfold hasMember
  cases h : proof.mapM (decodeN n) with
  | none => simp
  | some ps => simp [eq_comm]

theorem all_layers (P : Bytes → Prop) (H : Bytes → Bytes) (hH : ∀ x, P (H x)) (k : Nat) (l : List Bytes)
    (hl : ∀ x ∈ l, P x) : ∀ layer ∈ layersFrom H k l, ∀ x ∈ layer, P x := by
  have hp : ∀ l : List Bytes, (∀ x ∈ l, P x) → ∀ x ∈ pairUp H l, P x := by
    intro l
    fun_induction pairUp H l with
    | case1 a b rest ih =>
      intro hl x hx
      simp only [List.mem_cons] at hx
      rcases hx with rfl | hx
      · exact hH _
      · exact ih (fun y hy => hl y (by simp [hy])) x hx
    | case2 a => intro hl; exact hl
    | case3 => intro hl; exact hl
  induction k generalizing l with
  | zero => intro layer hl'; simp [layersFrom] at hl'; subst hl'; exact hl
  | succ k ih =>
    intro layer hl'
    simp only [layersFrom, List.mem_cons] at hl'
    rcases hl' with rfl | hl'
    · exact hl
    · exact ih (pairUp H l) (hp l hl) layer hl'

theorem sib_mem (l : List Bytes) (i : Nat) (x : Bytes) (h : sib l i = some x) : x ∈ l := by
  unfold sib at h; split at h <;> exact List.mem_of_getElem? h

theorem proofAt_mem (layers : List (List Bytes)) (i : Nat) :
    ∀ x ∈ proofAt layers i, ∃ layer ∈ layers, x ∈ layer := by
  induction layers generalizing i with
  | nil => simp [proofAt]
  | cons l rest ih =>
    intro x hx
    simp only [proofAt, List.mem_append, Option.mem_toList] at hx
    rcases hx with hx | hx
    · exact ⟨l, by simp, sib_mem l i x hx⟩
    · obtain ⟨layer, h1, h2⟩ := ih (i / 2) x hx
      exact ⟨layer, by simp [h1], h2⟩

/-! ## completeness -/

/-- **Clause "every listed entry is accepted with its Merkle proof against the stored root"** — for every tree over
the member list (any shape, any size, duplicates allowed), every path to a leaf yields a proof whose sorted-pair fold
from `H member` is the root. -/
theorem C14_complete (H : Bytes → Bytes) (t : Tree) (ds : List Dir) (m : Bytes) (p : List Bytes)
    (h : t.proofOf H ds = some (m, p)) : foldProof H (H m) p = t.root H :=
  complete H t ds m p h

/-- … and every listed entry has such a path/proof. -/
theorem C14_complete_every_member (H : Bytes → Bytes) (t : Tree) (m : Bytes) (hm : m ∈ t.leaves) :
    ∃ ds p, t.proofOf H ds = some (m, p) ∧ foldProof H (H m) p = t.root H := by
  obtain ⟨ds, p, h⟩ := mem_proofOf H t m hm
  exact ⟨ds, p, h, complete H t ds m p h⟩

/-- The same at the contract's interface (`query_has_member` with hex strings): if the stored root string is the
lower-case hex of the tree root, every listed entry with its hex-encoded proof is answered `has_member: true`.
SCOPE: the hypothesis "stored root = `hexEncode r`" means the root was committed in LOWER-CASE hex (also in
`C14_layered_complete`, `C14_tiered_complete`). An upper-case root passes `verify_merkle_root` at instantiate, after which
no listed entry verifies (the contract compares with `hex::encode`'s lower case) — observation, docs/C14.md. -/
theorem C14_complete_query (H : Bytes → Bytes) (n : Nat) (hH : HashOk H n) (t : Tree) (ds : List Dir) (m : Bytes)
    (p : List Bytes) (h : t.proofOf H ds = some (m, p)) :
    hasMember H n (hexEncode (t.root H)) m (p.map hexEncode) = some true := by
  have hall : ∀ q ∈ p, q.length = n ∧ ∀ x ∈ q, x < 256 := by
    -- every proof element is the root of a subtree, i.e. a value of `H`
    have : ∀ (t : Tree) ds m p, t.proofOf H ds = some (m, p) → ∀ q ∈ p, ∃ s : Tree, q = s.root H := by
      intro t
      induction t with
      | leaf m' =>
        intro ds m p h
        cases ds <;> simp [Tree.proofOf] at h
        obtain ⟨_, rfl⟩ := h; simp
      | node l r ihl ihr =>
        intro ds m p h
        cases ds with
        | nil => simp [Tree.proofOf] at h
        | cons d ds =>
          cases d with
          | L =>
            simp only [Tree.proofOf, Option.map_eq_some_iff] at h
            obtain ⟨⟨m', p'⟩, hp, heq⟩ := h
            simp at heq; obtain ⟨rfl, rfl⟩ := heq
            intro q hq
            simp only [List.mem_append, List.mem_singleton] at hq
            rcases hq with hq | rfl
            · exact ihl ds m' p' hp q hq
            · exact ⟨r, rfl⟩
          | R =>
            simp only [Tree.proofOf, Option.map_eq_some_iff] at h
            obtain ⟨⟨m', p'⟩, hp, heq⟩ := h
            simp at heq; obtain ⟨rfl, rfl⟩ := heq
            intro q hq
            simp only [List.mem_append, List.mem_singleton] at hq
            rcases hq with hq | rfl
            · exact ihr ds m' p' hp q hq
            · exact ⟨l, rfl⟩
    intro q hq
    obtain ⟨s, rfl⟩ := this t ds m p h q hq
    cases s <;> exact ⟨hH.len _, hH.byte _⟩
  rw [hasMember_eq_some]
  refine ⟨p, mapM_decodeN_hexEncode n p (fun q hq => (hall q hq).1) (fun q hq => (hall q hq).2), ?_⟩
  rw [complete H t ds m p h]; simp

/-- **The trees the roots and proofs actually come from** (`rs_merkle` layered builder with the repo's sorting hasher:
pairs hashed in sorted order, an odd last node promoted, bit-length-many iterations): for every non-empty member list
there is a `Tree` with exactly these leaves whose root is the layered root … -/
theorem C14_layered (H : Bytes → Bytes) (members : List Bytes) (hne : members ≠ []) :
    ∃ t : Tree, toTree members = some t ∧ t.leaves = members ∧ layeredRoot H members = some (t.root H) := by
  have hlen : 1 ≤ (members.map Tree.leaf).length := by
    cases members with
    | nil => exact absurd rfl hne
    | cons a l => simp
  have hh : halves (bitLen members.length) (members.map Tree.leaf).length = 1 := by
    have := halves_bitLen (members.map Tree.leaf).length hlen
    simpa using this
  obtain ⟨t, h1, h2, h3⟩ := treeFrom_spec H (bitLen members.length) (members.map Tree.leaf) hh
  refine ⟨t, h1, ?_, ?_⟩
  · rw [h2]; simp [List.flatMap_map, Tree.leaves, List.flatMap_singleton']
  · rw [layeredRoot_eq]
    have : (members.map Tree.leaf).map (Tree.root H) = members.map H := by simp [Tree.root]
    rw [← this]; exact h3

/-- … and the layered proof of the `i`-th member (`MerkleTree::proof(&[i])`: the sibling in every layer where there is
one) is accepted by the contract against that root — all sizes, odd sizes and duplicates included. -/
theorem C14_layered_complete (H : Bytes → Bytes) (n : Nat) (hH : HashOk H n) (members : List Bytes) (i : Nat)
    (m r : Bytes) (hm : members[i]? = some m) (hr : layeredRoot H members = some r) :
    hasMember H n (hexEncode r) m ((proofAt (treeLayers H (members.map H)) i).map hexEncode) = some true := by
  have hi : i < members.length := by
    rcases Nat.lt_or_ge i members.length with h | h
    · exact h
    · simp [List.getElem?_eq_none h] at hm
  have hx : (members.map H)[i]? = some (H m) := by simp [hm]
  have hh : halves (bitLen members.length) (members.map H).length = 1 := by
    simpa using halves_bitLen members.length (by omega)
  have hc := layers_complete H (bitLen members.length) (members.map H) i (H m) hx hh
  rw [layeredRoot_eq, hc] at hr
  have hr' : r = foldProof H (H m) (proofAt (treeLayers H (members.map H)) i) := by
    simp [treeLayers] at hr ⊢; exact hr.symm
  have hall : ∀ q ∈ proofAt (treeLayers H (members.map H)) i, q.length = n ∧ ∀ x ∈ q, x < 256 := by
    intro q hq
    obtain ⟨layer, h1, h2⟩ := proofAt_mem _ i q hq
    exact all_layers (fun q => q.length = n ∧ ∀ x ∈ q, x < 256) H (fun x => ⟨hH.len x, hH.byte x⟩) _ _
      (by intro x hx; simp only [List.mem_map] at hx; obtain ⟨y, _, rfl⟩ := hx; exact ⟨hH.len y, hH.byte y⟩)
      layer h1 q h2
  rw [hasMember_eq_some]
  refine ⟨_, mapM_decodeN_hexEncode n _ (fun q hq => (hall q hq).1) (fun q hq => (hall q hq).2), ?_⟩
  rw [← hr']; simp

/-! ## soundness

`Collision H := ∃ x ≠ y, H x = H y` ranges over ALL byte strings; for a concrete hash with fixed digest size it is provable
by pigeonhole, so "… ∨ Collision sha256" would say nothing. Every soundness statement below therefore names WHERE the
collision is: `CollisionIn H S` with `S` = the node preimages of the committed tree ++ the strings this very query
hashed (`queryPreimages`: the member string and every `sortPair acc p` of the fold). -/

/-- a toy hash with 1-byte digests to exhibit concrete instances (non-vacuity, counter-examples) -/
def toyH (x : Bytes) : Bytes := [(x.foldl (fun a b => (a * 31 + b + 7) % 256) x.length) % 256]

theorem toyH_ok : HashOk toyH 1 := ⟨fun _ => rfl, by intro x b hb; simp [toyH] at hb; omega⟩

/-- **Clause "no string outside the list is accepted with any proof (another member's, truncated, extended, reordered
or bit-flipped), up to hash collisions"**.

FULL statement (what the English says), for a tree `t` over the member list and ANY list of proof strings:
  `hasMember H n (hex (root t)) m proof = some true  →  m ∈ t.leaves ∨ (a collision of H among the strings involved)`.
The unchanged code does NOT satisfy it: it hashes leaves and inner nodes the same way, so the `2n`-byte preimage of an
inner node is accepted although it is no listed entry and no collision is involved (`C14_sound_counterexample`,
`C14_sound_counterexample_no_collision`; replayed on the real contract: `corpus/C14/inner-preimage-accepted.json`), and
a listed entry that happens to be `2n` bytes long and of the form `sortPair (H x) p` lets `x` in
(`C14_sound_counterexample_listed2n`).

PROVED (`_partial`): `proof` is universally quantified — whatever strings are supplied, a `has_member: true` answer
for `m` means
1. `m` is a listed entry, or
2. two DIFFERENT strings among {node preimages of `t`} ∪ {`m`, the concatenations this fold hashed} collide under `H`, or
3. `m` is byte-for-byte the preimage of an inner node of `t` (one of the `|leaves|−1` strings `sortPair a b`, `2n` bytes), or
4. a LISTED entry is byte-for-byte one of the concatenations the fold hashed (a listed entry of `2n` bytes). -/
theorem C14_sound_partial (H : Bytes → Bytes) (n : Nat) (Hlen : ∀ x, (H x).length = n) (t : Tree) (m : Bytes)
    (proof : List (List Nat))
    (h : hasMember H n (hexEncode (t.root H)) m proof = some true) :
    ∃ ps, proof.mapM (decodeN n) = some ps ∧
      (m ∈ t.leaves
        ∨ CollisionIn H (t.preimages H ++ queryPreimages H m ps)
        ∨ m ∈ t.inner H
        ∨ ∃ x ∈ foldPreimages H (H m) ps, x ∈ t.leaves) := by
  rw [hasMember_eq_some] at h
  obtain ⟨ps, hps, heq⟩ := h
  have : hexEncode (t.root H) = hexEncode (foldProof H (H m) ps) := by simpa using heq.symm
  have hfold := (hexEncode_inj _ _ this).symm
  exact ⟨ps, hps, sound_explicit H n Hlen t m ps (mapM_decodeN_length n proof ps hps) hfold⟩

/-- Escape 3 is real, for EVERY hash with digests of `n ≥ 1` bytes: the preimage of the root of the two-entry list
`["", "\0"]` is answered `has_member: true` with the empty proof and is not a listed entry. -/
theorem C14_sound_counterexample (H : Bytes → Bytes) (n : Nat) (hn : 1 ≤ n) (Hlen : ∀ x, (H x).length = n) :
    hasMember H n (hexEncode ((Tree.node (.leaf []) (.leaf [0])).root H)) (sortPair (H []) (H [0])) [] = some true
    ∧ sortPair (H []) (H [0]) ∉ (Tree.node (.leaf []) (.leaf [0])).leaves := by
  refine ⟨by simp [hasMember, foldProof, Tree.root], ?_⟩
  have hl : (sortPair (H []) (H [0])).length = 2 * n := by rw [sortPair_length, Hlen, Hlen]; omega
  simp only [Tree.leaves, List.cons_append, List.nil_append, List.mem_cons, List.not_mem_nil, or_false, not_or]
  constructor
  · intro h; rw [h] at hl; simp at hl; omega
  · intro h; rw [h] at hl; simp at hl; omega

/-- … and no collision is involved: for the toy hash, none of the strings in play collide. -/
theorem C14_sound_counterexample_no_collision :
    ∃ (t : Tree) (m : Bytes),
      hasMember toyH 1 (hexEncode (t.root toyH)) m [] = some true ∧ m ∉ t.leaves
      ∧ ¬ CollisionIn toyH (t.preimages toyH ++ queryPreimages toyH m []) := by
  refine ⟨Tree.node (.leaf []) (.leaf [0]), sortPair (toyH []) (toyH [0]), by decide, by decide, ?_⟩
  unfold CollisionIn
  decide

/-- Escape 4 is real too: if the only listed entry is the `2n`-byte string `L = sortPair (H x) p`, then `x` (which is
not `L`) is accepted with the one-element proof `[p]`. -/
theorem C14_sound_counterexample_listed2n (H : Bytes → Bytes) (n : Nat) (hH : HashOk H n) (x p : Bytes)
    (hp : p.length = n) (hpb : ∀ b ∈ p, b < 256) (hx : x.length ≠ 2 * n) :
    hasMember H n (hexEncode ((Tree.leaf (sortPair (H x) p)).root H)) x [hexEncode p] = some true
    ∧ x ∉ (Tree.leaf (sortPair (H x) p)).leaves := by
  constructor
  · rw [hasMember_eq_some]
    refine ⟨[p], ?_, ?_⟩
    · simp [List.mapM_cons, decodeN_hexEncode n p hp hpb]
    · simp [foldProof, Tree.root]
  · simp only [Tree.leaves, List.mem_singleton]
    intro h
    have : x.length = 2 * n := by rw [h, sortPair_length, hH.len, hp]; omega
    exact hx this

/-- With the side conditions that exclude escapes 3 and 4 — no listed entry and not the queried string is exactly `2n`
bytes long (`2n` = 64 for SHA-256, 32 for BLAKE3/16) — only 1 and 2 remain.
NOTE on reachability: a bare Stargaze CONTRACT address (`stars1` + 58 characters: DAO, smart-contract wallet) is exactly
64 bytes, so a `(None, None)` leaf for it on the SHA-256 whitelist is outside these side conditions; for such lists use
`C14_sound_partial` / `C14_sound_any_query_no2n_partial`. On the BLAKE3/16 whitelist (`2n = 32`) every
`stage‖bech32‖allocation` leaf is ≥ 44 bytes, so the conditions always hold there.
PARTIAL (side conditions `hleaf`, `hm`): a restricted form of the soundness clause, which is recorded as KNOWN FINDING
`*/has_member/inner-preimage-accepted` (DESIGN 13.3) and is not provable literally. -/
theorem C14_sound_no2n_partial (H : Bytes → Bytes) (n : Nat) (Hlen : ∀ x, (H x).length = n) (t : Tree)
    (hleaf : ∀ x ∈ t.leaves, x.length ≠ 2 * n) (m : Bytes) (hm : m.length ≠ 2 * n)
    (proof : List (List Nat))
    (h : hasMember H n (hexEncode (t.root H)) m proof = some true) :
    ∃ ps, proof.mapM (decodeN n) = some ps ∧
      (m ∈ t.leaves ∨ CollisionIn H (t.preimages H ++ queryPreimages H m ps)) := by
  obtain ⟨ps, hps, h1 | h2 | h3 | ⟨x, hx, hl⟩⟩ := C14_sound_partial H n Hlen t m proof h
  · exact ⟨ps, hps, Or.inl h1⟩
  · exact ⟨ps, hps, Or.inr h2⟩
  · exact absurd (inner_length H n Hlen t m h3) hm
  · exact absurd (foldPreimages_length H n Hlen ps (mapM_decodeN_length n proof ps hps) (H m) (Hlen m) x hx) (hleaf x hl)

/-- alias of `C14_sound_no2n_partial` (kept because other modules refer to it) -/
theorem C14_sound (H : Bytes → Bytes) (n : Nat) (Hlen : ∀ x, (H x).length = n) (t : Tree)
    (hleaf : ∀ x ∈ t.leaves, x.length ≠ 2 * n) (m : Bytes) (hm : m.length ≠ 2 * n)
    (proof : List (List Nat))
    (h : hasMember H n (hexEncode (t.root H)) m proof = some true) :
    ∃ ps, proof.mapM (decodeN n) = some ps ∧
      (m ∈ t.leaves ∨ CollisionIn H (t.preimages H ++ queryPreimages H m ps)) :=
  C14_sound_no2n_partial H n Hlen t hleaf m hm proof h

/-- Only the LIST is constrained (no listed entry of `2n` bytes — something whoever builds the tree can check); the
queried string is arbitrary, 64-character outsiders included. Then a positive answer means: listed, or a located
collision, or the queried string is one of the `|leaves|−1` inner-node preimages of the tree.
PARTIAL (side condition `hleaf` + the extra inner-node disjunct): restricted form of the soundness clause (KNOWN FINDING
`*/has_member/inner-preimage-accepted`, DESIGN 13.3). -/
theorem C14_sound_any_query_no2n_partial (H : Bytes → Bytes) (n : Nat) (Hlen : ∀ x, (H x).length = n) (t : Tree)
    (hleaf : ∀ x ∈ t.leaves, x.length ≠ 2 * n) (m : Bytes) (proof : List (List Nat))
    (h : hasMember H n (hexEncode (t.root H)) m proof = some true) :
    ∃ ps, proof.mapM (decodeN n) = some ps ∧
      (m ∈ t.leaves ∨ CollisionIn H (t.preimages H ++ queryPreimages H m ps) ∨ m ∈ t.inner H) := by
  obtain ⟨ps, hps, h1 | h2 | h3 | ⟨x, hx, hl⟩⟩ := C14_sound_partial H n Hlen t m proof h
  · exact ⟨ps, hps, Or.inl h1⟩
  · exact ⟨ps, hps, Or.inr (Or.inl h2)⟩
  · exact ⟨ps, hps, Or.inr (Or.inr h3)⟩
  · exact absurd (foldPreimages_length H n Hlen ps (mapM_decodeN_length n proof ps hps) (H m) (Hlen m) x hx) (hleaf x hl)

/-- alias of `C14_sound_any_query_no2n_partial` (kept because other modules refer to it) -/
theorem C14_sound_any_query (H : Bytes → Bytes) (n : Nat) (Hlen : ∀ x, (H x).length = n) (t : Tree)
    (hleaf : ∀ x ∈ t.leaves, x.length ≠ 2 * n) (m : Bytes) (proof : List (List Nat))
    (h : hasMember H n (hexEncode (t.root H)) m proof = some true) :
    ∃ ps, proof.mapM (decodeN n) = some ps ∧
      (m ∈ t.leaves ∨ CollisionIn H (t.preimages H ++ queryPreimages H m ps) ∨ m ∈ t.inner H) :=
  C14_sound_any_query_no2n_partial H n Hlen t hleaf m proof h

/-- "the hash was broken on the inputs of THIS query": a collision among the node preimages of the tree the layered
(`rs_merkle`) builder makes of `members` and the strings `query_has_member` hashes for `(m, proof)` -/
def QueryCollision (H : Bytes → Bytes) (n : Nat) (members : List Bytes) (m : Bytes) (proof : List (List Nat)) : Prop :=
  ∃ t ps, toTree members = some t ∧ proof.mapM (decodeN n) = some ps
    ∧ CollisionIn H (t.preimages H ++ queryPreimages H m ps)

theorem QueryCollision.collision {H : Bytes → Bytes} {n : Nat} {members : List Bytes} {m : Bytes}
    {proof : List (List Nat)} (h : QueryCollision H n members m proof) : Collision H := by
  obtain ⟨_, _, _, _, hc⟩ := h
  exact hc.collision

theorem layeredRoot_ne_nil (H : Bytes → Bytes) (members : List Bytes) (r : Bytes)
    (hr : layeredRoot H members = some r) : members ≠ [] := by
  intro h0; subst h0
  simp [layeredRoot, treeLayers, bitLen, layersFrom, layersRoot] at hr

/-- Soundness against the root the layered (`rs_merkle`) builder computes for a member list.
PARTIAL (side conditions `hleaf`, `hm`: no listed entry and not the queried string is exactly `2n` bytes long) — restricted
form of the soundness clause (KNOWN FINDING `*/has_member/inner-preimage-accepted`, DESIGN 13.3). -/
theorem C14_sound_layered_no2n_partial (H : Bytes → Bytes) (n : Nat) (Hlen : ∀ x, (H x).length = n) (members : List Bytes)
    (r : Bytes) (hr : layeredRoot H members = some r)
    (hleaf : ∀ x ∈ members, x.length ≠ 2 * n) (m : Bytes) (hm : m.length ≠ 2 * n)
    (proof : List (List Nat)) (h : hasMember H n (hexEncode r) m proof = some true) :
    m ∈ members ∨ QueryCollision H n members m proof := by
  obtain ⟨t, h1, h2, h3⟩ := C14_layered H members (layeredRoot_ne_nil H members r hr)
  rw [hr] at h3
  have hrt : r = t.root H := by simpa using h3
  subst hrt
  obtain ⟨ps, hps, hl | hc⟩ := C14_sound_no2n_partial H n Hlen t (by rw [h2]; exact hleaf) m hm proof h
  · left; rwa [h2] at hl
  · right; exact ⟨t, ps, h1, hps, hc⟩

/-- alias of `C14_sound_layered_no2n_partial` (kept because other modules refer to it) -/
theorem C14_sound_layered (H : Bytes → Bytes) (n : Nat) (Hlen : ∀ x, (H x).length = n) (members : List Bytes)
    (r : Bytes) (hr : layeredRoot H members = some r)
    (hleaf : ∀ x ∈ members, x.length ≠ 2 * n) (m : Bytes) (hm : m.length ≠ 2 * n)
    (proof : List (List Nat)) (h : hasMember H n (hexEncode r) m proof = some true) :
    m ∈ members ∨ QueryCollision H n members m proof :=
  C14_sound_layered_no2n_partial H n Hlen members r hr hleaf m hm proof h

/-- the same with an arbitrary queried string (only the list is free of `2n`-byte entries): the third possibility is
that the queried string is an inner-node preimage of the layered tree.
PARTIAL (side condition `hleaf` + the extra inner-node disjunct; KNOWN FINDING, DESIGN 13.3). -/
theorem C14_sound_layered_any_query_no2n_partial (H : Bytes → Bytes) (n : Nat) (Hlen : ∀ x, (H x).length = n)
    (members : List Bytes) (r : Bytes) (hr : layeredRoot H members = some r)
    (hleaf : ∀ x ∈ members, x.length ≠ 2 * n) (m : Bytes)
    (proof : List (List Nat)) (h : hasMember H n (hexEncode r) m proof = some true) :
    m ∈ members ∨ QueryCollision H n members m proof ∨ ∃ t, toTree members = some t ∧ m ∈ t.inner H := by
  obtain ⟨t, h1, h2, h3⟩ := C14_layered H members (layeredRoot_ne_nil H members r hr)
  rw [hr] at h3
  have hrt : r = t.root H := by simpa using h3
  subst hrt
  obtain ⟨ps, hps, hl | hc | hi⟩ := C14_sound_any_query_no2n_partial H n Hlen t (by rw [h2]; exact hleaf) m proof h
  · left; rwa [h2] at hl
  · right; left; exact ⟨t, ps, h1, hps, hc⟩
  · right; right; exact ⟨t, h1, hi⟩

/-- alias of `C14_sound_layered_any_query_no2n_partial` (kept because other modules refer to it) -/
theorem C14_sound_layered_any_query (H : Bytes → Bytes) (n : Nat) (Hlen : ∀ x, (H x).length = n)
    (members : List Bytes) (r : Bytes) (hr : layeredRoot H members = some r)
    (hleaf : ∀ x ∈ members, x.length ≠ 2 * n) (m : Bytes)
    (proof : List (List Nat)) (h : hasMember H n (hexEncode r) m proof = some true) :
    m ∈ members ∨ QueryCollision H n members m proof ∨ ∃ t, toTree members = some t ∧ m ∈ t.inner H :=
  C14_sound_layered_any_query_no2n_partial H n Hlen members r hr hleaf m proof h

/-- the two deployed instances, with no hypothesis left on the hash; the collision disjunct is LOCATED (a pair among
the strings of this tree and this query), so the statement is not a pigeonhole triviality.
PARTIAL (side conditions `hleaf`, `hm`: no listed entry / queried string of exactly 64 resp. 32 bytes — on SHA-256 this
excludes a bare 64-character contract address; KNOWN FINDING `*/has_member/inner-preimage-accepted`, DESIGN 13.3). -/
theorem C14_sound_sha256_no2n_partial (members : List Bytes) (r : Bytes) (hr : layeredRoot Sha256.sha256 members = some r)
    (hleaf : ∀ x ∈ members, x.length ≠ 64) (m : Bytes) (hm : m.length ≠ 64) (proof : List (List Nat))
    (h : hasMember Sha256.sha256 32 (hexEncode r) m proof = some true) :
    m ∈ members ∨ QueryCollision Sha256.sha256 32 members m proof :=
  C14_sound_layered_no2n_partial _ 32 sha256_ok.len members r hr hleaf m hm proof h

/-- alias of `C14_sound_sha256_no2n_partial` (kept because other modules refer to it) -/
theorem C14_sound_sha256 (members : List Bytes) (r : Bytes) (hr : layeredRoot Sha256.sha256 members = some r)
    (hleaf : ∀ x ∈ members, x.length ≠ 64) (m : Bytes) (hm : m.length ≠ 64) (proof : List (List Nat))
    (h : hasMember Sha256.sha256 32 (hexEncode r) m proof = some true) :
    m ∈ members ∨ QueryCollision Sha256.sha256 32 members m proof :=
  C14_sound_sha256_no2n_partial members r hr hleaf m hm proof h

/-- the BLAKE3/16 instance; PARTIAL (side conditions `hleaf`, `hm`), see `C14_sound_sha256_no2n_partial` -/
theorem C14_sound_blake3_no2n_partial (members : List Bytes) (r : Bytes) (hr : layeredRoot Blake3.blake3_16 members = some r)
    (hleaf : ∀ x ∈ members, x.length ≠ 32) (m : Bytes) (hm : m.length ≠ 32) (proof : List (List Nat))
    (h : hasMember Blake3.blake3_16 16 (hexEncode r) m proof = some true) :
    m ∈ members ∨ QueryCollision Blake3.blake3_16 16 members m proof :=
  C14_sound_layered_no2n_partial _ 16 blake3_16_ok.len members r hr hleaf m hm proof h

/-- alias of `C14_sound_blake3_no2n_partial` (kept because other modules refer to it) -/
theorem C14_sound_blake3 (members : List Bytes) (r : Bytes) (hr : layeredRoot Blake3.blake3_16 members = some r)
    (hleaf : ∀ x ∈ members, x.length ≠ 32) (m : Bytes) (hm : m.length ≠ 32) (proof : List (List Nat))
    (h : hasMember Blake3.blake3_16 16 (hexEncode r) m proof = some true) :
    m ∈ members ∨ QueryCollision Blake3.blake3_16 16 members m proof :=
  C14_sound_blake3_no2n_partial members r hr hleaf m hm proof h

/-! ## malformed hashes -/

theorem decodeN_none_of_bad (n : Nat) (s : List Nat)
    (hbad : ¬ (s.length = 2 * n ∧ ∀ c ∈ s, (hexVal c).isSome)) : decodeN n s = none := by
  cases h : decodeN n s with
  | none => rfl
  | some p => exact absurd ((decodeN_isSome_iff n s).mp (by simp [h])) hbad

/-- **Clause "Malformed hashes produce an error and never a positive answer"** — if any proof element is not exactly
`2n` hex characters (wrong length — too short, too long, odd — or a non-hex character anywhere), the query errors,
whatever the other elements, the member and the stored root are. -/
theorem C14_malformed (H : Bytes → Bytes) (n : Nat) (rootStr : List Nat) (m : Bytes) (proof : List (List Nat))
    (s : List Nat) (hs : s ∈ proof) (hbad : ¬ (s.length = 2 * n ∧ ∀ c ∈ s, (hexVal c).isSome)) :
    hasMember H n rootStr m proof = none := by
  simp [hasMember, mapM_none_of_mem n proof s hs (decodeN_none_of_bad n s hbad)]

/-- in particular it is never answered positively (nor negatively) -/
theorem C14_malformed_never_true (H : Bytes → Bytes) (n : Nat) (rootStr : List Nat) (m : Bytes)
    (proof : List (List Nat)) (s : List Nat) (hs : s ∈ proof)
    (hbad : ¬ (s.length = 2 * n ∧ ∀ c ∈ s, (hexVal c).isSome)) (b : Bool) :
    hasMember H n rootStr m proof ≠ some b := by
  rw [C14_malformed H n rootStr m proof s hs hbad]; simp

/-- conversely, with only well-formed elements the query always answers (it never errors) -/
theorem C14_wellformed_answers (H : Bytes → Bytes) (n : Nat) (rootStr : List Nat) (m : Bytes)
    (proof : List (List Nat)) (hok : ∀ s ∈ proof, s.length = 2 * n ∧ ∀ c ∈ s, (hexVal c).isSome) :
    ∃ b, hasMember H n rootStr m proof = some b := by
  have : ∃ ps, proof.mapM (decodeN n) = some ps := by
    induction proof with
    | nil => exact ⟨[], rfl⟩
    | cons s ss ih =>
      obtain ⟨ps, hps⟩ := ih (fun x hx => hok x (by simp [hx]))
      obtain ⟨p, hp⟩ := Option.isSome_iff_exists.mp ((decodeN_isSome_iff n s).mpr (hok s (by simp)))
      exact ⟨p :: ps, by simp [List.mapM_cons, hp, hps]⟩
  obtain ⟨ps, hps⟩ := this
  exact ⟨rootStr == hexEncode (foldProof H (H m) ps), by simp [hasMember, hps]⟩

/-- a malformed root is rejected at instantiation (`verify_merkle_root`), in both contracts — in the aspect model
WHATEVER the implementation's verdict on the rest of the message (`res`) is … -/
theorem C14_malformed_root_plain (msg : PlainInit) (res : Bool)
    (hbad : ¬ (msg.root.length = 64 ∧ ∀ c ∈ msg.root, (hexVal c).isSome)) :
    instPlainW msg res = none := by
  have : validHash 32 msg.root = false := by
    simp [validHash, decodeN_none_of_bad 32 msg.root hbad]
  simp [instPlainW, this]

theorem C14_malformed_root_tiered (msg : TieredInit) (res : Bool) (r : List Nat)
    (hr : r ∈ msg.roots) (hbad : ¬ (r.length = 32 ∧ ∀ c ∈ r, (hexVal c).isSome)) :
    instTieredW msg res = none := by
  have h1 : validHash 16 r = false := by
    simp [validHash, decodeN_none_of_bad 16 r hbad]
  have : msg.roots.all (validHash 16) = false := by
    rw [List.all_eq_false]; exact ⟨r, hr, by simp [h1]⟩
  simp [instTieredW, this]

/-- … and in the prediction of today's full `instantiate` (the DRIFT column) -/
theorem C14_malformed_root_predicted (now : Nat) (funds : List Coin) :
    (∀ (msg : PlainInit), ¬ (msg.root.length = 64 ∧ ∀ c ∈ msg.root, (hexVal c).isSome) →
      instantiatePlain now funds msg = none)
    ∧ (∀ (msg : TieredInit) (r : List Nat), r ∈ msg.roots → ¬ (r.length = 32 ∧ ∀ c ∈ r, (hexVal c).isSome) →
      instantiateTiered now funds msg = none) := by
  constructor
  · intro msg hbad
    have : validHash 32 msg.root = false := by simp [validHash, decodeN_none_of_bad 32 msg.root hbad]
    simp [instantiatePlain, this]
  · intro msg r hr hbad
    have h1 : validHash 16 r = false := by simp [validHash, decodeN_none_of_bad 16 r hbad]
    have : msg.roots.all (validHash 16) = false := by
      rw [List.all_eq_false]; exact ⟨r, hr, by simp [h1]⟩
    simp [instantiateTiered, this]

/-- an accepted instantiation stores exactly the root(s) of the message, and they are well-formed -/
theorem C14_inst_stores_sent_roots :
    (∀ (msg : PlainInit) (res : Bool) (s : Plain), instPlainW msg res = some s →
      s.root = msg.root ∧ validHash 32 s.root = true)
    ∧ (∀ (msg : TieredInit) (res : Bool) (s : Tiered), instTieredW msg res = some s →
      s.roots = msg.roots ∧ s.roots.all (validHash 16) = true) := by
  constructor
  · intro msg res s h
    unfold instPlainW at h
    split at h
    · simp at h
    · next hv =>
      split at h
      · simp at h; subst h; exact ⟨rfl, by simpa using hv⟩
      · simp at h
  · intro msg res s h
    unfold instTieredW at h
    split at h
    · simp at h
    · next hv =>
      split at h
      · simp at h; subst h; exact ⟨rfl, by simpa using hv⟩
      · simp at h

/-! ## the root cannot be changed

HONESTY NOTE. `C14_root_immutable` is a statement about the MODEL: its step function follows the implementation's
verdict and resulting configuration for every message (`Op.wlMsg`: ANY accepted message, ANY resulting windows /
limits / admins) but has no way to write a root. That the real `execute` / `migrate` behave like this — in particular
that `execute_update_merkle_tree`, which exists in both sources, stays un-dispatched and that no new variant writes
`MERKLE_ROOT(S)` — is VALIDATED BY THE HARNESS, not proved: the stored roots are compared with the roots the harness
sent after every message; the `ExecuteMsg` surface is enumerated at run time and every variant without a protocol op,
and guessed exposures of `update_merkle_tree`, are sent with another valid root under that monitor.
The HISTORY-LEVEL theorems below and in the last section — `C14_plain_answers_stable`, `C14_tiered_answers_frame`,
`C14_mint_sender_bound_history`, `C14_mint_sender_bound_tiered_history`, `C14_minted_all_listed_plain/_tiered` — all rest on
`Op.wlMsg` being unable to write a root (`run_plain` / `run_tiered`): they INHERIT this model-level root immutability, which
is validated by the harness only. -/

theorem setCfg_roots (wl post : Wl) : (wl.setCfg post).roots = wl.roots := by
  cases wl <;> cases post <;> simp [Wl.setCfg, Wl.roots]

/-- what a successful mint does to the state -/
theorem mint_spec (H : Bytes → Bytes) (now : Nat) (w w' : World) (sender : Bytes) (stage alloc : Option Nat)
    (proof : Option (List (List Nat))) (res : Bool) (h : mint H now w sender stage alloc proof res = some w') :
    ∃ key pal, w.wl.active now = some (key, pal) ∧ gate H now w.wl sender stage alloc proof = true
      ∧ w' = { w with minted := ⟨sender, key, stage, alloc, now⟩ :: w.minted } := by
  unfold mint at h
  split at h
  · simp at h
  · next key pal hact =>
    split at h
    · simp at h
    · next hg =>
      split at h
      · simp at h; exact ⟨key, pal, hact, by simpa using hg, h.symm⟩
      · simp at h

theorem step_roots (H : Bytes → Bytes) (now : Nat) (w w' : World) (op : Op) (h : step H now w op = some w') :
    w'.wl.roots = w.wl.roots := by
  cases op with
  | wlMsg acc post =>
    simp only [step] at h
    split at h
    · simp at h; subst h; exact setCfg_roots _ _
    · simp at h
  | mint sender stage alloc proof res =>
    obtain ⟨_, _, _, _, rfl⟩ := mint_spec H now w w' sender stage alloc proof res h
    rfl

/-- **Clause "the root cannot be changed by any call"** (model level, see the honesty note) — for every history of
messages to the whitelist (any variant, known or unknown, any sender, any arguments, any verdict, any resulting
configuration) and of mints through a bound minter, at any block times, the stored root(s) are those written at
instantiation. -/
theorem C14_root_immutable (H : Bytes → Bytes) (w : World) (ops : List (Nat × Op)) :
    (run H w ops).wl.roots = w.wl.roots := by
  induction ops generalizing w with
  | nil => rfl
  | cons op ops ih =>
    simp only [run, List.foldl_cons] at ih ⊢
    rw [ih]
    unfold step'
    cases h : step H op.1 w op.2 with
    | none => rfl
    | some w' => exact step_roots H op.1 w w' op.2 h

/-- the PREDICTION of today's message handlers (the complete `ExecuteMsg` of both contracts, `migrate`, and "anything
else does not parse") writes no root either -/
theorem C14_predicted_exec_keeps_roots (now : Nat) (wl wl' : Wl) (o : WlOp) (h : predict now wl o = some wl') :
    wl'.roots = wl.roots := by
  cases o with
  | plain o =>
    cases wl with
    | tiered s => simp [predict] at h
    | plain s =>
      simp only [predict, Option.map_eq_some_iff] at h
      obtain ⟨s', hs, rfl⟩ := h
      have : s'.root = s.root := by
        cases o <;> simp only [Plain.exec] at hs <;> (repeat' split at hs) <;> simp_all <;> subst hs <;> rfl
      simp [Wl.roots, this]
  | tiered o =>
    cases wl with
    | plain s => simp [predict] at h
    | tiered s =>
      simp only [predict, Option.map_eq_some_iff] at h
      obtain ⟨s', hs, rfl⟩ := h
      have : s'.roots = s.roots := by
        cases o <;> simp only [Tiered.exec] at hs <;> (repeat' split at hs) <;> simp_all <;> subst hs <;> rfl
      simp [Wl.roots, this]

/-- a plain whitelist stays a plain whitelist with the same root -/
theorem step_plain (H : Bytes → Bytes) (now : Nat) (w w' : World) (op : Op) (s : Plain) (hw : w.wl = .plain s)
    (h : step H now w op = some w') : ∃ s', w'.wl = .plain s' ∧ s'.root = s.root := by
  cases op with
  | wlMsg acc post =>
    simp only [step] at h
    split at h
    · simp at h; subst h
      cases post with
      | plain p => exact ⟨{ p with root := s.root }, by simp [hw, Wl.setCfg], rfl⟩
      | tiered p => exact ⟨s, by simp [hw, Wl.setCfg], rfl⟩
    · simp at h
  | mint sender stage alloc proof res =>
    obtain ⟨_, _, _, _, rfl⟩ := mint_spec H now w w' sender stage alloc proof res h
    exact ⟨s, hw, rfl⟩

theorem step_tiered (H : Bytes → Bytes) (now : Nat) (w w' : World) (op : Op) (s : Tiered) (hw : w.wl = .tiered s)
    (h : step H now w op = some w') : ∃ s', w'.wl = .tiered s' ∧ s'.roots = s.roots := by
  cases op with
  | wlMsg acc post =>
    simp only [step] at h
    split at h
    · simp at h; subst h
      cases post with
      | plain p => exact ⟨s, by simp [hw, Wl.setCfg], rfl⟩
      | tiered p => exact ⟨{ p with roots := s.roots }, by simp [hw, Wl.setCfg], rfl⟩
    · simp at h
  | mint sender stage alloc proof res =>
    obtain ⟨_, _, _, _, rfl⟩ := mint_spec H now w w' sender stage alloc proof res h
    exact ⟨s, hw, rfl⟩

theorem run_plain (H : Bytes → Bytes) (w : World) (ops : List (Nat × Op)) (s : Plain) (hw : w.wl = .plain s) :
    ∃ s', (run H w ops).wl = .plain s' ∧ s'.root = s.root := by
  induction ops generalizing w s with
  | nil => exact ⟨s, hw, rfl⟩
  | cons op ops ih =>
    simp only [run, List.foldl_cons] at ih ⊢
    unfold step'
    cases h : step H op.1 w op.2 with
    | none => exact ih w s hw
    | some w' =>
      obtain ⟨s1, h1, h2⟩ := step_plain H op.1 w w' op.2 s hw h
      obtain ⟨s2, h3, h4⟩ := ih w' s1 h1
      exact ⟨s2, h3, by rw [h4, h2]⟩

theorem run_tiered (H : Bytes → Bytes) (w : World) (ops : List (Nat × Op)) (s : Tiered) (hw : w.wl = .tiered s) :
    ∃ s', (run H w ops).wl = .tiered s' ∧ s'.roots = s.roots := by
  induction ops generalizing w s with
  | nil => exact ⟨s, hw, rfl⟩
  | cons op ops ih =>
    simp only [run, List.foldl_cons] at ih ⊢
    unfold step'
    cases h : step H op.1 w op.2 with
    | none => exact ih w s hw
    | some w' =>
      obtain ⟨s1, h1, h2⟩ := step_tiered H op.1 w w' op.2 s hw h
      obtain ⟨s2, h3, h4⟩ := ih w' s1 h1
      exact ⟨s2, h3, by rw [h4, h2]⟩

/-- consequently the plain whitelist's answers never change: after any history, at any block time, `HasMember`
answers exactly what it answered right after instantiation (accepted entries stay accepted, nothing else ever becomes
accepted). -/
theorem C14_plain_answers_stable (H : Bytes → Bytes) (w : World) (s : Plain) (hw : w.wl = .plain s)
    (ops : List (Nat × Op)) (now now' : Nat) (m : Bytes) (proof : List (List Nat)) :
    (run H w ops).wl.hasMember H now m proof = w.wl.hasMember H now' m proof := by
  obtain ⟨s', h1, h2⟩ := run_plain H w ops s hw
  simp [Wl.hasMember, h1, hw, Plain.hasMember, h2]

/-- the tiered counterpart (frame theorem): after any history the answer at time `now` is a function of the roots
COMMITTED AT INSTANTIATION and the windows now in force only — which stage is active may have been moved by the
admins, what that stage's root is cannot have been. -/
theorem C14_tiered_answers_frame (H : Bytes → Bytes) (w : World) (s : Tiered) (hw : w.wl = .tiered s)
    (ops : List (Nat × Op)) :
    ∃ s', (run H w ops).wl = .tiered s' ∧ s'.roots = s.roots ∧
      ∀ now m proof, (run H w ops).wl.hasMember H now m proof =
        match activeIdx now s'.stages with
        | none => none
        | some i => match s.roots[i]? with
          | none => none
          | some r => hasMember H 16 r m proof := by
  obtain ⟨s', h1, h2⟩ := run_tiered H w ops s hw
  refine ⟨s', h1, h2, ?_⟩
  intro now m proof
  simp only [Wl.hasMember, h1, Tiered.hasMember, h2]
  cases activeIdx now s'.stages with
  | none => rfl
  | some i => cases s.roots[i]? <;> rfl

/-! ## the tiered variant -/

/-- **Clause "the tiered variant checks against the root of the currently active stage only"** —
no active stage ⇒ the query errors; -/
theorem C14_tiered_no_active_stage (H : Bytes → Bytes) (s : Tiered) (now : Nat) (m : Bytes) (proof : List (List Nat))
    (h : activeIdx now s.stages = none) : s.hasMember H now m proof = none := by
  simp [Tiered.hasMember, h]

/-- with active stage `i` the answer is the plain membership check against `roots[i]` (unfolding of the definition;
the content is in `C14_tiered_complete`, `C14_tiered_sound_no2n_partial`, `C14_tiered_other_roots_irrelevant`) -/
theorem C14_tiered_active_root (H : Bytes → Bytes) (s : Tiered) (now i : Nat) (r : List Nat) (m : Bytes)
    (proof : List (List Nat)) (hi : activeIdx now s.stages = some i) (hr : s.roots[i]? = some r) :
    s.hasMember H now m proof = hasMember H 16 r m proof := by
  simp [Tiered.hasMember, hi, hr]

/-- it is the same in any other state whose active stage and `i`-th root agree (the other stages' roots are irrelevant) -/
theorem C14_tiered_other_roots_irrelevant (H : Bytes → Bytes) (s s' : Tiered) (now i : Nat) (m : Bytes)
    (proof : List (List Nat)) (hi : activeIdx now s.stages = some i) (hi' : activeIdx now s'.stages = some i)
    (hr : s.roots[i]? = s'.roots[i]?) :
    s.hasMember H now m proof = s'.hasMember H now m proof := by
  simp [Tiered.hasMember, hi, hi', hr]

/-- the active stage is the first one whose window `[start, end]` contains the block time -/
theorem C14_tiered_active_spec (now : Nat) (stages : List Stage) (i : Nat) (h : activeIdx now stages = some i) :
    ∃ st, stages[i]? = some st ∧ st.start ≤ now ∧ now ≤ st.end_ ∧
      ∀ j, j < i → ∀ sj, stages[j]? = some sj → ¬ (sj.start ≤ now ∧ now ≤ sj.end_) := by
  unfold activeIdx at h
  rw [List.findIdx?_eq_some_iff_getElem] at h
  obtain ⟨hi, hp, hlt⟩ := h
  refine ⟨stages[i], by simp [hi], ?_, ?_, ?_⟩
  · simp at hp; exact hp.1
  · simp at hp; exact hp.2
  · intro j hj sj hsj hc
    have hjl : j < stages.length := by omega
    have := hlt j hj
    have e : stages[j] = sj := by
      have := List.getElem?_eq_getElem hjl
      rw [this] at hsj; simpa using hsj
    rw [e] at this
    simp at this
    exact absurd hc.2 (by have := this hc.1; omega)

/-- completeness of the tiered query: while stage `i` is active, every entry of the list committed at index `i` is
accepted with its layered proof -/
theorem C14_tiered_complete (H : Bytes → Bytes) (hH : HashOk H 16) (s : Tiered) (now i j : Nat)
    (members : List Bytes) (m r : Bytes)
    (hi : activeIdx now s.stages = some i) (hroot : s.roots[i]? = some (hexEncode r))
    (hm : members[j]? = some m) (hr : layeredRoot H members = some r) :
    s.hasMember H now m ((proofAt (treeLayers H (members.map H)) j).map hexEncode) = some true := by
  rw [C14_tiered_active_root H s now i _ m _ hi hroot]
  exact C14_layered_complete H 16 hH members j m r hm hr

/-- soundness of the tiered query: a positive answer at time `now` means membership in the **active** stage's list
(whose tree's root is stored at the active index), or a located collision — membership in another stage's list does
not help. PARTIAL (side conditions `hleaf`, `hm`: no listed entry / queried string of exactly 32 bytes; KNOWN FINDING
`*/has_member/inner-preimage-accepted`, DESIGN 13.3). -/
theorem C14_tiered_sound_no2n_partial (H : Bytes → Bytes) (Hlen : ∀ x, (H x).length = 16) (s : Tiered) (now i : Nat)
    (members : List Bytes) (r : Bytes)
    (hi : activeIdx now s.stages = some i) (hroot : s.roots[i]? = some (hexEncode r))
    (hr : layeredRoot H members = some r)
    (hleaf : ∀ x ∈ members, x.length ≠ 32) (m : Bytes) (hm : m.length ≠ 32) (proof : List (List Nat))
    (h : s.hasMember H now m proof = some true) : m ∈ members ∨ QueryCollision H 16 members m proof := by
  rw [C14_tiered_active_root H s now i _ m proof hi hroot] at h
  exact C14_sound_layered_no2n_partial H 16 Hlen members r hr hleaf m hm proof h

/-- alias of `C14_tiered_sound_no2n_partial` (kept because other modules refer to it) -/
theorem C14_tiered_sound (H : Bytes → Bytes) (Hlen : ∀ x, (H x).length = 16) (s : Tiered) (now i : Nat)
    (members : List Bytes) (r : Bytes)
    (hi : activeIdx now s.stages = some i) (hroot : s.roots[i]? = some (hexEncode r))
    (hr : layeredRoot H members = some r)
    (hleaf : ∀ x ∈ members, x.length ≠ 32) (m : Bytes) (hm : m.length ≠ 32) (proof : List (List Nat))
    (h : s.hasMember H now m proof = some true) : m ∈ members ∨ QueryCollision H 16 members m proof :=
  C14_tiered_sound_no2n_partial H Hlen s now i members r hi hroot hr hleaf m hm proof h

/-! ## the sender is bound into the leaf -/

/-- **Clause "minters bind the sender (and stage/allocation) into the leaf"** — the leaf string
`stage‖sender‖allocation` (absent parts omitted, numbers in decimal) determines all three components, **provided** the
two senders have the same length and start with a non-digit character (true of every bech32 address `stars1…`). -/
theorem C14_sender_bound (stage stage' alloc alloc' : Option Nat) (sender sender' : Bytes)
    (hlen : sender.length = sender'.length)
    (hs : ∃ c r, sender = c :: r ∧ ¬ isDigit c) (hs' : ∃ c r, sender' = c :: r ∧ ¬ isDigit c)
    (h : leafStr stage sender alloc = leafStr stage' sender' alloc') :
    stage = stage' ∧ sender = sender' ∧ alloc = alloc' := by
  unfold leafStr at h
  rw [List.append_assoc, List.append_assoc] at h
  have hx : ∃ c r, sender ++ optDec alloc = c :: r ∧ ¬ isDigit c := by
    obtain ⟨c, r, rfl, hc⟩ := hs; exact ⟨c, r ++ optDec alloc, rfl, hc⟩
  have hx' : ∃ c r, sender' ++ optDec alloc' = c :: r ∧ ¬ isDigit c := by
    obtain ⟨c, r, rfl, hc⟩ := hs'; exact ⟨c, r ++ optDec alloc', rfl, hc⟩
  obtain ⟨h1, h2⟩ := digit_prefix_unique _ _ _ _ (optDec_digits stage) (optDec_digits stage') hx hx' h
  obtain ⟨h3, h4⟩ := List.append_inj h2 hlen
  exact ⟨optDec_inj _ _ h1, h3, optDec_inj _ _ h4⟩

/-- The equal-length hypothesis weakened to what Stargaze addresses satisfy: account addresses are 44 characters,
contract addresses 64 — lengths that are equal or MORE THAN 10 APART — and an allocation is a `u32` (at most 10 decimal
digits), so a longer address can never be imitated by a shorter one plus allocation digits. -/
theorem C14_sender_bound_mixed (stage stage' alloc alloc' : Option Nat) (sender sender' : Bytes)
    (hlen : sender.length = sender'.length ∨ sender.length + 10 < sender'.length ∨ sender'.length + 10 < sender.length)
    (ha : ∀ x, alloc = some x → x < 2 ^ 32) (ha' : ∀ x, alloc' = some x → x < 2 ^ 32)
    (hs : ∃ c r, sender = c :: r ∧ ¬ isDigit c) (hs' : ∃ c r, sender' = c :: r ∧ ¬ isDigit c)
    (h : leafStr stage sender alloc = leafStr stage' sender' alloc') :
    stage = stage' ∧ sender = sender' ∧ alloc = alloc' := by
  have hEq : sender.length = sender'.length := by
    have h0 := h
    unfold leafStr at h0
    rw [List.append_assoc, List.append_assoc] at h0
    have hx : ∃ c r, sender ++ optDec alloc = c :: r ∧ ¬ isDigit c := by
      obtain ⟨c, r, rfl, hc⟩ := hs; exact ⟨c, r ++ optDec alloc, rfl, hc⟩
    have hx' : ∃ c r, sender' ++ optDec alloc' = c :: r ∧ ¬ isDigit c := by
      obtain ⟨c, r, rfl, hc⟩ := hs'; exact ⟨c, r ++ optDec alloc', rfl, hc⟩
    obtain ⟨_, h2⟩ := digit_prefix_unique _ _ _ _ (optDec_digits stage) (optDec_digits stage') hx hx' h0
    have hl := congrArg List.length h2
    simp only [List.length_append] at hl
    have b1 := optDec_length_le alloc ha
    have b2 := optDec_length_le alloc' ha'
    omega
  exact C14_sender_bound stage stage' alloc alloc' sender sender' hEq hs hs' h

/-- the hypothesis is needed: with a sender that starts with a digit two different (stage, sender, allocation)
triples of equal sender length share a leaf string -/
theorem C14_sender_bound_needs_hypothesis :
    leafStr (some 1) [50, 97, 98] (some 3) = leafStr (some 12) [97, 98, 51] none := by
  simp [leafStr, optDec, decBytes]

/-- a list entry as the tree builder sees it: `(stage, address, allocation)` -/
abbrev Entry := Option Nat × Bytes × Option Nat

def leavesOf (entries : List Entry) : List Bytes := entries.map fun e => leafStr e.1 e.2.1 e.2.2

/-- the shape of the addresses and allocations in play: the address starts with a non-digit, its length is one of `Ls`,
the allocation (if any) is a `u32`, and the leaf is not exactly `2n` bytes long -/
structure TripleOk (Ls : List Nat) (twoN : Nat) (stage : Option Nat) (sender : Bytes) (alloc : Option Nat) : Prop where
  nondigit : ∃ c r, sender = c :: r ∧ ¬ isDigit c
  len : sender.length ∈ Ls
  alloc32 : ∀ x, alloc = some x → x < 2 ^ 32
  not2n : (leafStr stage sender alloc).length ≠ twoN

/-- address lengths that are pairwise equal or more than 10 apart (Stargaze: `[44, 64]`) -/
def LensApart (Ls : List Nat) : Prop := ∀ a ∈ Ls, ∀ b ∈ Ls, a = b ∨ a + 10 < b ∨ b + 10 < a

theorem lensApart_stargaze : LensApart [44, 64] := by
  intro a ha b hb
  simp only [List.mem_cons, List.not_mem_nil, or_false] at ha hb
  rcases ha with rfl | rfl <;> rcases hb with rfl | rfl <;> omega

/-- listed, or the hash was broken on the strings of this very query -/
def ListedOrBroken (H : Bytes → Bytes) (n : Nat) (entries : List Entry) (stage : Option Nat) (sender : Bytes)
    (alloc : Option Nat) : Prop :=
  (stage, sender, alloc) ∈ entries
    ∨ ∃ pf, QueryCollision H n (leavesOf entries) (leafStr stage sender alloc) pf

theorem gate_spec (H : Bytes → Bytes) (now : Nat) (wl : Wl) (sender : Bytes) (stage alloc : Option Nat)
    (proof : Option (List (List Nat))) (h : gate H now wl sender stage alloc proof = true) :
    ∃ pf, proof = some pf ∧ wl.hasMember H now (leafStr stage sender alloc) pf = some true := by
  unfold gate at h
  cases hact : wl.active now with
  | none => simp [hact] at h
  | some a =>
    cases proof with
    | none => simp [hact] at h
    | some pf => simp [hact] at h; exact ⟨pf, rfl, h⟩

/-- a successful whitelist mint means the minter-built leaf for **this transaction's sender** passed the membership
query (there is no other way through the gate, whatever the witness `res` says) -/
theorem mint_ok_hasMember (H : Bytes → Bytes) (now : Nat) (w w' : World) (sender : Bytes) (stage alloc : Option Nat)
    (proof : Option (List (List Nat))) (res : Bool) (h : mint H now w sender stage alloc proof res = some w') :
    ∃ pf, proof = some pf ∧ w.wl.hasMember H now (leafStr stage sender alloc) pf = some true := by
  obtain ⟨_, _, _, hg, _⟩ := mint_spec H now w w' sender stage alloc proof res h
  exact gate_spec H now w.wl sender stage alloc proof hg

/-- membership of the caller's leaf in the list ⇒ the caller's own triple is a listed entry -/
theorem triple_of_leaf_mem (Ls : List Nat) (hLs : LensApart Ls) (twoN : Nat) (entries : List Entry)
    (hent : ∀ e ∈ entries, TripleOk Ls twoN e.1 e.2.1 e.2.2)
    (stage : Option Nat) (sender : Bytes) (alloc : Option Nat) (hc : TripleOk Ls twoN stage sender alloc)
    (hmem : leafStr stage sender alloc ∈ leavesOf entries) : (stage, sender, alloc) ∈ entries := by
  simp only [leavesOf, List.mem_map] at hmem
  obtain ⟨e, he, heq⟩ := hmem
  have hE := hent e he
  obtain ⟨h1, h2, h3⟩ := C14_sender_bound_mixed e.1 stage e.2.2 alloc e.2.1 sender
    (hLs _ hE.len _ hc.len) hE.alloc32 hc.alloc32 hE.nondigit hc.nondigit heq
  have : e = (stage, sender, alloc) := by
    obtain ⟨a, b, c⟩ := e; simp_all
  rw [← this]; exact he

/-- **Clause "a proof issued for one address is useless to another"** — plain whitelist. The list was built from
entries `(stage, address, allocation)`; all addresses (the listed ones and the caller's) start with a non-digit and have
lengths from a set that is pairwise equal-or-more-than-10-apart (`[44, 64]` on Stargaze: accounts AND contracts in one
list are covered); allocations are `u32`; no leaf is exactly 64 bytes long. If a mint by `sender` passes the whitelist
gate — with *any* proof, in particular one issued to somebody else, and whatever the other gates say — then the
caller's own `(stage, sender, allocation)` is a listed entry, or SHA-256 was broken on the strings of that query
(`ListedOrBroken` = listed OR a located collision). SCOPE: only for callers and entries satisfying `TripleOk` — non-digit
leading character, address length in `Ls`, `u32` allocation, and leaf length ≠ `2n` (on SHA-256 the last condition excludes
a bare 64-character contract sender with neither stage nor allocation). -/
theorem C14_mint_sender_bound_plain (H : Bytes → Bytes) (Hlen : ∀ x, (H x).length = 32) (now : Nat) (w w' : World)
    (s : Plain) (hw : w.wl = .plain s)
    (entries : List Entry) (Ls : List Nat) (hLs : LensApart Ls) (r : Bytes)
    (hr : layeredRoot H (leavesOf entries) = some r) (hroot : s.root = hexEncode r)
    (hent : ∀ e ∈ entries, TripleOk Ls 64 e.1 e.2.1 e.2.2)
    (sender : Bytes) (stage alloc : Option Nat) (proof : Option (List (List Nat))) (res : Bool)
    (hc : TripleOk Ls 64 stage sender alloc)
    (h : mint H now w sender stage alloc proof res = some w') :
    ListedOrBroken H 32 entries stage sender alloc := by
  obtain ⟨pf, _, hm⟩ := mint_ok_hasMember H now w w' sender stage alloc proof res h
  simp only [Wl.hasMember, hw, Plain.hasMember, hroot] at hm
  have := C14_sound_layered_no2n_partial H 32 Hlen _ r hr
    (by intro x hx; simp only [leavesOf, List.mem_map] at hx; obtain ⟨e, he, rfl⟩ := hx; exact (hent e he).not2n)
    _ hc.not2n pf hm
  rcases this with hmem | hcoll
  · left; exact triple_of_leaf_mem Ls hLs 64 entries hent stage sender alloc hc hmem
  · right; exact ⟨pf, hcoll⟩

/-- … and this holds in every state reachable from instantiation by any history (the root is still the committed one). -/
theorem C14_mint_sender_bound_history (H : Bytes → Bytes) (Hlen : ∀ x, (H x).length = 32) (w0 : World) (s0 : Plain)
    (hw0 : w0.wl = .plain s0) (ops : List (Nat × Op)) (now : Nat) (w' : World)
    (entries : List Entry) (Ls : List Nat) (hLs : LensApart Ls) (r : Bytes)
    (hr : layeredRoot H (leavesOf entries) = some r) (hroot : s0.root = hexEncode r)
    (hent : ∀ e ∈ entries, TripleOk Ls 64 e.1 e.2.1 e.2.2)
    (sender : Bytes) (stage alloc : Option Nat) (proof : Option (List (List Nat))) (res : Bool)
    (hc : TripleOk Ls 64 stage sender alloc)
    (h : mint H now (run H w0 ops) sender stage alloc proof res = some w') :
    ListedOrBroken H 32 entries stage sender alloc := by
  obtain ⟨s', h1, h2⟩ := run_plain H w0 ops s0 hw0
  exact C14_mint_sender_bound_plain H Hlen now (run H w0 ops) w' s' h1 entries Ls hLs r hr (by rw [h2, hroot]) hent
    sender stage alloc proof res hc h

/-- the same through the tiered whitelist: the entry must be in the list of the stage that is active **now** -/
theorem C14_mint_sender_bound_tiered (H : Bytes → Bytes) (Hlen : ∀ x, (H x).length = 16) (now i : Nat) (w w' : World)
    (s : Tiered) (hw : w.wl = .tiered s)
    (entries : List Entry) (Ls : List Nat) (hLs : LensApart Ls) (r : Bytes)
    (hi : activeIdx now s.stages = some i) (hroot : s.roots[i]? = some (hexEncode r))
    (hr : layeredRoot H (leavesOf entries) = some r)
    (hent : ∀ e ∈ entries, TripleOk Ls 32 e.1 e.2.1 e.2.2)
    (sender : Bytes) (stage alloc : Option Nat) (proof : Option (List (List Nat))) (res : Bool)
    (hc : TripleOk Ls 32 stage sender alloc)
    (h : mint H now w sender stage alloc proof res = some w') :
    ListedOrBroken H 16 entries stage sender alloc := by
  obtain ⟨pf, _, hm⟩ := mint_ok_hasMember H now w w' sender stage alloc proof res h
  simp only [Wl.hasMember, hw] at hm
  have := C14_tiered_sound_no2n_partial H Hlen s now i _ r hi hroot hr
    (by intro x hx; simp only [leavesOf, List.mem_map] at hx; obtain ⟨e, he, rfl⟩ := hx; exact (hent e he).not2n)
    _ hc.not2n pf hm
  rcases this with hmem | hcoll
  · left; exact triple_of_leaf_mem Ls hLs 32 entries hent stage sender alloc hc hmem
  · right; exact ⟨pf, hcoll⟩

/-- … in every reachable state: after ANY history (the admins may have moved every window), a mint that passes the gate
while stage `i` is active — by the windows in force THEN — means the caller's triple is in the list whose root was
committed at index `i` AT INSTANTIATION (`hroot` is about the initial state `s0`; that it still holds is derived from
root immutability, not assumed). -/
theorem C14_mint_sender_bound_tiered_history (H : Bytes → Bytes) (Hlen : ∀ x, (H x).length = 16) (w0 : World)
    (s0 : Tiered) (hw0 : w0.wl = .tiered s0) (ops : List (Nat × Op)) (now i : Nat) (w' : World)
    (entries : List Entry) (Ls : List Nat) (hLs : LensApart Ls) (r : Bytes)
    (hi : ∀ s', (run H w0 ops).wl = .tiered s' → activeIdx now s'.stages = some i)
    (hroot : s0.roots[i]? = some (hexEncode r))
    (hr : layeredRoot H (leavesOf entries) = some r)
    (hent : ∀ e ∈ entries, TripleOk Ls 32 e.1 e.2.1 e.2.2)
    (sender : Bytes) (stage alloc : Option Nat) (proof : Option (List (List Nat))) (res : Bool)
    (hc : TripleOk Ls 32 stage sender alloc)
    (h : mint H now (run H w0 ops) sender stage alloc proof res = some w') :
    ListedOrBroken H 16 entries stage sender alloc := by
  obtain ⟨s', h1, h2⟩ := run_tiered H w0 ops s0 hw0
  exact C14_mint_sender_bound_tiered H Hlen now i (run H w0 ops) w' s' h1 entries Ls hLs r (hi s' h1)
    (by rw [h2]; exact hroot) hr hent sender stage alloc proof res hc h

/-- every mint operation of a history is by a caller of the stated shape -/
def CallersOk (Ls : List Nat) (twoN : Nat) (ops : List (Nat × Op)) : Prop :=
  ∀ top ∈ ops, ∀ sender stage alloc proof res, top.2 = Op.mint sender stage alloc proof res →
    TripleOk Ls twoN stage sender alloc

/-- **History-level invariant of the ghost log (plain whitelist).** Start from a world with an empty log whose root
commits to `entries`. After ANY history — configuration messages with any verdict and outcome, mints by anybody with any
proofs and any verdict of the other gates — EVERY accepted whitelist mint in the log was made by a sender whose own
`(stage, sender, allocation)` is a listed entry (or SHA-256 was broken on the strings of that query). -/
theorem C14_minted_all_listed_plain (H : Bytes → Bytes) (Hlen : ∀ x, (H x).length = 32) (w0 : World) (s0 : Plain)
    (hw0 : w0.wl = .plain s0) (hlog : w0.minted = [])
    (entries : List Entry) (Ls : List Nat) (hLs : LensApart Ls) (r : Bytes)
    (hr : layeredRoot H (leavesOf entries) = some r) (hroot : s0.root = hexEncode r)
    (hent : ∀ e ∈ entries, TripleOk Ls 64 e.1 e.2.1 e.2.2)
    (ops : List (Nat × Op)) (hops : CallersOk Ls 64 ops) :
    ∀ rec ∈ (run H w0 ops).minted, ListedOrBroken H 32 entries rec.stage rec.sender rec.alloc := by
  suffices hgen : ∀ (ops : List (Nat × Op)) (w : World) (s : Plain), w.wl = .plain s → s.root = hexEncode r →
      (∀ rec ∈ w.minted, ListedOrBroken H 32 entries rec.stage rec.sender rec.alloc) → CallersOk Ls 64 ops →
      ∀ rec ∈ (run H w ops).minted, ListedOrBroken H 32 entries rec.stage rec.sender rec.alloc by
    exact hgen ops w0 s0 hw0 hroot (by rw [hlog]; simp) hops
  intro ops
  induction ops with
  | nil => intro w s _ _ hinv _; exact hinv
  | cons top ops ih =>
    intro w s hw hrt hinv hc
    simp only [run, List.foldl_cons]
    have hc' : CallersOk Ls 64 ops := fun t ht => hc t (by simp [ht])
    unfold step'
    cases hstep : step H top.1 w top.2 with
    | none => exact ih w s hw hrt hinv hc'
    | some w' =>
      obtain ⟨s1, h1, h2⟩ := step_plain H top.1 w w' top.2 s hw hstep
      refine ih w' s1 h1 (by rw [h2, hrt]) ?_ hc'
      cases hop : top.2 with
      | wlMsg acc post =>
        rw [hop] at hstep
        simp only [step] at hstep
        split at hstep
        · simp at hstep; subst hstep; exact hinv
        · simp at hstep
      | mint sender stage alloc proof res =>
        rw [hop] at hstep
        have hm : mint H top.1 w sender stage alloc proof res = some w' := hstep
        obtain ⟨key, pal, _, _, rfl⟩ := mint_spec H top.1 w w' sender stage alloc proof res hm
        intro rec hrec
        simp only [List.mem_cons] at hrec
        rcases hrec with rfl | hrec
        · exact C14_mint_sender_bound_plain H Hlen top.1 w _ s hw entries Ls hLs r hr hrt hent sender stage alloc proof
            res (hc top (by simp) sender stage alloc proof res hop) hm
        · exact hinv rec hrec

/-- **The same for the tiered whitelist**: `lists[i]` is the entry list whose root was committed at index `i`. Every
logged mint carries the key `i+1` of the stage that was active when it happened and its sender's own triple is an entry
of THAT stage's list — whatever the admins did to the windows in between. -/
theorem C14_minted_all_listed_tiered (H : Bytes → Bytes) (Hlen : ∀ x, (H x).length = 16) (w0 : World) (s0 : Tiered)
    (hw0 : w0.wl = .tiered s0) (hlog : w0.minted = [])
    (lists : List (List Entry)) (Ls : List Nat) (hLs : LensApart Ls)
    (hroots : ∀ (i : Nat) (rootStr : List Nat), s0.roots[i]? = some rootStr →
      ∃ es r, lists[i]? = some es ∧ layeredRoot H (leavesOf es) = some r ∧ rootStr = hexEncode r)
    (hent : ∀ es ∈ lists, ∀ e ∈ es, TripleOk Ls 32 e.1 e.2.1 e.2.2)
    (ops : List (Nat × Op)) (hops : CallersOk Ls 32 ops) :
    ∀ rec ∈ (run H w0 ops).minted, ∃ i es, rec.key = i + 1 ∧ lists[i]? = some es
      ∧ ListedOrBroken H 16 es rec.stage rec.sender rec.alloc := by
  suffices hgen : ∀ (ops : List (Nat × Op)) (w : World) (s : Tiered), w.wl = .tiered s → s.roots = s0.roots →
      (∀ rec ∈ w.minted, ∃ i es, rec.key = i + 1 ∧ lists[i]? = some es
        ∧ ListedOrBroken H 16 es rec.stage rec.sender rec.alloc) → CallersOk Ls 32 ops →
      ∀ rec ∈ (run H w ops).minted, ∃ i es, rec.key = i + 1 ∧ lists[i]? = some es
        ∧ ListedOrBroken H 16 es rec.stage rec.sender rec.alloc by
    exact hgen ops w0 s0 hw0 rfl (by rw [hlog]; simp) hops
  intro ops
  induction ops with
  | nil => intro w s _ _ hinv _; exact hinv
  | cons top ops ih =>
    intro w s hw hrt hinv hc
    simp only [run, List.foldl_cons]
    have hc' : CallersOk Ls 32 ops := fun t ht => hc t (by simp [ht])
    unfold step'
    cases hstep : step H top.1 w top.2 with
    | none => exact ih w s hw hrt hinv hc'
    | some w' =>
      obtain ⟨s1, h1, h2⟩ := step_tiered H top.1 w w' top.2 s hw hstep
      refine ih w' s1 h1 (by rw [h2, hrt]) ?_ hc'
      cases hop : top.2 with
      | wlMsg acc post =>
        rw [hop] at hstep
        simp only [step] at hstep
        split at hstep
        · simp at hstep; subst hstep; exact hinv
        · simp at hstep
      | mint sender stage alloc proof res =>
        rw [hop] at hstep
        have hm : mint H top.1 w sender stage alloc proof res = some w' := hstep
        obtain ⟨key, pal, hact, _, rfl⟩ := mint_spec H top.1 w w' sender stage alloc proof res hm
        intro rec hrec
        simp only [List.mem_cons] at hrec
        rcases hrec with rfl | hrec
        · -- the stage active now, its root, its list
          simp only [hw, Wl.active] at hact
          cases hidx : activeIdx top.1 s.stages with
          | none => simp [hidx] at hact
          | some i =>
            simp only [hidx, Option.map_eq_some_iff] at hact
            obtain ⟨st, _, hkp⟩ := hact
            have hkey : key = i + 1 := by simp at hkp; exact hkp.1.symm
            obtain ⟨pf, _, hmem⟩ := mint_ok_hasMember H top.1 w _ sender stage alloc proof res hm
            simp only [Wl.hasMember, hw, Tiered.hasMember, hidx] at hmem
            cases hroot : s.roots[i]? with
            | none => simp [hroot] at hmem
            | some rootStr =>
              obtain ⟨es, r, hl, hr, hrs⟩ := hroots i rootStr (by rw [← hrt]; exact hroot)
              refine ⟨i, es, hkey, hl, ?_⟩
              have hes : es ∈ lists := List.mem_of_getElem? hl
              exact C14_mint_sender_bound_tiered H Hlen top.1 i w _ s hw es Ls hLs r hidx (by rw [hroot, hrs]) hr
                (hent es hes) sender stage alloc proof res (hc top (by simp) sender stage alloc proof res hop) hm
        · exact hinv rec hrec

/-- **Completeness at the minter** (the other half of the gate): while a window is active, a sender whose leaf
verifies against the root in force, who has not minted in this window yet and whose authenticated allowance is at
least 1, is let through — WHATEVER the witness for the other gates says (the model decides this case).
This is the DEFINITION of the aspect model's `mint` unfolded (any world `w`); on the code it is carried by the monitor
`merkle-minter/mint/listed-rejected`, i.e. validated by the harness only. -/
theorem C14_mint_first_accepted (H : Bytes → Bytes) (now : Nat) (w : World) (sender : Bytes) (stage alloc : Option Nat)
    (pf : List (List Nat)) (key pal : Nat) (res : Bool)
    (hact : w.wl.active now = some (key, pal))
    (hmem : w.wl.hasMember H now (leafStr stage sender alloc) pf = some true)
    (hfirst : hasMinted w.minted sender key = false) (hall : 1 ≤ alloc.getD pal) :
    mint H now w sender stage alloc (some pf) res
      = some { w with minted := ⟨sender, key, stage, alloc, now⟩ :: w.minted } := by
  have hg : gate H now w.wl sender stage alloc (some pf) = true := by simp [gate, hact, hmem]
  simp [mint, hact, hg, hfirst, hall]

/-- … in particular a listed entry presenting its own layered (`rs_merkle`) proof to a plain whitelist in its window -/
theorem C14_mint_listed_accepted_plain (H : Bytes → Bytes) (hH : HashOk H 32) (now : Nat) (w : World) (s : Plain)
    (hw : w.wl = .plain s) (entries : List Entry) (j : Nat) (stage alloc : Option Nat) (sender r : Bytes)
    (hj : entries[j]? = some (stage, sender, alloc))
    (hr : layeredRoot H (leavesOf entries) = some r) (hroot : s.root = hexEncode r)
    (hactive : s.isActive now = true) (hfirst : hasMinted w.minted sender 0 = false) (hall : 1 ≤ alloc.getD s.pal)
    (res : Bool) :
    (mint H now w sender stage alloc
      (some ((proofAt (treeLayers H ((leavesOf entries).map H)) j).map hexEncode)) res).isSome := by
  have hm : (leavesOf entries)[j]? = some (leafStr stage sender alloc) := by simp [leavesOf, hj]
  have := C14_layered_complete H 32 hH (leavesOf entries) j _ r hm hr
  rw [C14_mint_first_accepted H now w sender stage alloc _ 0 s.pal res (by simp [hw, Wl.active, hactive])
    (by simpa [Wl.hasMember, hw, Plain.hasMember, hroot] using this) hfirst hall]
  rfl

/-- a closed gate is closed whatever the witness says (soundness at the minter is decided by the model).
DEFINITION of the aspect model's `mint` unfolded; on the code it is carried by the monitor
`merkle-minter/mint/unlisted-sender-minted`, i.e. validated by the harness only. -/
theorem C14_mint_gate_closed_rejects (H : Bytes → Bytes) (now : Nat) (w : World) (sender : Bytes)
    (stage alloc : Option Nat) (proof : Option (List (List Nat))) (res : Bool)
    (hg : gate H now w.wl sender stage alloc proof = false) :
    mint H now w sender stage alloc proof res = none := by
  unfold mint
  split
  · rfl
  · simp [hg]

/-! ## non-vacuity -/

example : HashOk toyH 1 := toyH_ok

/-- three members (odd size): the layered root exists, and member 2 (the promoted node) verifies with a 1-element proof -/
example : ∃ r, layeredRoot toyH [[1], [2], [3]] = some r ∧
    hasMember toyH 1 (hexEncode r) [3] ((proofAt (treeLayers toyH ([[1], [2], [3]].map toyH)) 2).map hexEncode) = some true := by
  refine ⟨_, rfl, ?_⟩
  decide

/-- hypotheses of `C14_sender_bound` are satisfiable with distinct data, e.g. "1abc5" vs "1abc" -/
example : leafStr (some 1) [97, 98, 99] (some 5) ≠ leafStr (some 1) [97, 98, 99] none := by
  simp [leafStr, optDec, decBytes]

/-- the tiered query really errors between two stages and answers inside one -/
example : activeIdx 15 [⟨1, 10, 1, 0⟩, ⟨20, 30, 1, 0⟩] = none := by decide
example : activeIdx 10 [⟨1, 10, 1, 0⟩, ⟨10, 30, 1, 0⟩] = some 0 := by decide

/-- the aspect model's mint really runs: a one-entry list, its (empty) proof, first mint accepted even with `res = false`,
the second one follows the witness, a stranger is rejected even with `res = true` -/
example :
    let root := hexEncode (toyH [97])
    let w : World := ⟨.plain ⟨root, 10, 20, 1, [1], true⟩, []⟩
    (mint toyH 15 w [97] none none (some []) false).isSome = true
    ∧ (mint toyH 15 w [98] none none (some []) true).isSome = false
    ∧ ∀ w', mint toyH 15 w [97] none none (some []) false = some w' →
        (mint toyH 15 w' [97] none none (some []) false).isSome = false
        ∧ (mint toyH 15 w' [97] none none (some []) true).isSome = true := by
  refine ⟨by decide, by decide, ?_⟩
  intro w' h
  have : w' = ⟨.plain ⟨hexEncode (toyH [97]), 10, 20, 1, [1], true⟩, [⟨[97], 0, none, none, 15⟩]⟩ := by
    have h2 : mint toyH 15 ⟨.plain ⟨hexEncode (toyH [97]), 10, 20, 1, [1], true⟩, []⟩ [97] none none (some []) false
        = some ⟨.plain ⟨hexEncode (toyH [97]), 10, 20, 1, [1], true⟩, [⟨[97], 0, none, none, 15⟩]⟩ := by decide
    rw [h2] at h; exact (Option.some.inj h).symm
  subst this
  exact ⟨by decide, by decide⟩

/-- a configuration message with ANY outcome leaves the root alone, and a message of the wrong kind changes nothing -/
example : (Wl.setCfg (.plain ⟨[1, 2], 10, 20, 1, [1], true⟩) (.plain ⟨[9, 9], 11, 30, 5, [], false⟩)).roots = [[1, 2]] := by
  decide

end LP
