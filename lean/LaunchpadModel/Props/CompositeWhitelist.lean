import LaunchpadModel.Lemmas.WhitelistFullMembers4
import LaunchpadModel.Lemmas.WhitelistFullStages
import LaunchpadModel.Props.C11
import LaunchpadModel.Props.C12
/-!
# Refinement theorems: the composite model `LP.WF` (Model/WhitelistFull.lean) refines the whitelist aspect models

For each aspect: a projection of the composite state, a translation of composite ops into aspect ops *whose witnesses are
computed from the composite state*, the one-step simulation for ALL states and ops, its lift to runs, and the headline
theorems of the property restated for composite runs (`Cxx_full_*`).

A composite run starts in any state (e.g. `WF.init now`: no contract yet); `instantiate` may occur any number of times
(the latest successfully instantiated contract is the observed one).
-/
namespace LP
open LP.WF

namespace WF

/-! ## C11 — membership accounting, capacity, fees -/

/-- nothing outside the family touches the observed contract's own account: coins are created for other accounts only, the
contract does not send messages to itself, a new contract gets a fresh address (≠ the fair-burn pool, no balance yet) -/
def Clean (s : State) : Op → Prop
  | .setTime _ => True
  | .fund a _ => ∀ w, s.wl = some w → a ≠ w.self
  | .exec sender _ _ => ∀ w, s.wl = some w → sender ≠ w.self
  | .instantiate _ sender _ self _ => sender ≠ self ∧ self ≠ FAIRBURN_POOL ∧ ∀ d, s.bank.bal self d = 0

def CleanRun : State → List Op → Prop
  | _, [] => True
  | s, op :: ops => Clean s op ∧ CleanRun (step' s op) ops

/-- op translation for a whole step (`setTime`, `fund`, and a re-`instantiate` are no C11 ops of the observed contract:
they translate to the C11 no-op "a refused message") -/
def tr11op (d : Denom) (s : State) (w : Wl) : Op → WlMembers.Op
  | .exec sender funds m => tr11 d s w sender funds m
  | _ => .other false WlMembers.Tip.zero

theorem wl_step_refused (P : WlMembers.WL) (t : WlMembers.Tip) : WlMembers.step P (.other false t) = P := by
  unfold WlMembers.step
  split
  · rename_i s' h
    unfold WlMembers.exec at h
    split at h <;> simp at h
  · rfl

theorem fund_bal_other (b : Bank) (a x : Addr) (c : Coin) (d : Denom) (h : a ≠ x) : (b.fund a c).bal x d = b.bal x d := by
  have : ¬ x = a := fun e => h e.symm
  simp [MintPay.Bank.fund, MintPay.Bank.credit, this]

/-- **one-step simulation** (every state with an observed list / immutable contract, every op but `instantiate`):
`proj (Composite.step' s op) = Aspect.step (proj s) (tr s op)` -/
theorem step_sim11 (d : Denom) (hd : d ≠ NATIVE) {s : State} {w : Wl} (hw : s.wl = some w) (hv : w.v.store ≠ .merkle)
    (hp : w.self ≠ FAIRBURN_POOL) (hal : Aligned w) (op : Op) (hc : Clean s op)
    (hni : ∀ v sender funds self m, op ≠ .instantiate v sender funds self m) :
    ∃ w', (step' s op).wl = some w' ∧ w'.v = w.v ∧ w'.self = w.self ∧ Aligned w' ∧
      proj11 d (step' s op).bank w' = WlMembers.step (proj11 d s.bank w) (tr11op d s w op) := by
  cases op with
  | setTime t =>
    refine ⟨w, hw, rfl, rfl, hal, ?_⟩
    simp only [step', step, tr11op, wl_step_refused]
  | fund a c =>
    refine ⟨w, hw, rfl, rfl, hal, ?_⟩
    have ha : a ≠ w.self := hc w hw
    simp only [step', step, tr11op, wl_step_refused, proj11, fund_bal_other _ _ _ _ _ ha]
  | instantiate v sender funds self m => exact absurd rfl (hni v sender funds self m)
  | exec sender funds m =>
    have hs : sender ≠ w.self := hc w hw
    have hsim : Sim11 d s w sender funds m := by
      cases hst : w.v.store with
      | list => exact exec_sim11 d hd hw hst hal sender funds m hs hp
      | immutable => exact exec_sim11_immutable d hw hst sender funds m
      | merkle => exact absurd hst hv
    rcases step'_cases s (.exec sender funds m) with ⟨s', hok, hs'⟩ | ⟨⟨e, herr⟩, hs'⟩
    · obtain ⟨w', hw', hself, hvv, hex⟩ := hsim.1 s' hok
      have hal' : Aligned w' := by
        simp only [step] at hok
        obtain ⟨w0, b1, w1, msgs, b2, hw0, _, hh, _, rfl⟩ := execute_ok hok
        rw [hw] at hw0; cases hw0
        simp only [Option.some.injEq] at hw'; subst hw'
        exact (handle_frame hh).2.2 hal
      rw [hs']
      refine ⟨w', hw', hvv, hself, hal', ?_⟩
      simp only [tr11op, WlMembers.step, hex]
    · obtain ⟨e', hex⟩ := hsim.2 e herr
      rw [hs']
      refine ⟨w, hw, rfl, rfl, hal, ?_⟩
      simp only [tr11op, WlMembers.step, hex]

/-- "the observed contract, if it is a list / immutable whitelist, is in a state of a C11 aspect run" -/
def Reach11 (d : Denom) (s : State) : Prop :=
  ∀ w, s.wl = some w → w.v.store ≠ .merkle →
    w.self ≠ FAIRBURN_POOL ∧ Aligned w ∧
    ∃ M s0 aops, WlMembers.instantiate w.v.kind11 M = .ok s0 ∧ proj11 d s.bank w = WlMembers.run s0 aops

theorem wl_run_snoc (s : WlMembers.WL) (ops : List WlMembers.Op) (op : WlMembers.Op) :
    WlMembers.run s (ops ++ [op]) = WlMembers.step (WlMembers.run s ops) op := by
  simp [WlMembers.run, List.foldl_append]

theorem reach11_step (d : Denom) (hd : d ≠ NATIVE) {s : State} (hr : Reach11 d s) (op : Op) (hc : Clean s op) :
    Reach11 d (step' s op) := by
  by_cases hinst : ∃ v sender funds self m, op = .instantiate v sender funds self m
  · obtain ⟨v, sender, funds, self, m, rfl⟩ := hinst
    obtain ⟨hs, hp, hfresh⟩ := hc
    rcases step'_cases s (.instantiate v sender funds self m) with ⟨s', hok, hs'⟩ | ⟨_, hs'⟩
    · rw [hs']
      intro w hw hv
      have hvw : w.v = v ∧ w.self = self := by
        have hok' := hok
        simp only [step] at hok'
        obtain ⟨b1, w0, msgs, b2, _, hi, _, rfl⟩ := instantiateTx_ok hok'
        simp only [Option.some.injEq] at hw; subst hw
        exact instantiateWl_v hi
      cases hst : v.store with
      | merkle => rw [hvw.1] at hv; exact absurd hst hv
      | list =>
        obtain ⟨w1, hw1, hv1, hself1, hal1, hex⟩ := inst_sim11_list d hd hst hs hp hfresh hok
        rw [hw] at hw1; cases hw1
        subst hv1
        exact ⟨by rw [hself1]; exact hp, hal1, _, _, [], hex, rfl⟩
      | immutable =>
        obtain ⟨w1, hw1, hv1, hself1, hal1, hex⟩ := inst_sim11_immutable d hst hfresh hok
        rw [hw] at hw1; cases hw1
        subst hv1
        exact ⟨by rw [hself1]; exact hp, hal1, _, _, [], hex, rfl⟩
    · rw [hs']; exact hr
  · have hni : ∀ v sender funds self m, op ≠ .instantiate v sender funds self m :=
      fun v sender funds self m e => hinst ⟨v, sender, funds, self, m, e⟩
    cases hw0 : s.wl with
    | none =>
      -- no contract: nothing but `instantiate` creates one
      intro w hw hv
      exfalso
      cases op with
      | setTime t => simp [step', step, hw0] at hw
      | fund a c => simp [step', step, hw0] at hw
      | instantiate v sender funds self m => exact hni v sender funds self m rfl
      | exec sender funds m => simp [step', step, execute, hw0] at hw
    | some w0 =>
      intro w hw hv
      by_cases hv0 : w0.v.store = .merkle
      · -- a Merkle contract stays a Merkle contract
        exfalso
        rcases step'_cases s op with ⟨s', hok, hs'⟩ | ⟨_, hs'⟩
        · rw [hs'] at hw
          cases op with
          | setTime t => simp only [step, Except.ok.injEq] at hok; subst hok; rw [hw0] at hw; cases hw; exact hv hv0
          | fund a c => simp only [step, Except.ok.injEq] at hok; subst hok; rw [hw0] at hw; cases hw; exact hv hv0
          | instantiate v sender funds self m => exact hni v sender funds self m rfl
          | exec sender funds m =>
            simp only [step] at hok
            obtain ⟨w1, b1, w2, msgs, b2, hw1, _, hh, _, rfl⟩ := execute_ok hok
            rw [hw0] at hw1; cases hw1
            simp only [Option.some.injEq] at hw; subst hw
            rw [(handle_frame hh).2.1] at hv; exact hv hv0
        · rw [hs', hw0] at hw; cases hw; exact hv hv0
      · obtain ⟨hp, hal, M, s0, aops, hinst0, hproj⟩ := hr w0 hw0 hv0
        obtain ⟨w', hw', hvv, hself, hal', hsim⟩ := step_sim11 d hd hw0 hv0 hp hal op hc hni
        rw [hw] at hw'; cases hw'
        refine ⟨by rw [hself]; exact hp, hal', M, s0, aops ++ [tr11op d s w0 op], by rw [hvv]; exact hinst0, ?_⟩
        rw [hsim, hproj, wl_run_snoc]

end WF

/-- **C11 refinement**: along every clean composite run (any number of instantiates, any messages by anybody, any clock),
the observed list / immutable whitelist is in a state of a C11 aspect run — `proj11 (run s ops) = WlMembers.run s0 aops` for
the instantiate message and the op list the translation computes -/
theorem C11_full_refines (d : Denom) (hd : d ≠ NATIVE) (s : State) (hr : Reach11 d s) (ops : List Op) (hc : CleanRun s ops) :
    Reach11 d (WF.run s ops) := by
  induction ops generalizing s with
  | nil => exact hr
  | cons op ops ih =>
    rw [WF.run_cons]
    exact ih _ (reach11_step d hd hr op hc.1) hc.2

theorem C11_full_init (d : Denom) (now : Nat) : Reach11 d (WF.init now) := by
  intro w hw; cases hw

/-- every state reached by a clean run from a fresh chain -/
theorem C11_full_reachable (d : Denom) (hd : d ≠ NATIVE) (now : Nat) (ops : List Op) (hc : CleanRun (WF.init now) ops) :
    Reach11 d (WF.run (WF.init now) ops) :=
  C11_full_refines d hd _ (C11_full_init d now) ops hc

/-- the C11 accounting invariant holds of the projection of every reachable composite state -/
theorem C11_full_invariant (d : Denom) {s : State} (hr : Reach11 d s) {w : Wl} (hw : s.wl = some w) (hv : w.v.store ≠ .merkle) :
    WlMembers.WlInv (proj11 d s.bank w) := by
  obtain ⟨_, _, M, s0, aops, hi, hp⟩ := hr w hw hv
  rw [hp]; exact C11_invariant hi aops

/-- "the reported member count always equals the number of distinct members actually stored (per stage and in total)" -/
theorem C11_full_count (d : Denom) {s : State} (hr : Reach11 d s) {w : Wl} (hw : s.wl = some w) (hv : w.v.store ≠ .merkle) :
    w.numMembers = w.members.length + (w.smembers.map (fun g => g.members.length)).sum ∧
    (WlMembers.keys w.members).Nodup ∧
    ∀ g ∈ w.smembers, g.count = g.members.length ∧ (WlMembers.keys g.members).Nodup := by
  have hi := C11_full_invariant d hr hw hv
  exact ⟨hi.count_total, hi.flat_sorted.nodup, fun g hg => ⟨(hi.stages_ok g hg).2, (hi.stages_ok g hg).1.nodup⟩⟩

/-- `Stage {k}.member_count` of the composite = number of entries stored under stage `k` -/
theorem C11_full_stage_count_query (d : Denom) {s : State} (hr : Reach11 d s) {w : Wl} (hw : s.wl = some w)
    (hv : w.v.store = .list) (ht : w.v.tiered = true) (k : Nat) (st : Stage) (c : Nat) (h : qStage w k = some (st, c)) :
    c = (mapOf w k).length := by
  have hi := C11_full_invariant d hr hw (by rw [hv]; decide)
  simp only [qStage, Variant.isList, hv, ht, beq_self_eq_true, Bool.not_true, Bool.false_eq_true, Bool.or_self, if_false,
    Option.map_eq_some_iff, Prod.mk.injEq] at h
  obtain ⟨st', _, _, rfl⟩ := h
  simp only [mapOf, ht, if_true]
  cases hg : w.smembers[k]? with
  | none => simp
  | some g =>
    simp only [Option.map_some, Option.getD_some]
    exact (hi.stages_ok g (List.mem_of_getElem? hg)).2

/-- "never exceeds the member limit, and the limit never exceeds the contract maximum" -/
theorem C11_full_capacity (d : Denom) {s : State} (hr : Reach11 d s) {w : Wl} (hw : s.wl = some w) (hv : w.v.store = .list) :
    w.numMembers ≤ w.memberLimit ∧ w.memberLimit ≤ w.v.kind11.maxMembers :=
  (C11_full_invariant d hr hw (by rw [hv]; decide)).capacity (kind11_list hv).2.2.1

/-- "fees ever paid = 100 STARS per started thousand of the current member limit" -/
theorem C11_full_fee_identity (d : Denom) {s : State} (hr : Reach11 d s) {w : Wl} (hw : s.wl = some w) (hv : w.v.store = .list) :
    w.g.feesPaid = (w.memberLimit + 999) / 1000 * 100000000 := by
  have hi := C11_full_invariant d hr hw (by rw [hv]; decide)
  have hf := hi.fees
  simp only [proj11] at hf
  rw [hf, C11_price _ (kind11_list hv).2.2.1]; rfl

/-- "every fee is burned / forwarded in full": the contract's REAL bank balances (native and any other denom `d`) are exactly
what callers attached to messages that charge nothing, and everything ever paid as a fee was burned or sent to the pool -/
theorem C11_full_balance (d : Denom) {s : State} (hr : Reach11 d s) {w : Wl} (hw : s.wl = some w) (hv : w.v.store ≠ .merkle) :
    s.bank.bal w.self NATIVE = w.g.stray NATIVE ∧ s.bank.bal w.self d = w.g.stray d ∧
    w.g.burned + w.g.pooled = w.g.feesPaid := by
  have hi := C11_full_invariant d hr hw hv
  exact ⟨hi.bal, hi.other, hi.burnt⟩

/-- the whitelist-immutable contract is free: it never holds a fee -/
theorem C11_full_fee_immutable (d : Denom) {s : State} (hr : Reach11 d s) {w : Wl} (hw : s.wl = some w)
    (hv : w.v.store = .immutable) : w.g.feesPaid = 0 := by
  have hi := C11_full_invariant d hr hw (by rw [hv]; decide)
  have hf := hi.fees
  simp only [proj11, kind11_immutable hv, WlMembers.Kind.price, Nat.mul_zero] at hf
  exact hf

namespace WF

theorem mapOf_eq (d : Denom) (b : Bank) (w : Wl) (hv : w.v.store = .list) (i : Nat) :
    WlMembers.mapOf (proj11 d b w) i = mapOf w i := by
  simp only [WlMembers.mapOf, mapOf, proj11, (kind11_list hv).1]
  split
  · cases w.smembers[i]? <;> rfl
  · rfl

theorem qHasMember_eq (d : Denom) (b : Bank) (w : Wl) (hv : w.v.store = .list) (now : Nat) (a : Addr) :
    qHasMember w now a = WlMembers.queryHasMember (proj11 d b w) (activeIdx w now) a := by
  obtain ⟨hkt, _, _, hk⟩ := kind11_list hv
  have hk' : ((proj11 d b w).kind == WlMembers.Kind.immutable) = false := hk
  simp only [qHasMember, WlMembers.queryHasMember, Variant.isList, hv, beq_self_eq_true, Bool.not_true, Bool.false_eq_true,
    if_false, hk', validAddr]
  by_cases hva : WlMembers.validAddr a = true
  · simp only [hva, Bool.not_true, Bool.false_eq_true, if_false]
    have : (proj11 d b w).kind.isTiered = w.v.tiered := hkt
    rw [this]
    by_cases ht : w.v.tiered = true
    · simp only [ht, if_true]
      cases activeIdx w now with
      | none => rfl
      | some i => simp only [mapOf_eq d b w hv]
    · simp only [ht, Bool.false_eq_true, if_false]; rfl
  · simp [hva]

theorem qMember_eq (d : Denom) (b : Bank) (w : Wl) (hv : w.v.store = .list) (now : Nat) (a : Addr) :
    qMember w now a = WlMembers.queryMember (proj11 d b w) (activeIdx w now) a := by
  obtain ⟨hkt, hkf, _, _⟩ := kind11_list hv
  have h1 : (proj11 d b w).kind.isTiered = w.v.tiered := hkt
  have h2 : (proj11 d b w).kind.isFlex = w.v.flex := hkf
  simp only [qMember, WlMembers.queryMember, Variant.isList, hv, beq_self_eq_true, Bool.not_true, Bool.false_or, h1, h2, validAddr]
  split
  · rfl
  · by_cases ht : w.v.tiered = true
    · simp only [ht, if_true]
      cases activeIdx w now with
      | none => rfl
      | some i => simp only [mapOf_eq d b w hv]
    · simp only [ht, Bool.false_eq_true, if_false]; rfl

theorem qMembers_eq (d : Denom) (b : Bank) (w : Wl) (hv : w.v.store = .list) (stage : Nat) (after : Option Addr)
    (limit : Option Nat) :
    qMembers w stage after limit = WlMembers.queryMembers (proj11 d b w) stage after limit := by
  simp only [qMembers, WlMembers.queryMembers, Variant.isList, hv, beq_self_eq_true, Bool.not_true, Bool.false_eq_true,
    if_false, mapOf_eq d b w hv, validAddr]
  rfl

end WF

/-- "membership queries answer true exactly for stored members" — `HasMember` of the single-stage list kinds -/
theorem C11_full_has_member_iff_flat {w : Wl} (hv : w.v.store = .list) (ht : w.v.tiered = false) (now : Nat) (a : Addr) (b : Bool)
    (h : qHasMember w now a = some b) : (b = true ↔ a ∈ WlMembers.keys w.members) := by
  rw [qHasMember_eq 1 emptyBank w hv] at h
  exact C11_has_member_iff_flat _ _ a (by rw [← ht]; exact (kind11_list hv).1) b h

/-- `HasMember` of the tiered list kinds: `true` iff a stage is active (the composite computes which) and the address is
stored under it -/
theorem C11_full_has_member_iff_tiered {w : Wl} (hv : w.v.store = .list) (ht : w.v.tiered = true) (now : Nat) (a : Addr) (b : Bool)
    (h : qHasMember w now a = some b) :
    (b = true ↔ ∃ i, activeIdx w now = some i ∧ a ∈ WlMembers.keys (mapOf w i)) := by
  rw [qHasMember_eq 1 emptyBank w hv] at h
  have := C11_has_member_iff_tiered _ _ a (by rw [← ht]; exact (kind11_list hv).1) b h
  simp only [mapOf_eq 1 emptyBank w hv] at this
  exact this

/-- `IncludesAddress` of whitelist-immutable -/
theorem C11_full_includes_address_iff {w : Wl} (hv : w.v.store = .immutable) (a : Addr) (b : Bool)
    (h : qIncludesAddress w a = some b) : (b = true ↔ a ∈ WlMembers.keys w.members) := by
  simp only [qIncludesAddress, Variant.isImmutable, hv, beq_self_eq_true, if_true, Option.some.injEq] at h
  subst h; exact WlMembers.hasM_iff a w.members

/-- flex kinds: `Member {a}` answers `c` iff `(a, c)` is stored in the map the query reads (the only map / the active stage's) -/
theorem C11_full_member_query_iff (d : Denom) {s : State} (hr : Reach11 d s) {w : Wl} (hw : s.wl = some w)
    (hv : w.v.store = .list) (hf : w.v.flex = true) (now : Nat) (a c : Addr) (hva : validAddr a = true) :
    qMember w now a = some c ↔
      (if w.v.tiered then ∃ i, activeIdx w now = some i ∧ (a, c) ∈ mapOf w i else (a, c) ∈ w.members) := by
  have hi := C11_full_invariant d hr hw (by rw [hv]; decide)
  simp only [qMember, Variant.isList, hv, hf, beq_self_eq_true, Bool.not_true, hva, Bool.or_self, Bool.false_eq_true, if_false]
  by_cases ht : w.v.tiered = true
  · simp only [ht, if_true]
    cases hact : activeIdx w now with
    | none => simp
    | some i =>
      simp only [Option.some.injEq, exists_eq_left']
      have hs := WlMembers.sorted_mapOf hi i
      rw [mapOf_eq d s.bank w hv] at hs
      exact WlMembers.getM_eq_some_iff hs a c
  · simp only [ht, Bool.false_eq_true, if_false]
    exact WlMembers.getM_eq_some_iff hi.flat_sorted a c

/-- one page of `Members` shows only stored entries, at most the page limit -/
theorem C11_full_members_page_sound {w : Wl} (hv : w.v.store = .list) (stage : Nat) (after : Option Addr) (limit : Option Nat)
    (l : List Member) (h : qMembers w stage after limit = some l) :
    (∀ x ∈ l, x ∈ mapOf w stage) ∧ l.length ≤ w.v.kind11.pageMax ∧ (limit = none → l.length ≤ w.v.kind11.pageDefault) := by
  rw [qMembers_eq 1 emptyBank w hv] at h
  have := C11_members_page_sound _ stage after limit l h
  simp only [mapOf_eq 1 emptyBank w hv] at this
  exact this


/-! ### what an accepted message does (list kinds) -/

namespace WF
/-- an accepted composite message in a reachable state is an accepted C11 op of a C11 run -/
theorem accepted_exec11 (d : Denom) (hd : d ≠ NATIVE) {s s' : State} (hr : Reach11 d s) {w : Wl} (hw : s.wl = some w)
    (hv : w.v.store = .list) {sender : Addr} {funds : List Coin} {m : ExecMsg} (hs : sender ≠ w.self)
    (h : step s (.exec sender funds m) = .ok s') :
    ∃ w' M s0 aops, s'.wl = some w' ∧ w'.v = w.v ∧ WlMembers.instantiate w.v.kind11 M = .ok s0 ∧
      proj11 d s.bank w = WlMembers.run s0 aops ∧
      WlMembers.exec (WlMembers.run s0 aops) (tr11 d s w sender funds m) = .ok (proj11 d s'.bank w') := by
  obtain ⟨hp, hal, M, s0, aops, hi, hproj⟩ := hr w hw (by rw [hv]; decide)
  obtain ⟨w', hw', _, hvv, hex⟩ := (exec_sim11 d hd hw hv hal sender funds m hs hp).1 s' h
  exact ⟨w', M, s0, aops, hw', hvv, hi, hproj, by rw [← hproj]; exact hex⟩
end WF

/-- "adding an existing member is skipped or rejected but never double-counted": after an accepted `AddMembers` exactly the old
and the listed addresses are stored in the targeted map, the counter grew by exactly the number of new entries, stored values
are kept, and whitelist-flex accepted only if no listed address was stored before or listed twice -/
theorem C11_full_add_exact (d : Denom) (hd : d ≠ NATIVE) {s s' : State} (hr : Reach11 d s) {w : Wl} (hw : s.wl = some w)
    (hv : w.v.store = .list) {sender : Addr} {funds : List Coin} {stage : Nat} {ms : List Member} (hs : sender ≠ w.self)
    (h : step s (.exec sender funds (.addMembers stage ms)) = .ok s') :
    ∃ w', s'.wl = some w' ∧
      (∀ a, a ∈ WlMembers.keys (mapOf w' stage) ↔ a ∈ WlMembers.keys (mapOf w stage) ∨ a ∈ WlMembers.keys ms) ∧
      w'.numMembers + (mapOf w stage).length = w.numMembers + (mapOf w' stage).length ∧
      (∀ a ∈ WlMembers.keys (mapOf w stage), WlMembers.getM a (mapOf w' stage) = WlMembers.getM a (mapOf w stage)) ∧
      (w.v.kind11 = .flex → (∀ a ∈ WlMembers.keys ms, a ∉ WlMembers.keys (mapOf w stage)) ∧ (WlMembers.keys ms).Nodup) := by
  obtain ⟨w', M, s0, aops, hw', hvv, hi, hproj, hex⟩ := accepted_exec11 d hd hr hw hv hs h
  have e := C11_add_exact hi aops _ _ _ _ _ _ hex
  simp only [← hproj, mapOf_eq d _ w hv, mapOf_eq d _ w' (by rw [hvv]; exact hv)] at e
  exact ⟨w', hw', e⟩

/-- "removing requires existing members": an accepted `RemoveMembers` names only stored members, each once; they are gone
afterwards, everything else stays, the count drops by exactly their number -/
theorem C11_full_remove_requires_member (d : Denom) (hd : d ≠ NATIVE) {s s' : State} (hr : Reach11 d s) {w : Wl}
    (hw : s.wl = some w) (hv : w.v.store = .list) {sender : Addr} {funds : List Coin} {stage : Nat} {as : List Addr}
    (hs : sender ≠ w.self) (h : step s (.exec sender funds (.removeMembers stage as)) = .ok s') :
    ∃ w', s'.wl = some w' ∧ (∀ a ∈ as, a ∈ WlMembers.keys (mapOf w stage)) ∧ as.Nodup ∧
      (∀ x, x ∈ WlMembers.keys (mapOf w' stage) ↔ x ∈ WlMembers.keys (mapOf w stage) ∧ x ∉ as) ∧
      w'.numMembers + as.length = w.numMembers := by
  obtain ⟨w', M, s0, aops, hw', hvv, hi, hproj, hex⟩ := accepted_exec11 d hd hr hw hv hs h
  have e := C11_remove_requires_member hi aops _ _ _ _ _ hex
  simp only [← hproj, mapOf_eq d _ w hv, mapOf_eq d _ w' (by rw [hvv]; exact hv)] at e
  exact ⟨w', hw', e⟩

/-- `AddStage`: exactly one stage is appended; it stores exactly the listed addresses (each once), reports their number as its
`member_count`, `num_members` grows by that number; the earlier stages are untouched -/
theorem C11_full_add_stage_exact (d : Denom) (hd : d ≠ NATIVE) {s s' : State} (hr : Reach11 d s) {w : Wl}
    (hw : s.wl = some w) (hv : w.v.store = .list) {sender : Addr} {funds : List Coin} {st : Stage} {ms : List Member}
    (hs : sender ≠ w.self) (h : step s (.exec sender funds (.addStage st ms)) = .ok s') :
    ∃ w' g, s'.wl = some w' ∧ w'.members = w.members ∧ w'.smembers = w.smembers ++ [g] ∧
      (∀ a, a ∈ WlMembers.keys g.members ↔ a ∈ WlMembers.keys ms) ∧ (WlMembers.keys g.members).Nodup ∧
      g.count = g.members.length ∧ w'.numMembers = w.numMembers + g.members.length := by
  obtain ⟨w', M, s0, aops, hw', hvv, hi, hproj, hex⟩ := accepted_exec11 d hd hr hw hv hs h
  have e := C11_add_stage_exact hi aops _ _ _ _ _ hex
  simp only [← hproj] at e
  obtain ⟨e1, g, e2, e3, e4, e5, e6⟩ := e
  exact ⟨w', g, hw', e1, e2, e3, e4, e5, e6⟩

/-- `RemoveStage {k}`: stage `k` and all later stages disappear with everything stored under them; `num_members` drops by
exactly the number of entries stored there -/
theorem C11_full_remove_stage_exact (d : Denom) (hd : d ≠ NATIVE) {s s' : State} (hr : Reach11 d s) {w : Wl}
    (hw : s.wl = some w) (hv : w.v.store = .list) {sender : Addr} {funds : List Coin} {id : Nat}
    (hs : sender ≠ w.self) (h : step s (.exec sender funds (.removeStage id)) = .ok s') :
    ∃ w', s'.wl = some w' ∧ id < w.smembers.length ∧ w'.members = w.members ∧ w'.smembers = w.smembers.take id ∧
      w'.numMembers + ((w.smembers.drop id).map (fun g => g.members.length)).sum = w.numMembers := by
  obtain ⟨w', M, s0, aops, hw', hvv, hi, hproj, hex⟩ := accepted_exec11 d hd hr hw hv hs h
  have e := C11_remove_stage_exact _ _ _ _ _ hex
  simp only [← hproj] at e
  exact ⟨w', hw', e⟩

/-- "each fee must be paid exactly" — `IncreaseMemberLimit`: the attached funds are exactly the difference of the tier prices as
one native coin (nothing when no thousand boundary is crossed); the new limit is strictly larger and at most the maximum -/
theorem C11_full_fee_exact_increase (d : Denom) (hd : d ≠ NATIVE) {s s' : State} (hr : Reach11 d s) {w : Wl}
    (hw : s.wl = some w) (hv : w.v.store = .list) {sender : Addr} {funds : List Coin} {limit : Nat}
    (hs : sender ≠ w.self) (h : step s (.exec sender funds (.increaseMemberLimit limit)) = .ok s') :
    ∃ w', s'.wl = some w' ∧
      (let fee := ((limit + 999) / 1000 - (w.memberLimit + 999) / 1000) * 100000000
       w.memberLimit < limit ∧ limit ≤ w.v.kind11.maxMembers ∧ w'.memberLimit = limit ∧
       ((funds = [] ∧ fee = 0) ∨ funds = [⟨NATIVE, fee⟩]) ∧ w'.g.feesPaid = w.g.feesPaid + fee) := by
  obtain ⟨w', M, s0, aops, hw', hvv, hi, hproj, hex⟩ := accepted_exec11 d hd hr hw hv hs h
  rw [← hproj] at hex
  have e := C11_fee_exact_increase _ _ _ _ _ (kind11_list hv).2.2.1 hex
  exact ⟨w', hw', e⟩

/-- "each fee must be paid exactly" — creation of a list whitelist: exactly one native coin of 100 STARS × started thousands -/
theorem C11_full_fee_exact_instantiate (d : Denom) (hd : d ≠ NATIVE) {s s' : State} {v : Variant} (hv : v.store = .list)
    {sender self : Addr} {funds : List Coin} {m : InstMsg} (hs : sender ≠ self) (hp : self ≠ FAIRBURN_POOL)
    (hfresh : ∀ d, s.bank.bal self d = 0) (h : step s (.instantiate v sender funds self m) = .ok s') :
    funds = [⟨NATIVE, (m.memberLimit + 999) / 1000 * 100000000⟩] := by
  obtain ⟨w, _, _, _, _, hex⟩ := inst_sim11_list d hd hv hs hp hfresh h
  exact C11_fee_exact_instantiate (kind11_list hv).2.2.1 hex

/-- the member limit never decreases (one step; any op but a re-instantiate, which creates another contract) -/
theorem C11_full_limit_monotone_step (d : Denom) (hd : d ≠ NATIVE) {s : State} (hr : Reach11 d s) {w : Wl} (hw : s.wl = some w)
    (hv : w.v.store ≠ .merkle) (op : Op) (hc : Clean s op)
    (hni : ∀ v sender funds self m, op ≠ .instantiate v sender funds self m) :
    ∃ w', (WF.step' s op).wl = some w' ∧ w.memberLimit ≤ w'.memberLimit := by
  obtain ⟨hp, hal, _⟩ := hr w hw hv
  obtain ⟨w', hw', _, _, _, hsim⟩ := step_sim11 d hd hw hv hp hal op hc hni
  refine ⟨w', hw', ?_⟩
  have := (C11_step_frame (proj11 d s.bank w) (tr11op d s w op)).2.1
  rw [← hsim] at this
  exact this

/-- "… so a whitelist never holds funds" — PARTIAL, as for the aspect model (the literal statement is false on the code: no
handler calls `nonpayable`; `C11_holds_funds_counterexample`, known finding `*/holds-funds-nonfee`): in every reachable state
the contract's real balances are exactly the stray funds, so it holds nothing when nobody ever attached funds to a fee-less
message -/
theorem C11_full_holds_nothing_partial (d : Denom) {s : State} (hr : Reach11 d s) {w : Wl} (hw : s.wl = some w)
    (hv : w.v.store ≠ .merkle) (hz : w.g.stray NATIVE = 0 ∧ w.g.stray d = 0) :
    s.bank.bal w.self NATIVE = 0 ∧ s.bank.bal w.self d = 0 := by
  have b := C11_full_balance d hr hw hv
  exact ⟨by rw [b.1]; exact hz.1, by rw [b.2.1]; exact hz.2⟩


/-! ## C12 — schedules of the single-stage kinds (whitelist, whitelist-flex, whitelist-merkletree) -/

namespace WF

/-- the C12 invariant of every observed single-stage contract: `genesis ≤ start ≤ end` -/
def Inv12 (s : State) : Prop := ∀ w, s.wl = some w → Flat w.v → WlSInv (proj12 s.now w)

theorem inv12_step {s : State} (h : Inv12 s) (op : Op) : Inv12 (step' s op) := by
  by_cases hinst : ∃ v sender funds self m, op = .instantiate v sender funds self m
  · obtain ⟨v, sender, funds, self, m, rfl⟩ := hinst
    rcases step'_cases s (.instantiate v sender funds self m) with ⟨s', hok, hs'⟩ | ⟨_, hs'⟩
    · rw [hs']
      intro w hw hf
      have hvw : w.v = v := by
        have hok' := hok
        simp only [step] at hok'
        obtain ⟨b1, w0, msgs, b2, _, hi, _, rfl⟩ := instantiateTx_ok hok'
        simp only [Option.some.injEq] at hw; subst hw
        exact (instantiateWl_v hi).1
      obtain ⟨w1, hw1, _, hex⟩ := inst_sim12 (by rw [← hvw]; exact hf) hok
      rw [hw] at hw1; cases hw1
      exact (C12_instantiate_wellformed _ _ _ _ _ hex).1
    · rw [hs']; exact h
  · have hni : ∀ v sender funds self m, op ≠ .instantiate v sender funds self m :=
      fun v sender funds self m e => hinst ⟨v, sender, funds, self, m, e⟩
    obtain ⟨hnone, hsome⟩ := step'_wl s op hni
    intro w hw hf
    cases hw0 : s.wl with
    | none => rw [hnone hw0] at hw; cases hw
    | some w0 =>
      obtain ⟨w', hw', hv', _⟩ := hsome w0 hw0
      rw [hw] at hw'; cases hw'
      have hf0 : Flat w0.v := by rw [← hv']; exact hf
      obtain ⟨w1, hw1, _, hsim⟩ := step_sim12 hw0 hf0 op hni
      rw [hw] at hw1; cases hw1
      rw [hsim]
      exact C12_step'_wellformed _ _ _ (h w0 hw0 hf0)

/-- op translation along a run (the witnesses are computed in the state each op executes in) -/
def trRun12 : State → List Op → List WlSchedule.Op
  | _, [] => []
  | s, op :: ops => (match s.wl with | some w => tr12 s w op | none => .env false) :: trRun12 (step' s op) ops

def NoInst (ops : List Op) : Prop := ∀ op ∈ ops, ∀ v sender funds self m, op ≠ .instantiate v sender funds self m

/-- **run-level simulation for C12** -/
theorem run_sim12 (ops : List Op) : ∀ {s : State} {w : Wl}, s.wl = some w → Flat w.v → NoInst ops →
    ∃ w', (run s ops).wl = some w' ∧ w'.v = w.v ∧
      proj12 (run s ops).now w' = WlSchedule.run (kind12 w.v) (proj12 s.now w) (trRun12 s ops) := by
  induction ops with
  | nil => intro s w hw _ _; exact ⟨w, hw, rfl, rfl⟩
  | cons op ops ih =>
    intro s w hw hf hni
    obtain ⟨w1, hw1, hv1, hsim⟩ := step_sim12 hw hf op (hni op List.mem_cons_self)
    obtain ⟨w2, hw2, hv2, hrun⟩ := ih hw1 (by rw [hv1]; exact hf) (fun o ho => hni o (List.mem_cons_of_mem _ ho))
    refine ⟨w2, by rw [run_cons]; exact hw2, by rw [hv2, hv1], ?_⟩
    rw [run_cons, hrun, hv1, hsim]
    simp only [trRun12, hw, WlSchedule.run, List.foldl_cons]

/-- the block time after an op when it was `n` before -/
def opTimeC (n : Nat) : Op → Nat
  | .setTime t => t
  | _ => n

/-- the clock never goes backwards along `ops`, starting from time `n` -/
def ClockMono : Nat → List Op → Prop
  | _, [] => True
  | n, op :: ops => n ≤ opTimeC n op ∧ ClockMono (opTimeC n op) ops

theorem opTime_tr12 (n : Nat) (s : State) (w : Wl) (op : Op) : WlSchedule.opTime n (tr12 s w op) = opTimeC n op := by
  cases op with
  | setTime t => rfl
  | fund a c => rfl
  | instantiate v sender funds self m => rfl
  | exec sender funds m =>
    show WlSchedule.opTime n (tr12 s w (.exec sender funds m)) = n
    simp only [tr12]
    split
    · rfl
    · cases m <;> first | rfl | (simp only []; split <;> rfl)

theorem clockMono_tr (ops : List Op) : ∀ (s : State) (w : Wl), s.wl = some w → NoInst ops →
    ClockMono s.now ops → WlSchedule.TimeMonotone s.now (trRun12 s ops) := by
  induction ops with
  | nil => intro _ _ _ _ _; trivial
  | cons op ops ih =>
    intro s w hw hni hc
    obtain ⟨_, hsome⟩ := step'_wl s op (hni op List.mem_cons_self)
    obtain ⟨w1, hw1, _, _⟩ := hsome w hw
    simp only [trRun12, hw, WlSchedule.TimeMonotone, opTime_tr12]
    refine ⟨hc.1, ?_⟩
    have hnow : (step' s op).now = opTimeC s.now op := by
      rw [step'_now]; cases op <;> rfl
    rw [← hnow]
    exact ih _ w1 hw1 (fun o ho => hni o (List.mem_cons_of_mem _ ho)) (by rw [hnow]; exact hc.2)

end WF

/-- **C12 refinement**: for every observed single-stage whitelist, every op list without a re-instantiate, the composite run
projects onto the C12 aspect run of the translated ops -/
theorem C12_full_refines (ops : List Op) {s : State} {w : Wl} (hw : s.wl = some w) (hf : Flat w.v) (hni : NoInst ops) :
    ∃ w', (WF.run s ops).wl = some w' ∧ w'.v = w.v ∧
      proj12 (WF.run s ops).now w' = WlSchedule.run (kind12 w.v) (proj12 s.now w) (trRun12 s ops) :=
  run_sim12 ops hw hf hni

/-- a successful composite instantiate of a single-stage kind is a successful C12 instantiate; hence "it is created only with a
start in the future", `genesis ≤ start ≤ end` -/
theorem C12_full_created_future {s s' : State} {v : Variant} (hf : Flat v) {sender self : Addr} {funds : List Coin} {m : InstMsg}
    (h : WF.step s (.instantiate v sender funds self m) = .ok s') :
    ∃ w, s'.wl = some w ∧ w.start = m.start ∧ w.end_ = m.end_ ∧
      s.now < w.start ∧ WlSchedule.GENESIS ≤ w.start ∧ w.start ≤ w.end_ := by
  obtain ⟨w, hw, _, hex⟩ := inst_sim12 hf h
  obtain ⟨⟨_, g1, g2, g3⟩, hst⟩ := (C12_instantiate_iff _ _ _ _ _).1 hex
  have g1 : m.start ≤ m.end_ := g1
  have g2 : s.now < m.start := g2
  have g3 : WlSchedule.GENESIS ≤ m.start := g3
  have h1 : w.start = m.start := congrArg WlSchedule.State.start hst
  have h2 : w.end_ = m.end_ := congrArg WlSchedule.State.end_ hst
  exact ⟨w, hw, h1, h2, by omega, by omega, by omega⟩

/-- "A whitelist's start time is never after its end time and never before the genesis mint time": in every state of every
composite run (any instantiates, any messages by anyone, any clock) from a state where it holds — e.g. a fresh chain -/
theorem C12_full_wellformed (s : State) (h : Inv12 s) (ops : List Op) : Inv12 (WF.run s ops) := by
  induction ops generalizing s with
  | nil => exact h
  | cons op ops ih => rw [WF.run_cons]; exact ih _ (inv12_step h op)

theorem C12_full_wellformed_init (now : Nat) (ops : List Op) {w : Wl} (hw : (WF.run (WF.init now) ops).wl = some w)
    (hf : Flat w.v) : WlSchedule.GENESIS ≤ w.start ∧ w.start ≤ w.end_ :=
  C12_full_wellformed _ (fun w hw => by cases hw) ops w hw hf

/-- "Once a whitelist has started its start time cannot change, its end time can only be brought forward (never extended,
never before the start)": from any started single-stage contract, along every continuation whose clock does not run backwards -/
theorem C12_full_started_frozen (ops : List Op) {s : State} {w : Wl} (hw : s.wl = some w) (hf : Flat w.v)
    (hi : WlSchedule.GENESIS ≤ w.start ∧ w.start ≤ w.end_) (hst : w.start ≤ s.now) (hni : NoInst ops)
    (hm : ClockMono s.now ops) :
    ∃ w', (WF.run s ops).wl = some w' ∧ w'.start = w.start ∧ w'.end_ ≤ w.end_ ∧ w.start ≤ w'.end_ ∧
      w'.start ≤ (WF.run s ops).now := by
  obtain ⟨w', hw', _, hsim⟩ := run_sim12 ops hw hf hni
  have := C12_started_frozen (kind12 w.v) (trRun12 s ops) (proj12 s.now w) hi hst (clockMono_tr ops s w hw hni hm)
  rw [← hsim] at this
  exact ⟨w', hw', this.1, this.2.1, this.2.2.1, this.2.2.2⟩

/-- "… and members can no longer be removed": an accepted `RemoveMembers` on a single-stage list whitelist happens strictly
before its start (proved on the composite directly; with `C12_full_started_frozen`: never again once started) -/
theorem C12_full_remove_before_start {s s' : State} {w : Wl} (hw : s.wl = some w) (hf : Flat w.v) {sender : Addr}
    {funds : List Coin} {stage : Nat} {as : List Addr}
    (h : WF.step s (.exec sender funds (.removeMembers stage as)) = .ok s') : s.now < w.start := by
  simp only [WF.step] at h
  obtain ⟨w0, b1, w1, msgs, b2, hw0, _, hh, _, _⟩ := execute_ok h
  rw [hw] at hw0; cases hw0
  unfold handle at hh
  split at hh; · cases hh
  simp only [] at hh
  split at hh
  · rename_i w2 hr
    unfold removeMembers at hr
    split at hr; · cases hr
    have : startOf w stage = some w.start := by simp [startOf, hf.1]
    rw [this] at hr
    simp only [] at hr
    split at hr; · cases hr
    rename_i hlt; omega
  · cases hh

/-- "active exactly when start ≤ now < end, started when now ≥ start, ended when now ≥ end, and the config query reports the
same activity" — the composite's four query functions -/
theorem C12_full_flags {w : Wl} (hf : Flat w.v) (now : Nat) :
    (qIsActive w now = some true ↔ w.start ≤ now ∧ now < w.end_) ∧
    (qHasStarted w now = some true ↔ now ≥ w.start) ∧
    (qHasEnded w now = some true ↔ now ≥ w.end_) ∧
    (∀ c, qConfig w now = some c → some c.active = qIsActive w now) := by
  obtain ⟨ht, hi⟩ := hf
  have him : w.v.isImmutable = false := by
    simp only [Variant.isImmutable]; cases hs : w.v.store <;> simp_all
  have hfl := C12_flags (proj12 now w)
  refine ⟨?_, ?_, ?_, ?_⟩
  · simp only [qIsActive, him, ht, Bool.false_eq_true, if_false, Option.some.injEq]; exact hfl.1
  · simp only [qHasStarted, him, ht, Bool.false_eq_true, if_false, Option.some.injEq]; exact hfl.2.1
  · simp only [qHasEnded, him, ht, Bool.false_eq_true, if_false, Option.some.injEq]; exact hfl.2.2.1
  · intro c hc
    simp only [qConfig, him, ht, Bool.false_eq_true, if_false, Option.some.injEq] at hc
    subst hc
    simp only [qIsActive, him, ht, Bool.false_eq_true, if_false]


/-! ## Non-vacuity: a concrete single-stage list history (kernel-evaluated) -/

def exG11 : Nat := Gen.sg_utils_GENESIS_MINT_START_TIME

def exMsgPlain : InstMsg :=
  { admins := [10], adminsMutable := true, start := exG11 + 100, end_ := exG11 + 200, mintPrice := ⟨0, 5⟩, perAddr := 2,
    memberLimit := 999, whaleCap := none, members := [(21, 0), (20, 0), (21, 0)], stages := [], stageMembers := [], roots := [],
    uriOk := true, uris := none, discountBps := none }

def exOps11 : List Op :=
  [.fund 10 ⟨0, 1000000000⟩, .fund 10 ⟨1, 50⟩,
   .instantiate Variant.plain 10 [⟨0, 100000000⟩] 1000 exMsgPlain,
   .exec 10 [⟨0, 5⟩, ⟨1, 7⟩] (.addMembers 0 [(22, 0), (20, 0)]),
   .exec 30 [] (.addMembers 0 [(23, 0)]),
   .exec 30 [⟨0, 100000000⟩] (.increaseMemberLimit 1001),
   .exec 10 [⟨0, 100000000⟩] (.increaseMemberLimit 1001),
   .exec 10 [] (.updateStartTime (exG11 + 150)),
   .setTime (exG11 + 150),
   .exec 10 [] (.removeMembers 0 [20]),
   .exec 10 [] (.updateEndTime (exG11 + 160)),
   .exec 10 [] (.updateEndTime (exG11 + 170))]

/-- duplicates deduplicated at instantiate, an existing member skipped by `AddMembers`, a stranger refused (and too poor to raise
the limit), the limit raised across a thousand boundary for exactly 100 STARS, the start moved, after the start no removal and the
end only brought forward; the 5 ustars + 7 of another denom attached to `AddMembers` stay in the contract (known finding), every
fee left it -/
example : ((run (init exG11) exOps11).wl.map fun w =>
      (w.numMembers, w.members, w.memberLimit, w.start - exG11, w.end_ - exG11, w.g.feesPaid, w.g.burned + w.g.pooled,
       (run (init exG11) exOps11).bank.bal w.self 0, (run (init exG11) exOps11).bank.bal w.self 1)) =
    some (3, [(20, 0), (21, 0), (22, 0)], 1001, 150, 160, 200000000, 200000000, 5, 7) := by rfl

/-- the first instantiate-and-add prefix of that history is a clean run (hypothesis of `C11_full_refines`) -/
example : CleanRun (init exG11) (exOps11.take 4) := by
  simp only [exOps11, List.take, CleanRun, Clean]
  refine ⟨fun w h => (by cases h), fun w h => (by cases h), ⟨(by decide), (by decide), fun d => ?_⟩, ?_, trivial⟩
  · simp [step', step, init, emptyBank, MintPay.Bank.fund, MintPay.Bank.credit]
  · intro w hw
    have : (step' (step' (step' (init exG11) (.fund 10 ⟨0, 1000000000⟩)) (.fund 10 ⟨1, 50⟩))
        (.instantiate Variant.plain 10 [⟨0, 100000000⟩] 1000 exMsgPlain)).wl.map (·.self) = some 1000 := by rfl
    rw [hw] at this
    simp at this
    rw [this]; decide

example : Flat Variant.plain ∧ Flat Variant.flexV ∧ Flat Variant.merkle :=
  ⟨⟨rfl, by decide⟩, ⟨rfl, by decide⟩, ⟨rfl, by decide⟩⟩

/-- hypotheses of `C12_full_started_frozen` on that history: after the clock reached the start, the schedule is well-formed and
started, and the rest of the history has no re-instantiate and a monotone clock -/
example : ∃ w, (run (init exG11) (exOps11.take 9)).wl = some w ∧ Flat w.v ∧
    (WlSchedule.GENESIS ≤ w.start ∧ w.start ≤ w.end_) ∧ w.start ≤ (run (init exG11) (exOps11.take 9)).now ∧
    NoInst (exOps11.drop 9) ∧ ClockMono (run (init exG11) (exOps11.take 9)).now (exOps11.drop 9) := by
  have hI := C12_full_wellformed (init exG11) (fun w hw => (by cases hw)) (exOps11.take 9)
  cases hw : (run (init exG11) (exOps11.take 9)).wl with
  | none =>
    have : ((run (init exG11) (exOps11.take 9)).wl.map fun w => w.numMembers) = some 3 := by rfl
    rw [hw] at this; cases this
  | some w =>
    have hv : ((run (init exG11) (exOps11.take 9)).wl.map fun w => (w.v == Variant.plain, w.start)) = some (true, exG11 + 150) := by rfl
    rw [hw] at hv
    simp only [Option.map_some, Option.some.injEq, Prod.mk.injEq, beq_iff_eq] at hv
    have hf : Flat w.v := by rw [hv.1]; exact ⟨rfl, by decide⟩
    have hnow : (run (init exG11) (exOps11.take 9)).now = exG11 + 150 := by rfl
    refine ⟨w, rfl, hf, hI w hw hf, by rw [hnow, hv.2]; exact Nat.le_refl _, ?_, ?_⟩
    · intro op hop
      simp only [exOps11, List.drop, List.mem_cons, List.not_mem_nil, or_false] at hop
      rcases hop with rfl | rfl | rfl <;> (intro v sender funds self m h; cases h)
    · rw [hnow]
      simp [exOps11, ClockMono, opTimeC]

end LP
