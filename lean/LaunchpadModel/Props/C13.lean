import LaunchpadModel.Lemmas.Tiered
/-!
# C13 — Tiered whitelist stages never overlap and membership is stage-scoped

Model: `LP.Tiered` (`Model/Tiered.lean`), one model for the plain, flex and Merkle tiered whitelists, selected
by `Variant`. Every theorem below is for ALL variants `v`, ALL operation histories `ops : List Op` (arbitrary
senders, arguments and — not even monotone — block times), ALL stage windows and ALL instants, unless it names
a variant. `run v none ops` starts from "no contract" (the first successful `inst` creates it).

Helper lemmas (the state invariant `SInv` and its preservation by each message) are in `Lemmas/Tiered.lean`.
-/
namespace LP
open LP.Tiered

/-! ## Clause 1 — the chain -/

/-- "A tiered whitelist (plain, flex or Merkle) … never has more than three [stages], each with start before
end and ordered so that a stage never starts before the previous one ends" — after EVERY history. -/
theorem C13_chain (v : Variant) (ops : List Op) :
    match run v none ops with
    | none => True
    | some s =>
      s.stages.length ≤ 3 ∧ (∀ st ∈ s.stages, st.start < st.stop) ∧
        s.stages.Pairwise (fun a b => a.stop ≤ b.start) := by
  have h := run_inv (v := v) ops (w := none) trivial
  cases hr : run v none ops with
  | none => trivial
  | some s => rw [hr] at h; exact h.chain

/-- the same, index form: for stages `i < j` of any reachable state, `stages[i].end ≤ stages[j].start` -/
theorem C13_chain_index (v : Variant) (ops : List Op) (s : State) (hr : run v none ops = some s)
    (i j : Nat) (hij : i < j) (hj : j < s.stages.length) :
    s.stages[i].stop ≤ s.stages[j].start := by
  have h := C13_chain v ops
  rw [hr] at h
  exact (List.pairwise_iff_getElem.1 h.2.2) i j (Nat.lt_trans hij hj) hj hij

/-- the full inductive invariant (chain + every member entry belongs to an existing stage, keys unique,
`num_members` = number of entries) holds after every history -/
theorem C13_invariant (v : Variant) (ops : List Op) : WInv (run v none ops) :=
  run_inv (v := v) ops (w := none) trivial

/-- "is created with one to three stages" -/
theorem C13_created_one_to_three (v : Variant) (w : World) (now : Nat) (sender : Addr) (funds : List Coin)
    (limit : Nat) (whale : Option Nat) (admins : List Addr) (mutable : Bool) (stages : List Stage)
    (members : List (List (Addr × Nat))) (roots : List Nat) (uriBad : Bool) (s : State)
    (h : step v w (.inst now sender funds limit whale admins mutable stages members roots uriBad) = .ok (some s)) :
    1 ≤ s.stages.length ∧ s.stages.length ≤ 3 := by
  simp only [step, map_ok, Option.some.injEq] at h
  obtain ⟨s0, hs, rfl⟩ := h
  have := instantiate_inv hs
  exact ⟨this.2.1, this.1.chain.1⟩

/-! ## Clause 2 — the first stage starts in the future at create / add -/

theorem firstFuture_iff (now : Nat) (l : List Stage) :
    firstFuture now l = true ↔ ∃ s0 rest, l = s0 :: rest ∧ now < s0.start := by
  cases l with
  | nil => simp [firstFuture]
  | cons s0 rest => simp [firstFuture]

/-- "the first stage starts in the future whenever stages are created" -/
theorem C13_first_future_create (v : Variant) (w : World) (now : Nat) (sender : Addr) (funds : List Coin)
    (limit : Nat) (whale : Option Nat) (admins : List Addr) (mutable : Bool) (stages : List Stage)
    (members : List (List (Addr × Nat))) (roots : List Nat) (uriBad : Bool) (s : State)
    (h : step v w (.inst now sender funds limit whale admins mutable stages members roots uriBad) = .ok (some s)) :
    ∃ s0 rest, s.stages = s0 :: rest ∧ now < s0.start := by
  simp only [step, map_ok, Option.some.injEq] at h
  obtain ⟨s0, hs, rfl⟩ := h
  exact (firstFuture_iff now _).1 (instantiate_inv hs).2.2

/-- "… or added": a successful `AddStage` appends exactly the new stage, and the first stage of the resulting
list starts after the current block time (so nothing can be added once the first stage has started). -/
theorem C13_first_future_add (v : Variant) (ops : List Op) (s s' : State) (now : Nat) (sender : Addr) (st : Stage)
    (ms : List (Addr × Nat)) (hr : run v none ops = some s)
    (h : step v (some s) (.addStage now sender st ms) = .ok (some s')) :
    (∃ s0 rest, s'.stages = s0 :: rest ∧ now < s0.start) ∧ s'.stages = s.stages ++ [normStage v st] := by
  have hI : SInv s := by have := C13_invariant v ops; rw [hr] at this; exact this
  simp only [step, map_ok, Option.some.injEq] at h
  obtain ⟨s1, hs, rfl⟩ := h
  simp only [exec] at hs
  simp only [↓listBased_bind_ok] at hs
  have := addStage_spec hI hs.2
  exact ⟨(firstFuture_iff now _).1 this.2.1, this.2.2⟩

/-! ## Clause 3 — the active stage -/

/-- the window is closed: "both ends inclusive" -/
theorem C13_window_closed (s : Stage) (t : Nat) : s.contains t = true ↔ s.start ≤ t ∧ t ≤ s.stop := by
  simp [Stage.contains]

/-- "at most one stage is reported active, namely the earliest stage whose window (both ends inclusive) contains
the current time": `ActiveStageId`/`fetch_active_stage_index` answers `i` iff window `i` contains `now` and no
earlier window does -/
theorem C13_active_least (l : List Stage) (t i : Nat) :
    activeIdx l t = some i ↔
      ∃ h : i < l.length, (l[i].start ≤ t ∧ t ≤ l[i].stop) ∧
        ∀ j (hj : j < i), ¬ (l[j].start ≤ t ∧ t ≤ l[j].stop) := by
  simp only [activeIdx, List.findIdx?_eq_some_iff_getElem, C13_window_closed]

/-- no stage is reported iff no window contains the instant -/
theorem C13_active_none (l : List Stage) (t : Nat) :
    activeIdx l t = none ↔ ∀ s ∈ l, ¬ (s.start ≤ t ∧ t ≤ s.stop) := by
  simp only [activeIdx, List.findIdx?_eq_none_iff, ← C13_window_closed, Bool.not_eq_true]

/-- `ActiveStage` (`fetch_active_stage`, used by `Config`) is the stage at the reported index -/
theorem C13_active_stage_eq (l : List Stage) (t : Nat) :
    activeStage l t = (activeIdx l t).bind (fun i => l[i]?) := by
  induction l with
  | nil => simp [activeStage, activeIdx]
  | cons s rest ih =>
    simp only [activeStage, activeIdx, List.find?_cons, List.findIdx?_cons] at ih ⊢
    cases h : s.contains t
    · simp only [Bool.false_eq_true, ↓reduceIte]
      rw [ih]
      cases List.findIdx? (fun s => s.contains t) rest <;> simp
    · simp

/-- "at most two windows contain any instant" (for every chain, hence in every reachable state) -/
theorem C13_at_most_two (l : List Stage) (hc : Chain l) (t : Nat) :
    (l.filter (fun s => s.contains t)).length ≤ 2 := by
  have hp : (l.filter (fun s => s.contains t)).Pairwise (fun a b => a.stop ≤ b.start) :=
    List.Pairwise.sublist List.filter_sublist hc.2.2
  have hin : ∀ s ∈ l.filter (fun s => s.contains t), s.start ≤ t ∧ t ≤ s.stop ∧ s.start < s.stop := by
    intro s hs
    have := List.mem_filter.1 hs
    have hw := (C13_window_closed s t).1 this.2
    exact ⟨hw.1, hw.2, hc.2.1 s this.1⟩
  generalize l.filter (fun s => s.contains t) = f at hp hin
  match f, hp, hin with
  | [], _, _ => simp
  | [_], _, _ => simp
  | [_, _], _, _ => simp
  | a :: b :: c :: rest, hp, hin =>
    simp only [List.pairwise_cons, List.mem_cons] at hp
    have ha := hin a (by simp)
    have hb := hin b (by simp)
    have hcc := hin c (by simp)
    have hab := hp.1 b (Or.inl rfl)
    have hbc := hp.2.1 c (Or.inl rfl)
    omega

/-- "… and only when they touch": two windows of a chain that both contain `t` are adjacent stages `i`, `i+1`
with `stages[i].end = t = stages[i+1].start` -/
theorem C13_two_only_touching (l : List Stage) (hc : Chain l) (t i j : Nat) (hij : i < j) (hj : j < l.length)
    (hi : l[i].contains t = true) (hjt : l[j].contains t = true) :
    l[i].stop = t ∧ l[j].start = t ∧ j = i + 1 := by
  have hp := List.pairwise_iff_getElem.1 hc.2.2
  have h1 := hp i j (Nat.lt_trans hij hj) hj hij
  rw [C13_window_closed] at hi hjt
  refine ⟨by omega, by omega, ?_⟩
  apply Classical.byContradiction
  intro hne
  have hk1 : i < i + 1 := Nat.lt_succ_self i
  have hk2 : i + 1 < j := by omega
  have hkl : i + 1 < l.length := Nat.lt_trans hk2 hj
  have h2 := hp i (i + 1) (Nat.lt_trans hij hj) hkl hk1
  have h3 := hp (i + 1) j hkl hj hk2
  have h4 := hc.2.1 l[i + 1] (List.getElem_mem hkl)
  omega

/-- "… and the earlier is reported": when two windows contain `t`, the active stage is the earlier one -/
theorem C13_earlier_reported (l : List Stage) (hc : Chain l) (t i j : Nat) (hij : i < j) (hj : j < l.length)
    (hi : l[i].contains t = true) (hjt : l[j].contains t = true) :
    activeIdx l t = some i := by
  rw [C13_active_least]
  refine ⟨Nat.lt_trans hij hj, (C13_window_closed _ _).1 hi, ?_⟩
  intro k hk hkt
  have hkc : l[k].contains t = true := (C13_window_closed _ _).2 hkt
  have h1 := C13_two_only_touching l hc t k i hk (Nat.lt_trans hij hj) hkc hi
  have h2 := C13_two_only_touching l hc t i j hij hj hi hjt
  have h3 := hc.2.1 l[i] (List.getElem_mem (Nat.lt_trans hij hj))
  omega

/-- strictly inside a window (not on an edge) that stage is the ONLY one whose window contains the instant, and
it is the one reported — in every chain -/
theorem C13_unique_inside (l : List Stage) (hc : Chain l) (t i : Nat) (hi : i < l.length)
    (h1 : l[i].start < t) (h2 : t < l[i].stop) :
    activeIdx l t = some i ∧ ∀ j (hj : j < l.length), j ≠ i → l[j].contains t = false := by
  have hic : l[i].contains t = true := (C13_window_closed _ _).2 ⟨Nat.le_of_lt h1, Nat.le_of_lt h2⟩
  have hother : ∀ j (hj : j < l.length), j ≠ i → l[j].contains t = false := by
    intro j hj hne
    cases hjc : l[j].contains t with
    | false => rfl
    | true =>
      exfalso
      rcases Nat.lt_or_gt_of_ne hne with hlt | hgt
      · have := C13_two_only_touching l hc t j i hlt hi hjc hic; omega
      · have := C13_two_only_touching l hc t i j hgt hj hic hjc; omega
  refine ⟨?_, hother⟩
  rw [C13_active_least]
  refine ⟨hi, ⟨Nat.le_of_lt h1, Nat.le_of_lt h2⟩, ?_⟩
  intro k hk hkt
  have := hother k (Nat.lt_trans hk hi) (Nat.ne_of_lt hk)
  rw [(C13_window_closed _ _).2 hkt] at this
  exact absurd this (by simp)

/-! ## Clause 4 — answers come from the active stage only -/

theorem hasKey_filter (ms : List Entry) (i : Nat) (a : Addr) :
    hasKey ms i a = hasKey (ms.filter (fun m => m.1 == i)) i a := by
  rw [Bool.eq_iff_iff, hasKey_iff, hasKey_iff]
  simp only [keys, List.mem_map, List.mem_filter, Prod.mk.injEq, beq_iff_eq]
  constructor
  · rintro ⟨m, hm, h1, h2⟩; exact ⟨m, ⟨hm, h1⟩, h1, h2⟩
  · rintro ⟨m, ⟨hm, _⟩, h1, h2⟩; exact ⟨m, hm, h1, h2⟩

theorem lookup_filter (ms : List Entry) (i : Nat) (a : Addr) :
    lookup ms i a = lookup (ms.filter (fun m => m.1 == i)) i a := by
  induction ms with
  | nil => rfl
  | cons m tl ih =>
    simp only [lookup, List.find?_cons] at ih ⊢
    cases h : (m.1 == i)
    · simp [h, ih]
    · simp only [List.filter_cons, h, ↓reduceIte, Bool.true_and, List.find?_cons]
      cases h2 : (m.2.1 == a)
      · simpa using ih
      · simp

/-- `HasMember` (list-based): a positive answer iff the address validates, SOME stage is active and the address
is in THAT stage's map — "membership … answers come from that stage only (no active stage means no member)".
RESTATES THE MODEL'S DEFINITION (arbitrary `s`: unfolding of `hasMember`); likewise `C13_no_active_no_member`,
`C13_merkle_scoped`, `C13_config_scoped`, `C13_stage_member_info_scoped`. That the Rust queries consult
`fetch_active_stage(_index)` and only that stage's map is validated by the harness only. The frame theorems
`C13_member_answers_frame` / `C13_stage_member_info_frame` are not mere unfoldings. -/
theorem C13_has_member_scoped (s : State) (now : Nat) (a : Addr) :
    hasMember s now a = .ok true ↔
      validAddr a = true ∧ ∃ i, activeIdx s.stages now = some i ∧ (i, a) ∈ keys s.members := by
  unfold hasMember
  cases hv : validAddr a
  · simp
  · cases hi : activeIdx s.stages now with
    | none => simp
    | some i => simp [hasKey_iff]

/-- frame form: `HasMember` and flex `Member` depend on the stage list and on the entries of the ACTIVE stage
only — entries of every other stage may be changed arbitrarily without changing any answer -/
theorem C13_member_answers_frame (s s' : State) (now : Nat) (a : Addr) (hst : s.stages = s'.stages)
    (hm : ∀ i, activeIdx s.stages now = some i →
      s.members.filter (fun m => m.1 == i) = s'.members.filter (fun m => m.1 == i)) :
    hasMember s now a = hasMember s' now a ∧ memberQ s now a = memberQ s' now a := by
  unfold hasMember memberQ
  rw [← hst]
  cases hi : activeIdx s.stages now with
  | none => simp
  | some i =>
    have := hm i hi
    simp only
    rw [hasKey_filter s.members, hasKey_filter s'.members, lookup_filter s.members, lookup_filter s'.members, this]
    exact ⟨rfl, rfl⟩

/-- "no active stage means no member": without an active stage `HasMember` is never positive on the list-based
contracts, flex `Member` fails, and the Merkle `HasMember` fails whatever proof is supplied -/
theorem C13_no_active_no_member (s : State) (now : Nat) (a : Addr) (folded : Option Nat)
    (h : activeIdx s.stages now = none) :
    hasMember s now a ≠ .ok true ∧ (∃ e, memberQ s now a = .error e) ∧ (∃ e, hasMemberMerkle s now folded = .error e) := by
  unfold hasMember memberQ hasMemberMerkle
  rw [h]
  cases validAddr a <;> simp

/-- Merkle `HasMember`: any answer is the comparison of the folded proof with the root stored for the ACTIVE
stage (and needs one) -/
theorem C13_merkle_scoped (s : State) (now : Nat) (folded : Option Nat) (b : Bool)
    (h : hasMemberMerkle s now folded = .ok b) :
    ∃ i r f, activeIdx s.stages now = some i ∧ s.roots[i]? = some r ∧ folded = some f ∧ b = (r == f) := by
  unfold hasMemberMerkle at h
  cases hi : activeIdx s.stages now with
  | none => simp [hi] at h
  | some i =>
    simp only [hi] at h
    cases hr : s.roots[i]? with
    | none => simp [hr] at h
    | some r =>
      simp only [hr] at h
      cases folded with
      | none => simp at h
      | some f =>
        simp only [Except.ok.injEq] at h
        exact ⟨i, r, f, rfl, hr, rfl, h.symm⟩

/-- `Config`: "price and per-address limit answers come from that stage only" — with an active stage the reported
start, end, price, denom and per-address limit are that stage's and `is_active` is true; without one `is_active`
is false -/
theorem C13_config_scoped (s : State) (now : Nat) :
    (∀ i, activeIdx s.stages now = some i → ∃ st, s.stages[i]? = some st ∧
        (configQ s now).active = true ∧ (configQ s now).start = st.start ∧ (configQ s now).stop = st.stop ∧
        (configQ s now).price = st.price ∧ (configQ s now).denom = st.denom ∧ (configQ s now).pal = st.pal) ∧
    (activeIdx s.stages now = none → (configQ s now).active = false) := by
  have he := C13_active_stage_eq s.stages now
  constructor
  · intro i hi
    rw [hi] at he
    simp only [Option.bind_some] at he
    have hlt : i < s.stages.length := by
      rw [C13_active_least] at hi; exact hi.1
    refine ⟨s.stages[i], List.getElem?_eq_getElem hlt, ?_⟩
    rw [List.getElem?_eq_getElem hlt] at he
    simp [configQ, he]
  · intro hn
    rw [hn] at he
    simp only [Option.bind_none] at he
    unfold configQ
    rw [he]
    cases s.stages with
    | nil => simp
    | cons s0 rest => simp only; split <;> simp

/-! ## Clause 5 — removing a stage -/

/-- "A stage can be removed only before it starts, and removing it removes every later stage together with all
their members" — STEP-LEVEL reading: in every reachable state, at the moment `RemoveStage id` succeeds, the stage AS
CURRENTLY CONFIGURED has not started (`now < stages[id].start`); afterwards the stage list is `take id`, exactly the
entries of stages `< id` remain (none of a stage `≥ id`), and `num_members` dropped by exactly the number of removed
entries. HISTORY-LEVEL reading ("a stage that once started is never removed later"): NOT covered here — see
`C13_started_stage_stays_partial` and its counterexample `C13_started_stage_removed_counterexample`
(`UpdateStageConfig` may rewrite the start of a running stage first; recorded as an observation, DESIGN 13.3). -/
theorem C13_remove (v : Variant) (ops : List Op) (s s' : State) (now : Nat) (sender : Addr) (id : Nat)
    (hr : run v none ops = some s)
    (h : step v (some s) (.removeStage now sender id) = .ok (some s')) :
    ∃ st, s.stages[id]? = some st ∧ now < st.start ∧
      s'.stages = s.stages.take id ∧
      s'.members = s.members.filter (fun m => decide (m.1 < id)) ∧
      (∀ m ∈ s'.members, m.1 < id) ∧
      s'.num + (s.members.filter (fun m => decide (id ≤ m.1))).length = s.num := by
  have hI : SInv s := by have := C13_invariant v ops; rw [hr] at this; exact this
  simp only [step, map_ok, Option.some.injEq] at h
  obtain ⟨s1, hs, rfl⟩ := h
  simp only [exec] at hs
  simp only [↓listBased_bind_ok] at hs
  obtain ⟨st, hst, hnow, h1, h2, h3⟩ := removeStage_spec hs.2
  have hf1 : s.members.filter (fun m => !(decide (id ≤ m.1) && decide (m.1 < s.stages.length)))
      = s.members.filter (fun m => decide (m.1 < id)) := by
    apply List.filter_congr
    intro m hm
    have := hI.bound m hm
    by_cases hlt : m.1 < id
    · have : ¬ id ≤ m.1 := by omega
      simp [hlt, this]
    · have : id ≤ m.1 := by omega
      simp [hlt, this, hI.bound m hm]
  have hf2 : s.members.filter (fun m => decide (id ≤ m.1) && decide (m.1 < s.stages.length))
      = s.members.filter (fun m => decide (id ≤ m.1)) := by
    apply List.filter_congr
    intro m hm
    simp [hI.bound m hm]
  refine ⟨st, hst, hnow, h1, by rw [h2, hf1], ?_, ?_⟩
  · intro m hm
    rw [h2, hf1] at hm
    simpa using (List.mem_filter.1 hm).2
  · rw [h3, hf2, hI.num]
    have hp := filter_partition_length (fun m : Entry => decide (id ≤ m.1)) s.members
    omega

/-- once a stage has started (`now ≥ start`, boundary included) it cannot be removed, by anybody -/
theorem C13_remove_started_rejected (v : Variant) (s : State) (now : Nat) (sender : Addr) (id : Nat) (st : Stage)
    (hst : s.stages[id]? = some st) (hstarted : st.start ≤ now) :
    ∃ e, step v (some s) (.removeStage now sender id) = .error e := by
  cases hstep : step v (some s) (.removeStage now sender id) with
  | error e => exact ⟨e, rfl⟩
  | ok w =>
    exfalso
    simp only [step, map_ok] at hstep
    obtain ⟨s1, hs, _⟩ := hstep
    simp only [exec] at hs
    simp only [↓listBased_bind_ok] at hs
    obtain ⟨st', hst', hnow, _⟩ := removeStage_spec hs.2
    rw [hst] at hst'
    cases hst'
    omega

/-- the Merkle contract has no stage / member list messages at all -/
theorem C13_merkle_no_list_messages (s : State) (now : Nat) (sender : Addr) (id : Nat) (st : Stage)
    (ms : List (Addr × Nat)) :
    (∃ e, step .merkle (some s) (.removeStage now sender id) = .error e) ∧
    (∃ e, step .merkle (some s) (.addStage now sender st ms) = .error e) := by
  constructor <;> exact ⟨_, rfl⟩

/-- "A stage can be removed only before it starts" applies to the stages that `RemoveStage id` removes
IMPLICITLY too: in every reachable state, every stage `j ≥ id` that disappears has not started yet. -/
theorem C13_remove_all_unstarted (v : Variant) (ops : List Op) (s s' : State) (now : Nat) (sender : Addr) (id : Nat)
    (hr : run v none ops = some s)
    (h : step v (some s) (.removeStage now sender id) = .ok (some s')) :
    ∀ j (hj : j < s.stages.length), id ≤ j → now < s.stages[j].start := by
  obtain ⟨st, hst, hnow, _⟩ := C13_remove v ops s s' now sender id hr h
  obtain ⟨hid, hget⟩ := List.getElem?_eq_some_iff.1 hst
  intro j hj hij
  rcases Nat.eq_or_lt_of_le hij with heq | hlt
  · subst heq; rw [hget]; exact hnow
  · have h1 := C13_chain_index v ops s hr id j hlt hj
    have h2 := (C13_chain v ops)
    rw [hr] at h2
    have h3 := h2.2.1 s.stages[id] (List.getElem_mem hid)
    rw [hget] at h1 h3
    omega

/-! ## Frame: which messages can change the stage list at all -/

/-- In every reachable state the ONLY execute messages that change the stage list are `AddStage` (appends one
stage), `RemoveStage` (truncates to `take id`, and only while `now < stages[id].start`) and `UpdateStageConfig`
(replaces one element, the length stays); member edits, limit, admin messages, `migrate` and unknown messages
leave it untouched. -/
theorem C13_stage_list_effect (v : Variant) (ops : List Op) (s s' : State) (op : Op)
    (hr : run v none ops = some s) (h : exec v s op = .ok s') :
    match op with
    | .inst .. => False
    | .addStage _ _ st _ => s'.stages = s.stages ++ [normStage v st]
    | .removeStage now _ id => s'.stages = s.stages.take id ∧ ∃ st, s.stages[id]? = some st ∧ now < st.start
    | .updateStage _ _ u => ∃ st, s'.stages = s.stages.set u.id st
    | _ => s'.stages = s.stages := by
  have hI : SInv s := by have := C13_invariant v ops; rw [hr] at this; exact this
  exact exec_stages hI h

/-- INDEX `k` of a stage that has started (`stages[k].start ≤ now`, boundary included) is still in the list after EVERY
single execute message, known or unknown, from any sender: "can be removed only before it starts" for the whole message
surface, one message at a time. The conclusion is only `k < s'.stages.length`: `UpdateStageConfig` may replace element `k`
entirely, including its start (see `C13_started_stage_stays_partial` for what holds over histories). -/
theorem started_stage_survives {v : Variant} {s s' : State} {op : Op} (hI : SInv s) (h : exec v s op = .ok s')
    (k : Nat) (hk : k < s.stages.length) (hstarted : s.stages[k].start ≤ op.now) :
    k < s'.stages.length := by
  have he := exec_stages hI h
  cases op with
  | inst => exact absurd he id
  | addStage now sender st ms => simp only at he; rw [he]; simp; omega
  | removeStage now sender id =>
    simp only at he
    obtain ⟨h1, st, hst, hnow⟩ := he
    obtain ⟨hid, hget⟩ := List.getElem?_eq_some_iff.1 hst
    simp only [Op.now] at hstarted
    have hlt : k < id := by
      apply Classical.byContradiction
      intro hnot
      have hle : id ≤ k := by omega
      rcases Nat.eq_or_lt_of_le hle with heq | hl
      · subst heq; rw [hget] at hstarted; omega
      · have h2 := (List.pairwise_iff_getElem.1 hI.chain.2.2) id k hid hk hl
        have h3 := hI.chain.2.1 s.stages[id] (List.getElem_mem hid)
        rw [hget] at h2 h3
        omega
    rw [h1, List.length_take]; omega
  | updateStage now sender u => simp only at he; obtain ⟨st, he⟩ := he; rw [he]; simpa using hk
  | addMembers now sender id ms => simp only at he; rw [he]; exact hk
  | removeMembers now sender id as => simp only at he; rw [he]; exact hk
  | increaseLimit now sender funds limit => simp only at he; rw [he]; exact hk
  | updateAdmins now sender admins => simp only at he; rw [he]; exact hk
  | freeze now sender => simp only at he; rw [he]; exact hk
  | migrate now sender => simp only at he; rw [he]; exact hk
  | unknown now sender => simp only at he; rw [he]; exact hk

/-- reachable-state form of `started_stage_survives`: after every SINGLE message, index `k` of a stage with
`start ≤ now` is still in the list (length only — `UpdateStageConfig` may rewrite its window; nothing is said about a
later message, see `C13_started_stage_stays_partial`). -/
theorem C13_started_stage_not_removed (v : Variant) (ops : List Op) (s s' : State) (op : Op)
    (hr : run v none ops = some s) (h : exec v s op = .ok s')
    (k : Nat) (hk : k < s.stages.length) (hstarted : s.stages[k].start ≤ op.now) :
    k < s'.stages.length := by
  have hI : SInv s := by have := C13_invariant v ops; rw [hr] at this; exact this
  exact started_stage_survives hI h k hk hstarted

/-- `migrate` (same code, same version) and messages outside `ExecuteMsg` never change anything -/
theorem C13_migrate_unknown_frame (v : Variant) (s : State) (now : Nat) (sender : Addr) :
    (∀ s', exec v s (.migrate now sender) = .ok s' → s' = s) ∧
    (∃ e, exec v s (.unknown now sender) = .error e) := by
  constructor
  · intro s' h
    simp only [exec] at h
    split at h
    · cases h; rfl
    · simp at h
  · exact ⟨_, rfl⟩

/-! ## History level: a started stage stays (partial) -/

theorem step_some_exec {v : Variant} {s : State} {op : Op} {w : World} (hni : op.isInst = false)
    (hs : step v (some s) op = .ok w) : ∃ s1, exec v s op = .ok s1 ∧ w = some s1 := by
  cases op with
  | inst => simp [Op.isInst] at hni
  | _ =>
    all_goals
      simp only [step, map_ok] at hs
      obtain ⟨s1, he, rfl⟩ := hs
      exact ⟨s1, he, rfl⟩

/-
FULL STATEMENT (literal, history-level reading of "A stage can be removed only before it starts"):
  along any history with block times `≥ t0` executed against one contract, a stage that has started by `t0`
  (`stages[k].start ≤ t0`) is still stage `k` of the list afterwards.
This is false UNDER THE HISTORY READING: `UpdateStageConfig` uses `validate_update`, which has no check against the
block time, so an admin can move the start of a RUNNING stage into the future and then remove it
(`C13_started_stage_removed_counterexample` below; replay `corpus/C13/unstart-then-remove-*.json`). The STEP-LEVEL
reading (`C13_remove`, `C13_remove_started_rejected`, `C13_remove_all_unstarted`) holds. Classification (coordinator,
DESIGN 13.3): recorded as an OBSERVATION, not a finding — the property text does not fix the history reading.
PROVED (partial): the statement for histories without `UpdateStageConfig` (and without a re-instantiation,
which creates a different contract). What is missing: any restriction of `validate_update` relative to `now`.
-/
theorem C13_started_stage_stays_partial (v : Variant) (k t0 : Nat) (ops : List Op)
    (hops : ∀ op ∈ ops, t0 ≤ op.now ∧ op.isInst = false ∧ op.isUpdateStage = false) :
    ∀ (s : State), SInv s → (hk : k < s.stages.length) → s.stages[k].start ≤ t0 →
      ∃ s', run v (some s) ops = some s' ∧ s'.stages.take (k + 1) = s.stages.take (k + 1) := by
  induction ops with
  | nil => intro s _ _ _; exact ⟨s, rfl, rfl⟩
  | cons op rest ih =>
    intro s hI hk hst
    have hop := hops op (by simp)
    have hrest : ∀ o ∈ rest, t0 ≤ o.now ∧ o.isInst = false ∧ o.isUpdateStage = false :=
      fun o ho => hops o (by simp [ho])
    simp only [run, List.foldl_cons]
    -- one step
    have hstep : ∃ s1, step' v (some s) op = some s1 ∧ SInv s1 ∧ s1.stages.take (k + 1) = s.stages.take (k + 1) := by
      unfold step'
      cases hs : step v (some s) op with
      | error e => exact ⟨s, rfl, hI, rfl⟩
      | ok w =>
        obtain ⟨s1, he, rfl⟩ := step_some_exec hop.2.1 hs
        refine ⟨s1, rfl, exec_inv hI he, ?_⟩
        have hst' := exec_stages hI he
        cases op with
        | inst => simp [Op.isInst] at hop
        | updateStage => simp [Op.isUpdateStage] at hop
        | addStage now sender st ms =>
          simp only at hst'
          rw [hst', List.take_append_of_le_length (by omega)]
        | removeStage now sender id =>
          simp only at hst'
          obtain ⟨h1, st, hget, hnow⟩ := hst'
          obtain ⟨hid, hg⟩ := List.getElem?_eq_some_iff.1 hget
          have hlt : k < id := by
            apply Classical.byContradiction
            intro hnot
            have hle : id ≤ k := by omega
            have h0 : t0 ≤ now := hop.1
            rcases Nat.eq_or_lt_of_le hle with heq | hl
            · subst heq; rw [hg] at hst; omega
            · have h2 := (List.pairwise_iff_getElem.1 hI.chain.2.2) id k hid hk hl
              have h3 := hI.chain.2.1 s.stages[id] (List.getElem_mem hid)
              rw [hg] at h2 h3
              omega
          rw [h1, List.take_take, Nat.min_eq_left (by omega)]
        | addMembers now sender id ms => simp only at hst'; rw [hst']
        | removeMembers now sender id as => simp only at hst'; rw [hst']
        | increaseLimit now sender funds limit => simp only at hst'; rw [hst']
        | updateAdmins now sender admins => simp only at hst'; rw [hst']
        | freeze now sender => simp only at hst'; rw [hst']
        | migrate now sender => simp only at hst'; rw [hst']
        | unknown now sender => simp only at hst'; rw [hst']
    obtain ⟨s1, h1, hI1, ht⟩ := hstep
    have hlen : k < s1.stages.length := by
      have := congrArg List.length ht
      simp only [List.length_take] at this
      omega
    have hk1 : s1.stages[k] = s.stages[k] := by
      have h1' : (s1.stages.take (k + 1))[k]? = (s.stages.take (k + 1))[k]? := by rw [ht]
      simpa [List.getElem?_take, hlen, hk] using h1'
    obtain ⟨s', hr', ht'⟩ := ih hrest s1 hI1 hlen (by rw [hk1]; exact hst)
    refine ⟨s', ?_, by rw [ht', ht]⟩
    rw [h1]; exact hr'

/-! ## `StageMemberInfo` / `AllStageMemberInfo`: answers for a NAMED stage come from that stage only -/

/-- `StageMemberInfo{stage_id, member}`: `is_member` is exactly "the address has an entry under THAT stage id";
plain reports that stage's per-address limit, flex the entry's own `mint_count` (0 when absent). -/
theorem C13_stage_member_info_scoped (v : Variant) (s : State) (id : Nat) (a : Addr) (b : Bool) (p : Nat)
    (h : stageMemberInfo v s id a = .ok (b, p)) :
    validAddr a = true ∧ b = hasKey s.members id a ∧
      (v ≠ .flex → ∃ st, s.stages[id]? = some st ∧ p = st.pal) ∧
      (v = .flex → p = (lookup s.members id a).getD 0) := by
  unfold stageMemberInfo at h
  cases hv : validAddr a
  · simp [hv] at h
  · simp only [hv, Bool.not_true, Bool.false_eq_true, ↓reduceIte] at h
    by_cases hf : v = .flex
    · subst hf
      simp only [beq_self_eq_true, ↓reduceIte] at h
      have hk := lookup_isSome s.members id a
      cases hl : lookup s.members id a with
      | none =>
        rw [hl] at h hk
        simp only [Except.ok.injEq, Prod.mk.injEq] at h
        refine ⟨rfl, ?_, fun hne => absurd rfl hne, fun _ => by simp [← h.2]⟩
        rw [← h.1, ← hk]; rfl
      | some c =>
        rw [hl] at h hk
        simp only [Except.ok.injEq, Prod.mk.injEq] at h
        refine ⟨rfl, ?_, fun hne => absurd rfl hne, fun _ => by simp [← h.2]⟩
        rw [← h.1, ← hk]; rfl
    · have hb : (v == Variant.flex) = false := by cases v <;> simp_all
      simp only [hb, Bool.false_eq_true, ↓reduceIte] at h
      cases hs : s.stages[id]? with
      | none => simp [hs] at h
      | some st =>
        simp only [hs, Except.ok.injEq, Prod.mk.injEq] at h
        exact ⟨rfl, h.1.symm, fun _ => ⟨st, rfl, h.2.symm⟩, fun hf' => absurd hf' hf⟩

/-- frame form: the answer for stage `id` does not depend on the entries of any OTHER stage -/
theorem C13_stage_member_info_frame (v : Variant) (s s' : State) (id : Nat) (a : Addr) (hst : s.stages = s'.stages)
    (hm : s.members.filter (fun m => m.1 == id) = s'.members.filter (fun m => m.1 == id)) :
    stageMemberInfo v s id a = stageMemberInfo v s' id a := by
  unfold stageMemberInfo
  rw [hasKey_filter s.members, hasKey_filter s'.members, lookup_filter s.members, lookup_filter s'.members, hm, hst]

theorem smiFrom_spec (v : Variant) (s : State) (a : Addr) :
    ∀ (n k : Nat) (l : List (Bool × Nat)), smiFrom v s a n k = .ok l →
      l.length = n ∧ ∀ i (hi : i < l.length), stageMemberInfo v s (k + i) a = .ok l[i] := by
  intro n
  induction n with
  | zero => intro k l h; simp only [smiFrom, Except.ok.injEq] at h; subst h; simp
  | succ n ih =>
    intro k l h
    simp only [smiFrom] at h
    split at h
    · simp at h
    · rename_i r hr
      split at h
      · rename_i l' hl'
        simp only [Except.ok.injEq] at h
        subst h
        have := ih (k + 1) l' hl'
        refine ⟨by simp [this.1], ?_⟩
        intro i hi
        cases i with
        | zero => simpa using hr
        | succ i =>
          have h2 := this.2 i (by simpa using hi)
          simp only [List.getElem_cons_succ]
          rw [← h2]; congr 1; omega
      · simp at h

/-- `AllStageMemberInfo{member}`: exactly one answer per EXISTING stage, in stage order, and the `k`-th answer
is the `StageMemberInfo` answer for stage `k` (hence scoped to stage `k` by the two theorems above) -/
theorem C13_all_stage_member_info (v : Variant) (s : State) (a : Addr) (l : List (Bool × Nat))
    (h : allStageMemberInfo v s a = .ok l) :
    l.length = s.stages.length ∧ ∀ k (hk : k < l.length), stageMemberInfo v s k a = .ok l[k] := by
  unfold allStageMemberInfo at h
  split at h
  · simp at h
  · have := smiFrom_spec v s a _ 0 l h
    exact ⟨this.1, fun k hk => by simpa using this.2 k hk⟩

/-- every stored member entry belongs to an EXISTING stage — after every history (so nothing of a removed stage
is left behind, and a re-added stage starts empty) -/
theorem C13_no_orphan_members (v : Variant) (ops : List Op) (s : State) (hr : run v none ops = some s) :
    ∀ m ∈ s.members, m.1 < s.stages.length := by
  have hI : SInv s := by have := C13_invariant v ops; rw [hr] at this; exact this
  exact hI.bound

/-! ## Non-vacuity: the hypotheses above are satisfiable (concrete histories) -/

section Examples

def exStage (k a b : Nat) : Stage := { name := k, start := a, stop := b, denom := 0, price := 5, pal := 1, mcl := none }

/-- three touching/gapped stages [10,20] [20,30] [40,50], created at time 5 with members, by admin 7 -/
def exInst : Op :=
  .inst 5 7 [⟨0, 100000000⟩] 10 none [7] true [exStage 0 10 20, exStage 1 20 30, exStage 2 40 50]
    [[(11, 1)], [(12, 1)], [(13, 1), (11, 1)]] [] false

def stagesOf (w : World) : List (Nat × Nat) := match w with | none => [] | some s => s.stages.map fun st => (st.start, st.stop)
def membersOf' (w : World) : List Entry := match w with | none => [] | some s => s.members
def numOf (w : World) : Nat := match w with | none => 0 | some s => s.num

example : stagesOf (run .plain none [exInst]) = [(10, 20), (20, 30), (40, 50)] := by decide
example : stagesOf (run .flex none [exInst]) = [(10, 20), (20, 30), (40, 50)] := by decide
-- touching instant 20: both windows contain it, the earlier is active; 35 is in the gap; 50 is the closed right end
example : activeIdx [exStage 0 10 20, exStage 1 20 30, exStage 2 40 50] 20 = some 0 := by decide
example : ([exStage 0 10 20, exStage 1 20 30, exStage 2 40 50].filter (fun s => s.contains 20)).length = 2 := by decide
example : activeIdx [exStage 0 10 20, exStage 1 20 30, exStage 2 40 50] 21 = some 1 := by decide
example : activeIdx [exStage 0 10 20, exStage 1 20 30, exStage 2 40 50] 35 = none := by decide
example : activeIdx [exStage 0 10 20, exStage 1 20 30, exStage 2 40 50] 50 = some 2 := by decide
example : activeIdx [exStage 0 10 20, exStage 1 20 30, exStage 2 40 50] 51 = none := by decide
-- removing stage 1 at time 19 (< 20) truncates stages and members; at time 20 it is rejected
example : stagesOf (run .plain none [exInst, .removeStage 19 7 1]) = [(10, 20)] := by decide
example : membersOf' (run .plain none [exInst, .removeStage 19 7 1]) = [(0, 11, 1)] := by decide
example : numOf (run .plain none [exInst]) = 4 ∧ numOf (run .plain none [exInst, .removeStage 19 7 1]) = 1 := by decide
example : stagesOf (run .plain none [exInst, .removeStage 20 7 1]) = [(10, 20), (20, 30), (40, 50)] := by decide
-- add_stage after a removal, before the first stage starts
example : stagesOf (run .flex none [exInst, .removeStage 6 7 2, .addStage 6 7 (exStage 3 30 31) [(14, 2)]])
    = [(10, 20), (20, 30), (30, 31)] := by decide
-- overlapping update is rejected, touching update accepted
example : stagesOf (run .plain none [exInst, .updateStage 25 7 ⟨2, none, some 29, none, none, none, none⟩])
    = [(10, 20), (20, 30), (40, 50)] := by decide
example : stagesOf (run .plain none [exInst, .updateStage 25 7 ⟨2, none, some 30, none, none, none, none⟩])
    = [(10, 20), (20, 30), (30, 50)] := by decide
-- clause 2 is about create/add only: `update_stage_config` (validate_update) may move the first stage's start
-- to or before the current time (here: at time 9 the first stage is moved to start at 3)
example : stagesOf (run .plain none [exInst, .updateStage 9 7 ⟨0, none, some 3, none, none, none, none⟩])
    = [(3, 20), (20, 30), (40, 50)] := by decide
-- Merkle: same stage logic, no list messages
example : stagesOf (run .merkle none [.inst 5 7 [⟨0, 1000000000⟩] 0 none [7] true [exStage 0 10 20, exStage 1 20 30] [] [1, 2] false,
    .removeStage 6 7 1]) = [(10, 20), (20, 30)] := by decide
-- the hypotheses of `C13_remove` / `C13_first_future_add` are satisfiable
example : ∃ s', step .plain (run .plain none [exInst]) (.removeStage 19 7 1) = .ok (some s') ∧ s'.num = 1 := by
  refine ⟨_, rfl, ?_⟩; decide

/-- COUNTEREXAMPLE to the literal history-level reading (see `C13_started_stage_stays_partial`; an observation,
DESIGN 13.3, not a finding — the step-level reading `C13_remove` holds): stage 0 = [10,20]
is the ACTIVE stage at block time 15; in that same block the admin moves its start to 16 (`update_stage_config`,
accepted: `validate_update` never looks at the clock) and then removes it (`now = 15 < 16`): a stage that had
started — was running — is removed, with every later stage and all members. Plain and flex. -/
theorem C13_started_stage_removed_counterexample :
    activeIdx [exStage 0 10 20, exStage 1 20 30, exStage 2 40 50] 15 = some 0 ∧
    stagesOf (run .plain none [exInst]) = [(10, 20), (20, 30), (40, 50)] ∧
    stagesOf (run .plain none [exInst, .updateStage 15 7 ⟨0, none, some 16, none, none, none, none⟩,
      .removeStage 15 7 0]) = [] ∧
    membersOf' (run .plain none [exInst, .updateStage 15 7 ⟨0, none, some 16, none, none, none, none⟩,
      .removeStage 15 7 0]) = [] ∧
    stagesOf (run .flex none [exInst, .updateStage 15 7 ⟨0, none, some 16, none, none, none, none⟩,
      .removeStage 15 7 0]) = [] := by decide

-- the hypotheses of `C13_started_stage_stays_partial` are satisfiable: the same removal WITHOUT the update is rejected
example : stagesOf (run .plain none [exInst, .removeStage 15 7 0]) = [(10, 20), (20, 30), (40, 50)] := by decide
-- migrate (Merkle) and unknown messages change nothing
example : stagesOf (run .merkle none [.inst 5 7 [⟨0, 1000000000⟩] 0 none [7] true [exStage 0 10 20, exStage 1 20 30] [] [1, 2] false,
    .migrate 15 6, .unknown 15 7]) = [(10, 20), (20, 30)] := by decide
-- AllStageMemberInfo: one answer per stage; address 11 is in stages 0 and 2 of `exInst`
example : (match run .plain none [exInst] with | some s => allStageMemberInfo .plain s 11 | none => .error .other).toOption
    = some [(true, 1), (false, 1), (true, 1)] := by decide

end Examples

end LP
