import LaunchpadModel.Lemmas.Supply
/-!
# C01 — no minter over-mints, re-mints a token id, or miscounts remaining supply

Model: `LaunchpadModel/Model/Supply.lean` (`Fixed` = the six vending variants and the token-merge minter, whose
supply code is identical; `Seq` = the three open-edition variants and the base minter, selected by `SeqKind`;
`Coll` = the sg721 collection).  Every theorem is over ALL operation lists (`ops : List FOp` / `List QOp`), i.e.
all interleavings of Mint / MintTo / MintFor / Shuffle / Purge / BurnRemaining / collection burns and transfers /
any other message, by any sender, with ANY outcome of the gating checks (`gate : Bool` on every op: payment,
limits, clock, whitelist, authorisation are environment inputs) and every randomness witness THE MODEL ACCEPTS (picked
position, shuffle result, initial permutation: a non-permutation as initial layout or shuffle result, or a position that is
not a current key, makes the model step fail; that `random_token_list` returns a permutation is therefore an acceptance
condition validated by the harness, not a theorem).  Invariant lemmas live in `Lemmas/Supply.lean`.
-/
namespace LP
open LP.Supply

/-! ## Fixed-supply minters (vending ×6, token-merge) -/

/-- The supply invariant holds in every reachable state: for every `n`, every ACCEPTED initial permutation
witness (`Fixed.init n perm = some s`, i.e. `perm` is a permutation of `1..=n`) and every history.  (`FInv`: positions ≥ 1 and unique, remaining ids unique, in `1..=n`, never minted before; minted ids
unique and in `1..=n`; counter = size of the position map; remaining + minted + burned = n; collection tokens ⊆
minted, unique, `NumTokens` exact.) -/
theorem C01_inv (n : Nat) (perm : List Nat) (s : Fixed) (h : Fixed.init n perm = some s) (ops : List FOp) :
    FInv (s.run ops) ∧ (s.run ops).n = n := by
  obtain ⟨hi, hn⟩ := Fixed.init_inv h
  obtain ⟨h1, h2⟩ := Fixed.run_inv s ops hi
  exact ⟨h1, h2.trans hn⟩

/-- "every minted token id lies in 1..=num_tokens and is minted at most once" — over any history. -/
theorem C01_minted_in_range_at_most_once (n : Nat) (perm : List Nat) (s : Fixed) (h : Fixed.init n perm = some s)
    (ops : List FOp) :
    (s.run ops).minted.Nodup ∧ ∀ id ∈ (s.run ops).minted, 1 ≤ id ∧ id ≤ n := by
  obtain ⟨hi, hn⟩ := C01_inv n perm s h ops
  exact ⟨hi.mnodup, fun id hid => hn ▸ hi.mrange id hid⟩

/-- `minted` really is the log of successful mints: one step changes it only if it is a successful Mint / MintTo /
MintFor / completing deposit, which appends exactly one id that was mintable, had never been minted, lies in
`1..=n`, and costs exactly one unit of the counter; every other successful op leaves the log alone and never
increases the counter. -/
theorem C01_mint_step (s s' : Fixed) (op : FOp) (hi : FInv s) (h : s.step op = some s') :
    (op.isMint = true ∧ ∃ id, s'.minted = id :: s.minted ∧ id ∈ s.ids ∧ id ∉ s.minted ∧ 1 ≤ id ∧ id ≤ s.n ∧
        s'.mintable + 1 = s.mintable) ∨
    (op.isMint = false ∧ s'.minted = s.minted ∧ s'.mintable ≤ s.mintable) := by
  rcases Fixed.step_minted h with ⟨hm, id, hid, hmt, hc⟩ | hr
  · exact Or.inl ⟨hm, id, hmt, hid, hi.fresh id hid, (hi.range id hid).1, (hi.range id hid).2, hc⟩
  · exact Or.inr hr

/-- the number of ids minted equals the number of mint operations that succeeded -/
theorem C01_minted_count (n : Nat) (perm : List Nat) (s : Fixed) (h : Fixed.init n perm = some s) (ops : List FOp) :
    (s.run ops).minted.length = s.succMints ops := by
  have := Fixed.run_minted_length s ops
  obtain ⟨_, rfl⟩ := Fixed.init_spec h
  simpa using this

/-- a random-pick mint (Mint / MintTo / completing ReceiveNft) delivers the id stored at the picked position to
the given owner and removes exactly that id from the mintable set -/
theorem C01_mint_delivers (s s' : Fixed) (g : Bool) (p o : Nat) (hi : FInv s) (h : s.step (.mint g p o) = some s') :
    ∃ id, lookupPos s.pos p = some id ∧ s'.minted = id :: s.minted ∧ s'.coll.toks = (id, o) :: s.coll.toks ∧
      s'.ids = s.ids.filter (· != id) := by
  cases g <;> simp [Fixed.step] at h
  obtain ⟨_, id, hm, hd⟩ := Fixed.takeAt_spec h
  obtain ⟨c, hc, rfl⟩ := Fixed.deliver_spec hd
  obtain ⟨_, ht, _, _⟩ := Coll.mint_spec hc
  refine ⟨id, ?_, rfl, ht, ?_⟩
  · unfold Fixed.takeAt at h
    cases hl : lookupPos s.pos p with
    | none => simp [hl] at h
    | some id' =>
      have h1 := lookupPos_mem hl
      have : (p, id') = (p, id) := inj_of_nodup_map (fun e : Nat × Nat => e.1) s.pos hi.knodup _ h1 _ hm rfl
      simp at this; rw [this]
  · show (s.pos.filter (fun e => e.1 != p)).map (·.2) = s.ids.filter (· != id)
    rw [filter_key_eq_filter_id s.pos p id hi.knodup hi.nodup hm]; exact map_snd_filter_snd _ _

/-- "mint-for delivers exactly the requested id or fails": a successful `MintFor {id, r}` appends exactly `id` to
the mint log, creates token `id` owned by `r` in the collection, and `id` was mintable and leaves the mintable set. -/
theorem C01_mintFor_exact (s s' : Fixed) (g : Bool) (id r : Nat) (hi : FInv s)
    (h : s.step (.mintFor g id r) = some s') :
    s'.minted = id :: s.minted ∧ s'.coll.toks = (id, r) :: s.coll.toks ∧ id ∈ s.ids ∧
      s'.ids = s.ids.filter (· != id) ∧ s'.mintable + 1 = s.mintable := by
  cases g <;> simp [Fixed.step] at h
  obtain ⟨hz, _, _, hm, _, hd⟩ := Fixed.takeId_spec h
  obtain ⟨c, hc, rfl⟩ := Fixed.deliver_spec hd
  obtain ⟨_, ht, _, _⟩ := Coll.mint_spec hc
  refine ⟨rfl, ht, List.mem_map_of_mem (f := (·.2)) hm, ?_, by show s.mintable - 1 + 1 = s.mintable; omega⟩
  show (s.pos.filter (fun e => e.1 != findId s.pos id)).map (·.2) = s.ids.filter (· != id)
  rw [filter_key_eq_filter_id s.pos _ id hi.knodup hi.nodup hm]; exact map_snd_filter_snd _ _

/-- … and it fails for an id that is not (or no longer) mintable: already sold, burned, `0`, or out of range -/
theorem C01_mintFor_unavailable_fails (s : Fixed) (g : Bool) (id r : Nat) (h : id ∉ s.ids) :
    s.step (.mintFor g id r) = none := by
  cases hs : s.step (.mintFor g id r) with
  | none => rfl
  | some s' =>
    cases g <;> simp [Fixed.step] at hs
    obtain ⟨_, _, _, hm, _, _⟩ := Fixed.takeId_spec hs
    exact absurd (List.mem_map_of_mem (f := (·.2)) hm) h

/-- … and (non-vacuity / completeness) it succeeds for every id that is still mintable once the gates pass:
the `position == 0` test never misfires because positions start at 1, and the collection never answers `Claimed` -/
theorem C01_mintFor_available_succeeds (s : Fixed) (id r : Nat) (hi : FInv s) (h : id ∈ s.ids) :
    (s.step (.mintFor true id r)).isSome = true := by
  have hr := hi.range id h
  have hk : findId s.pos id ∈ s.keys := findId_of_mem h
  have hp : findId s.pos id ≠ 0 := by have := hi.kpos _ hk; omega
  have hlen : s.pos.length ≠ 0 := by
    intro h0; have : s.pos = [] := List.eq_nil_of_length_eq_zero h0
    simp [Fixed.ids, this] at h
  have hz : s.mintable ≠ 0 := by rw [hi.count]; exact hlen
  have hnc : id ∉ s.coll.ids := fun hc => hi.fresh id h (hi.csub id hc)
  obtain ⟨c, hc⟩ := Coll.mint_isSome (o := r) hnc
  have hr' : ¬ (id = 0 ∨ id > s.n) := by omega
  simp [Fixed.step, Fixed.takeId, hz, hr', hp, Fixed.deliver, hc]

/-- "shuffle changes neither the set of remaining ids nor their number" — MODEL SIDE ONLY. `Fixed.shuffle` accepts the
witness `perm` iff it is a permutation of the remaining ids, so the first two conjuncts (`ids.Perm`, `length`) RESTATE that
guard (`Fixed.shuffle_spec`); that the real `random_token_list` permutes is validated by the harness only (correspondence +
monitor `shuffle-changed-ids`). The content proved here: an accepted Shuffle keeps the position keys, the counter, the mint
log, the burn count, the collection and `n`. -/
theorem C01_shuffle_frame (s s' : Fixed) (g : Bool) (perm : List Nat) (h : s.step (.shuffle g perm) = some s') :
    s'.ids.Perm s.ids ∧ s'.ids.length = s.ids.length ∧ s'.keys = s.keys ∧ s'.mintable = s.mintable ∧
      s'.minted = s.minted ∧ s'.burned = s.burned ∧ s'.coll = s.coll ∧ s'.n = s.n := by
  cases g <;> simp [Fixed.step] at h
  obtain ⟨_, hp, rfl⟩ := Fixed.shuffle_spec h
  obtain ⟨hk, hids, _⟩ := Fixed.shuffle_keys_ids hp
  exact ⟨by rw [hids]; exact hp, by rw [hids]; exact hp.length_eq, hk, rfl, rfl, rfl, rfl, rfl⟩

/-- a result that drops, duplicates or invents an id is rejected -/
theorem C01_shuffle_rejects_non_permutation (s : Fixed) (g : Bool) (perm : List Nat) (h : ¬ perm.Perm s.ids) :
    s.step (.shuffle g perm) = none := by
  cases hs : s.step (.shuffle g perm) with
  | none => rfl
  | some s' =>
    cases g <;> simp [Fixed.step] at hs
    exact absurd (Fixed.shuffle_spec hs).2.1 h

/-- "the reported mintable count always equals num_tokens minus minted minus burned" — `MintableNumTokens` in every
reachable state; and it is the true number of remaining positions -/
theorem C01_mintable_query (n : Nat) (perm : List Nat) (s : Fixed) (h : Fixed.init n perm = some s) (ops : List FOp) :
    (s.run ops).queryMintable = n - (s.run ops).minted.length - (s.run ops).burned ∧
    (s.run ops).queryMintable = (s.run ops).pos.length ∧
    (s.run ops).minted.length + (s.run ops).burned ≤ n := by
  obtain ⟨hi, hn⟩ := C01_inv n perm s h ops
  have := hi.count; have := hi.total
  unfold Fixed.queryMintable
  omega

/-- "with no mint succeeding at zero": at a zero counter every mint operation fails, whatever the gates say -/
theorem C01_no_mint_at_zero (s : Fixed) (op : FOp) (hz : s.mintable = 0) (hm : op.isMint = true) :
    s.step op = none := by
  cases op with
  | mint g p o => cases g <;> simp [Fixed.step, Fixed.takeAt, hz]
  | mintFor g id o => cases g <;> simp [Fixed.step, Fixed.takeId, hz]
  | _ => simp [FOp.isMint] at hm

/-- zero is reached exactly when everything is minted or burned -/
theorem C01_zero_iff_exhausted (n : Nat) (perm : List Nat) (s : Fixed) (h : Fixed.init n perm = some s)
    (ops : List FOp) :
    (s.run ops).mintable = 0 ↔ (s.run ops).minted.length + (s.run ops).burned = n := by
  obtain ⟨hi, hn⟩ := C01_inv n perm s h ops
  have := hi.count; have := hi.total
  omega

/-- Purge succeeds only when sold out and changes nothing of the supply state -/
theorem C01_purge_frame (s s' : Fixed) (g : Bool) (h : s.step (.purge g) = some s') : s' = s ∧ s.mintable = 0 := by
  cases g <;> simp [Fixed.step, Fixed.purge] at h
  exact ⟨h.2.symm, h.1⟩

/-- BurnRemaining removes every remaining id, books them as burned, never touches the mint log … -/
theorem C01_burn_remaining (s s' : Fixed) (g : Bool) (hi : FInv s) (h : s.step (.burnRemaining g) = some s') :
    s'.mintable = 0 ∧ s'.pos = [] ∧ s'.minted = s.minted ∧ s'.burned = s.burned + s.mintable ∧ s'.coll = s.coll := by
  cases g <;> simp [Fixed.step] at h
  obtain ⟨_, rfl⟩ := Fixed.burnAll_spec h
  have := hi.count
  exact ⟨by show s.mintable - s.pos.length = 0; omega, rfl, rfl, by show s.burned + s.pos.length = _; omega, rfl⟩

/-- … and once the counter is zero (sold out or burned) nothing is ever minted again, in any continuation -/
theorem C01_zero_is_final (s : Fixed) (hz : s.mintable = 0) (ops : List FOp) :
    (s.run ops).mintable = 0 ∧ (s.run ops).minted = s.minted := by
  induction ops generalizing s with
  | nil => exact ⟨hz, rfl⟩
  | cons op ops ih =>
    rw [Fixed.run_cons]
    unfold Fixed.step'
    cases h : s.step op with
    | none => simpa using ih s hz
    | some s' =>
      simp only [Option.getD_some]
      rcases Fixed.step_minted h with ⟨_, _, _, _, hc⟩ | ⟨_, hmt, hl⟩
      · omega
      · obtain ⟨h1, h2⟩ := ih s' (by omega)
        exact ⟨h1, h2.trans hmt⟩

/-- the counter never increases -/
theorem C01_mintable_antitone (s : Fixed) (ops : List FOp) : (s.run ops).mintable ≤ s.mintable :=
  Fixed.run_mintable_le s ops

/-- collection side, every reachable state: each existing token was minted by this minter (so its id is in
`1..=n`), token ids are unique (sg721 `Claimed`), `NumTokens` is exact, and a token burned by its holder can
never be minted again (its id stays in the mint log, and no mintable id is in the log) -/
theorem C01_collection (n : Nat) (perm : List Nat) (s : Fixed) (h : Fixed.init n perm = some s) (ops : List FOp) :
    let t := s.run ops
    (∀ id ∈ t.coll.ids, id ∈ t.minted ∧ 1 ≤ id ∧ id ≤ n) ∧ t.coll.ids.Nodup ∧ t.coll.count = t.coll.toks.length ∧
      t.coll.count ≤ t.minted.length ∧ (∀ id ∈ t.minted, id ∉ t.ids) := by
  obtain ⟨hi, hn⟩ := C01_inv n perm s h ops
  refine ⟨fun id hid => ⟨hi.csub id hid, hn ▸ hi.mrange id (hi.csub id hid)⟩, hi.cinv.nodup, hi.cinv.count, ?_,
    fun id hid hmem => hi.fresh id hmem hid⟩
  rw [hi.cinv.count]
  have : (s.run ops).coll.toks.length = (s.run ops).coll.ids.length := by simp [Coll.ids]
  rw [this]
  exact length_le_of_nodup_subset _ _ hi.cinv.nodup (fun x hx => hi.csub x hx)

/-! ## Sequential minters (open-edition ×3, base) -/

/-- the sequential invariant holds in every reachable state of every variant, configured cap, factory cap, history -/
theorem C01_seq_inv (k : SeqKind) (num : Option Nat) (fmax : Nat) (e : Bool) (ops : List QOp) :
    QInv ((Seq.create k num fmax e).run ops) :=
  Seq.run_inv _ ops (Seq.create_inv k num fmax e)

/-- "token ids are issued as 1,2,3,... with no gap or repeat": after any history with `m` successful mints the ids
issued are exactly `1, 2, …, m` in this order (`issued` is newest first), the i-th successful mint issued id `i` -/
theorem C01_seq_ids_sequential (k : SeqKind) (num : Option Nat) (fmax : Nat) (e : Bool) (ops : List QOp) :
    let s0 := Seq.create k num fmax e
    (s0.run ops).issued.reverse = List.range' 1 (s0.succMints ops) ∧
    ∀ i, i < s0.succMints ops → (s0.run ops).issued.reverse[i]? = some (i + 1) := by
  intro s0
  have hi : QInv (s0.run ops) := C01_seq_inv k num fmax e ops
  have ht := Seq.run_totalMint s0 ops
  have h0 : s0.totalMint = 0 := rfl
  have hk : (s0.run ops).tokenIndex = s0.succMints ops := by rw [← hi.total, ht, h0]; simp
  have hrev : (s0.run ops).issued.reverse = List.range' 1 (s0.succMints ops) := by
    have := hi.seq
    show (s0.run ops).issued.reverse = _
    rw [this, List.reverse_reverse, hk]
  refine ⟨hrev, fun i hlt => ?_⟩
  rw [hrev, List.getElem?_range' hlt]; simp [Nat.add_comm]

/-- each successful mint issues `TOKEN_INDEX + 1`, hands exactly that id to the collection for the given owner,
and (completeness) the collection can never answer `Claimed`, so a mint whose gates pass fails only at `Some(0)` -/
theorem C01_seq_mint_exact (s s' : Seq) (g : Bool) (o : Nat) (h : s.step (.mint g o) = some s') :
    s'.issued = (s.tokenIndex + 1) :: s.issued ∧ s'.coll.toks = (s.tokenIndex + 1, o) :: s.coll.toks ∧
      s'.tokenIndex = s.tokenIndex + 1 ∧ s'.totalMint = s.totalMint + 1 := by
  cases g <;> simp [Seq.step] at h
  obtain ⟨_, c, hc, rfl⟩ := Seq.mint_spec h
  obtain ⟨_, ht, _, _⟩ := Coll.mint_spec hc
  exact ⟨rfl, ht, rfl, rfl⟩

theorem C01_seq_mint_succeeds (s : Seq) (o : Nat) (hi : QInv s) (hz : s.mintable ≠ some 0) :
    (s.step (.mint true o)).isSome = true := by
  have hnc : s.tokenIndex + 1 ∉ s.coll.ids := fun hc => by have := hi.csub _ hc; omega
  obtain ⟨c, hc⟩ := Coll.mint_isSome (o := o) hnc
  simp [Seq.step, Seq.mint, hz, hc]

/-- "the total-mint count equals the number of mints that succeeded" (and so does the token index) -/
theorem C01_seq_total_mint (k : SeqKind) (num : Option Nat) (fmax : Nat) (e : Bool) (ops : List QOp) :
    let s0 := Seq.create k num fmax e
    (s0.run ops).totalMint = s0.succMints ops ∧ (s0.run ops).tokenIndex = s0.succMints ops ∧
    (s0.run ops).issued.length = s0.succMints ops := by
  intro s0
  have hi : QInv (s0.run ops) := C01_seq_inv k num fmax e ops
  have ht := Seq.run_totalMint s0 ops
  have h0 : s0.totalMint = 0 := rfl
  have h1 : (s0.run ops).totalMint = s0.succMints ops := by rw [ht, h0]; simp
  refine ⟨h1, by rw [← hi.total]; exact h1, ?_⟩
  have := hi.seq
  show (s0.run ops).issued.length = _
  rw [this]; simp; rw [← hi.total]; exact h1

/-- which cap is in force, per variant: the configured `num_tokens` for every open-edition variant; without one,
open-edition-minter and -merkle-wl capture the factory's `max_token_limit` at creation, -wl-flex applies none;
base-minter has none -/
theorem C01_seq_cap_in_force (fmax : Nat) :
    (∀ k n, k ≠ SeqKind.base → Seq.initialMintable k (some n) fmax = some n) ∧
    Seq.initialMintable .openEdition none fmax = some fmax ∧
    Seq.initialMintable .openEditionMerkle none fmax = some fmax ∧
    Seq.initialMintable .openEditionFlex none fmax = none ∧
    (∀ num, Seq.initialMintable .base num fmax = none) := by
  refine ⟨fun k n hk => ?_, rfl, rfl, rfl, fun _ => rfl⟩
  cases k <;> first | rfl | exact absurd rfl hk

/-- "the supply never exceeds the configured token cap (or the factory-wide cap captured at creation where the
variant applies one)": over any history the number of successful mints (= total-mint count = highest id) is ≤ the
cap in force — and a later change of the factory limit cannot matter, the cap is a creation-time value -/
theorem C01_seq_cap (k : SeqKind) (num : Option Nat) (fmax : Nat) (e : Bool) (ops : List QOp) (c : Nat)
    (hc : Seq.initialMintable k num fmax = some c) :
    let s0 := Seq.create k num fmax e
    s0.succMints ops ≤ c ∧ (s0.run ops).totalMint ≤ c ∧ (s0.run ops).coll.count ≤ c ∧
      ∀ id ∈ (s0.run ops).issued, 1 ≤ id ∧ id ≤ c := by
  intro s0
  have hi : QInv (s0.run ops) := C01_seq_inv k num fmax e ops
  obtain ⟨h1, h2, _⟩ := C01_seq_total_mint k num fmax e ops
  have hcap : (s0.run ops).cap = some c := by
    have : ∀ (s : Seq) (ops : List QOp), (s.run ops).cap = s.cap := by
      intro s ops
      induction ops generalizing s with
      | nil => rfl
      | cons op ops ih =>
        rw [Seq.run_cons, ih]; unfold Seq.step'
        cases h : s.step op with
        | none => rfl
        | some s' =>
          simp only [Option.getD_some]
          cases op with
          | mint g o => cases g <;> simp [Seq.step] at h; obtain ⟨_, _, _, rfl⟩ := Seq.mint_spec h; rfl
          | burnRemaining g => cases g <;> simp [Seq.step] at h; obtain ⟨_, _, rfl⟩ := Seq.burnRemaining_spec h; rfl
          | purge g => cases g <;> simp [Seq.step] at h; rw [Seq.purge_spec h]
          | collBurn g id => cases g <;> simp [Seq.step] at h; obtain ⟨_, _, rfl⟩ := h; rfl
          | collTransfer g id to => cases g <;> simp [Seq.step] at h; obtain ⟨_, _, rfl⟩ := h; rfl
          | noise g => cases g <;> simp [Seq.step] at h; subst h; rfl
    rw [this]; exact hc
  have hle := hi.capOk c hcap
  refine ⟨by rw [← h1]; exact hle, hle, ?_, fun id hid => ?_⟩
  · rw [hi.cinv.count]
    have hl : (s0.run ops).coll.toks.length = (s0.run ops).coll.ids.length := by simp [Coll.ids]
    have hsub : ∀ x ∈ (s0.run ops).coll.ids, x ∈ List.range' 1 (s0.run ops).tokenIndex := fun x hx => by
      have := hi.csub x hx; exact List.mem_range'_1.mpr (by omega)
    have := length_le_of_nodup_subset _ _ hi.cinv.nodup hsub
    rw [hl]; simp at this; rw [← hi.total] at this; omega
  · have hs := hi.seq
    rw [show (s0.run ops).issued = _ from hs] at hid
    have := List.mem_range'_1.mp (List.mem_reverse.mp hid)
    rw [← hi.total] at this; omega

/-- the reported mintable count: `cap − minted` until a burn (absent when uncapped), `Some(0)` afterwards -/
theorem C01_seq_mintable_query (k : SeqKind) (num : Option Nat) (fmax : Nat) (e : Bool) (ops : List QOp) :
    let t := (Seq.create k num fmax e).run ops
    (t.burned = false → t.mintable = t.cap.map (· - t.totalMint)) ∧ (t.burned = true → t.mintable = some 0) := by
  have hi := C01_seq_inv k num fmax e ops
  exact ⟨hi.left, hi.burnt⟩

/-- no mint succeeds at `Some(0)`, whatever the gates say -/
theorem C01_seq_no_mint_at_zero (s : Seq) (g : Bool) (o : Nat) (hz : s.mintable = some 0) :
    s.step (.mint g o) = none := by
  cases g <;> simp [Seq.step, Seq.mint, hz]

/-- "nothing can be minted after a successful burn-remaining": after it, in EVERY continuation, every mint fails,
and the total-mint count, token index and issued ids never change again -/
theorem C01_seq_nothing_after_burn (s s' : Seq) (g : Bool) (h : s.step (.burnRemaining g) = some s')
    (ops : List QOp) (g' : Bool) (o : Nat) :
    (s'.run ops).step (.mint g' o) = none ∧ (s'.run ops).totalMint = s.totalMint ∧
      (s'.run ops).tokenIndex = s.tokenIndex ∧ (s'.run ops).issued = s.issued ∧ s'.burned = true := by
  cases g <;> simp [Seq.step] at h
  obtain ⟨_, _, rfl⟩ := Seq.burnRemaining_spec h
  obtain ⟨h1, h2, h3, h4⟩ := Seq.run_zero { s with mintable := some 0, burned := true } ops rfl
  exact ⟨C01_seq_no_mint_at_zero _ g' o h1, h2, h3, h4, rfl⟩

/-- BurnRemaining itself: needs a non-zero counter (so it fails on an uncapped -wl-flex minter, where the code
panics, and on base-minter, which has no such message), and mints nothing -/
theorem C01_seq_burn_remaining (s s' : Seq) (g : Bool) (h : s.step (.burnRemaining g) = some s') :
    s.kind ≠ .base ∧ (∃ k, s.mintable = some (k + 1)) ∧ s'.mintable = some 0 ∧ s'.totalMint = s.totalMint ∧
      s'.issued = s.issued ∧ s'.coll = s.coll := by
  cases g <;> simp [Seq.step] at h
  obtain ⟨hk, hm, rfl⟩ := Seq.burnRemaining_spec h
  exact ⟨hk, hm, rfl, rfl, rfl, rfl⟩

/-- Purge never changes the supply state -/
theorem C01_seq_purge_frame (s s' : Seq) (g : Bool) (h : s.step (.purge g) = some s') : s' = s := by
  cases g <;> simp [Seq.step] at h
  exact Seq.purge_spec h

/-- collection side: existing tokens are issued ids, unique, counted exactly -/
theorem C01_seq_collection (k : SeqKind) (num : Option Nat) (fmax : Nat) (e : Bool) (ops : List QOp) :
    let t := (Seq.create k num fmax e).run ops
    (∀ id ∈ t.coll.ids, 1 ≤ id ∧ id ≤ t.totalMint) ∧ t.coll.ids.Nodup ∧ t.coll.count = t.coll.toks.length := by
  have hi := C01_seq_inv k num fmax e ops
  exact ⟨fun id hid => by rw [hi.total]; exact hi.csub id hid, hi.cinv.nodup, hi.cinv.count⟩

/-! ## Round 3: the gate witness is sound, "any other message" is a frame op, no id is ever lost -/

/-- Soundness of the harness' gate rule (it passes `gate=1` for a FAILED op exactly when its own bookkeeping says the
supply guards reject): whenever the supply guards of an op reject, the op fails — for every gate outcome and every
randomness witness. So a failure the harness attributes to supply is never one the model could have let through. -/
theorem C01_supplyRejects_sound (s : Fixed) (op : FOp) (h : s.supplyRejects op = true) : s.step op = none := by
  cases op with
  | mint g p o =>
    have hz : s.mintable = 0 := by simpa [Fixed.supplyRejects] using h
    cases g <;> simp [Fixed.step, Fixed.takeAt, hz]
  | mintFor g id o =>
    simp only [Fixed.supplyRejects, Bool.or_eq_true, decide_eq_true_eq] at h
    cases g
    · simp [Fixed.step]
    · simp only [Fixed.step, if_true, Fixed.takeId]
      rcases h with ((h | h) | h) | h
      · simp [h]
      · by_cases hz : s.mintable = 0 <;> simp [hz, h]
      · by_cases hz : s.mintable = 0 <;> simp [hz, h]
      · by_cases hz : s.mintable = 0
        · simp [hz]
        · by_cases hr : id = 0 ∨ id > s.n <;> simp [hz, hr, h]
  | shuffle g perm =>
    have hz : s.mintable = 0 := by simpa [Fixed.supplyRejects] using h
    cases g <;> simp [Fixed.step, Fixed.shuffle, hz]
  | purge g =>
    have hz : s.mintable ≠ 0 := by simpa [Fixed.supplyRejects] using h
    cases g <;> simp [Fixed.step, Fixed.purge, hz]
  | burnRemaining g =>
    have hz : s.mintable = 0 := by simpa [Fixed.supplyRejects] using h
    cases g <;> simp [Fixed.step, Fixed.burnAll, hz]
  | collBurn g id =>
    have hz : id ∉ s.coll.ids := by simpa [Fixed.supplyRejects] using h
    cases g <;> simp [Fixed.step, Coll.burn, hz]
  | collTransfer g id to =>
    have hz : id ∉ s.coll.ids := by simpa [Fixed.supplyRejects] using h
    cases g <;> simp [Fixed.step, Coll.transfer, hz]
  | noise g => simp [Fixed.supplyRejects] at h

/-- … and conversely a closed gate is the ONLY other reason for a non-mint op to fail: with the gate open, Purge,
BurnRemaining, holder burns / transfers and `noise` succeed exactly when the supply guards do not reject (for Mint /
MintFor / Shuffle the witness must also be valid: `C01_mintFor_available_succeeds`, `C01_shuffle_rejects_non_permutation`). -/
theorem C01_supplyRejects_complete (s : Fixed) (op : FOp)
    (hop : match op with | .purge g | .burnRemaining g | .collBurn g _ | .collTransfer g _ _ | .noise g => g = true
                         | _ => False)
    (h : s.supplyRejects op = false) : (s.step op).isSome = true := by
  cases op with
  | mint g p o => exact absurd hop id
  | mintFor g i o => exact absurd hop id
  | shuffle g perm => exact absurd hop id
  | purge g =>
    have hz : s.mintable = 0 := by simpa [Fixed.supplyRejects] using h
    subst hop; simp [Fixed.step, Fixed.purge, hz]
  | burnRemaining g =>
    have hz : s.mintable ≠ 0 := by simpa [Fixed.supplyRejects] using h
    subst hop; simp [Fixed.step, Fixed.burnAll, hz]
  | collBurn g i =>
    have hz : i ∈ s.coll.ids := by simpa [Fixed.supplyRejects] using h
    subst hop; simp [Fixed.step, Coll.burn, hz]
  | collTransfer g i to =>
    have hz : i ∈ s.coll.ids := by simpa [Fixed.supplyRejects] using h
    subst hop; simp [Fixed.step, Coll.transfer, hz]
  | noise g => subst hop; simp [Fixed.step]

/-- Frame: an op that is not Mint / MintTo / MintFor / completing deposit / Shuffle / BurnRemaining — i.e. Purge, a
holder's burn or transfer, and `noise` = ANY other message (SetWhitelist, price / time / limit / discount updates, sudo
UpdateStatus, migrate, collection calls by non-minters, a message variant nobody has modelled) — leaves the whole
minter-side supply state alone.  This is a statement about the MODEL's op set; that the contracts' remaining messages
really are such frame ops is what the harness validates by sending every `ExecuteMsg` / `SudoMsg` variant it finds in the
crates' JSON schemas (known or not) and `migrate` under the full observation vector and the monitors. -/
theorem C01_frame (s s' : Fixed) (op : FOp) (hop : op.touchesSupply = false) (h : s.step op = some s') :
    s'.pos = s.pos ∧ s'.mintable = s.mintable ∧ s'.minted = s.minted ∧ s'.burned = s.burned ∧ s'.n = s.n := by
  cases op with
  | mint g p o => simp [FOp.touchesSupply] at hop
  | mintFor g i o => simp [FOp.touchesSupply] at hop
  | shuffle g perm => simp [FOp.touchesSupply] at hop
  | burnRemaining g => simp [FOp.touchesSupply] at hop
  | purge g => obtain ⟨rfl, _⟩ := C01_purge_frame s s' g h; exact ⟨rfl, rfl, rfl, rfl, rfl⟩
  | collBurn g i =>
    cases g <;> simp [Fixed.step] at h
    obtain ⟨c, _, rfl⟩ := h; exact ⟨rfl, rfl, rfl, rfl, rfl⟩
  | collTransfer g i to =>
    cases g <;> simp [Fixed.step] at h
    obtain ⟨c, _, rfl⟩ := h; exact ⟨rfl, rfl, rfl, rfl, rfl⟩
  | noise g => cases g <;> simp [Fixed.step] at h; subst h; exact ⟨rfl, rfl, rfl, rfl, rfl⟩

/-- `noise` changes nothing at all (collection included) -/
theorem C01_noise_frame (s s' : Fixed) (g : Bool) (h : s.step (.noise g) = some s') : s' = s := by
  cases g <;> simp [Fixed.step] at h; exact h.symm

/-- history level: any interleaving of frame ops (successful or not), of any length, leaves the position map, the
counter, the mint log and the burn count exactly as they were -/
theorem C01_frame_history (s : Fixed) (ops : List FOp) (hops : ∀ op ∈ ops, op.touchesSupply = false) :
    (s.run ops).pos = s.pos ∧ (s.run ops).mintable = s.mintable ∧ (s.run ops).minted = s.minted ∧
      (s.run ops).burned = s.burned ∧ (s.run ops).n = s.n := by
  induction ops generalizing s with
  | nil => exact ⟨rfl, rfl, rfl, rfl, rfl⟩
  | cons op ops ih =>
    rw [Fixed.run_cons]
    have hrest : ∀ o ∈ ops, o.touchesSupply = false := fun o ho => hops o (List.mem_cons_of_mem _ ho)
    unfold Fixed.step'
    cases h : s.step op with
    | none => simpa using ih s hrest
    | some s' =>
      simp only [Option.getD_some]
      obtain ⟨a1, a2, a3, a4, a5⟩ := C01_frame s s' op (hops op (List.mem_cons_self)) h
      obtain ⟨b1, b2, b3, b4, b5⟩ := ih s' hrest
      exact ⟨b1.trans a1, b2.trans a2, b3.trans a3, b4.trans a4, b5.trans a5⟩

/-- No id is ever lost or invented: in every reachable state, as long as nothing was burned, EVERY id of `1..=n` is
either still mintable or in the mint log (never both: `C01_collection`), so "remaining = 1..=n minus minted" as sets;
in general the three numbers add up to `n`. -/
theorem C01_no_id_lost (n : Nat) (perm : List Nat) (s : Fixed) (h : Fixed.init n perm = some s) (ops : List FOp) :
    let t := s.run ops
    (t.burned = 0 → ∀ id, 1 ≤ id → id ≤ n → (id ∈ t.ids ∨ id ∈ t.minted)) ∧
    t.ids.length + t.minted.length + t.burned = n ∧ (∀ id ∈ t.ids, id ∉ t.minted) := by
  obtain ⟨hi, hn⟩ := C01_inv n perm s h ops
  have hlen : (s.run ops).ids.length = (s.run ops).pos.length := by simp [Fixed.ids]
  refine ⟨fun hb id h1 h2 => ?_, by rw [hlen, hi.total, hn], hi.fresh⟩
  have hnd : ((s.run ops).ids ++ (s.run ops).minted).Nodup :=
    List.nodup_append.mpr ⟨hi.nodup, hi.mnodup, fun a ha b hb' hab => hi.fresh a ha (hab ▸ hb')⟩
  have hr : ∀ y ∈ (s.run ops).ids ++ (s.run ops).minted, 1 ≤ y ∧ y ≤ n := fun y hy => by
    rcases List.mem_append.mp hy with hy | hy
    · exact hn ▸ hi.range y hy
    · exact hn ▸ hi.mrange y hy
  have hl : n ≤ ((s.run ops).ids ++ (s.run ops).minted).length := by
    have := hi.total; rw [List.length_append, hlen]; omega
  exact List.mem_append.mp (mem_of_nodup_range_length _ n hnd hr hl id h1 h2)

/-- sequential family: soundness of the gate rule … -/
theorem C01_seq_supplyRejects_sound (s : Seq) (op : QOp) (h : s.supplyRejects op = true) : s.step op = none := by
  cases op with
  | mint g o =>
    have hz : s.mintable = some 0 := by simpa [Seq.supplyRejects] using h
    exact C01_seq_no_mint_at_zero s g o hz
  | burnRemaining g =>
    have hz : s.burnRemaining = none := by simpa [Seq.supplyRejects] using h
    cases g <;> simp [Seq.step, hz]
  | purge g =>
    have hz : s.purge = none := by simpa [Seq.supplyRejects] using h
    cases g <;> simp [Seq.step, hz]
  | collBurn g id =>
    have hz : id ∉ s.coll.ids := by simpa [Seq.supplyRejects] using h
    cases g <;> simp [Seq.step, Coll.burn, hz]
  | collTransfer g id to =>
    have hz : id ∉ s.coll.ids := by simpa [Seq.supplyRejects] using h
    cases g <;> simp [Seq.step, Coll.transfer, hz]
  | noise g => simp [Seq.supplyRejects] at h

/-- … and frame: Purge, holder burns / transfers and ANY other message leave `TOKEN_INDEX`, `TOTAL_MINT_COUNT`, the
counter, the cap, the burnt flag and the issued ids alone (validated against the contracts as for `C01_frame`) -/
theorem C01_seq_frame (s s' : Seq) (op : QOp) (hop : op.touchesSupply = false) (h : s.step op = some s') :
    s'.tokenIndex = s.tokenIndex ∧ s'.totalMint = s.totalMint ∧ s'.mintable = s.mintable ∧ s'.cap = s.cap ∧
      s'.burned = s.burned ∧ s'.issued = s.issued := by
  cases op with
  | mint g o => simp [QOp.touchesSupply] at hop
  | burnRemaining g => simp [QOp.touchesSupply] at hop
  | purge g => rw [C01_seq_purge_frame s s' g h]; exact ⟨rfl, rfl, rfl, rfl, rfl, rfl⟩
  | collBurn g i =>
    cases g <;> simp [Seq.step] at h
    obtain ⟨c, _, rfl⟩ := h; exact ⟨rfl, rfl, rfl, rfl, rfl, rfl⟩
  | collTransfer g i to =>
    cases g <;> simp [Seq.step] at h
    obtain ⟨c, _, rfl⟩ := h; exact ⟨rfl, rfl, rfl, rfl, rfl, rfl⟩
  | noise g => cases g <;> simp [Seq.step] at h; subst h; exact ⟨rfl, rfl, rfl, rfl, rfl, rfl⟩

theorem C01_seq_frame_history (s : Seq) (ops : List QOp) (hops : ∀ op ∈ ops, op.touchesSupply = false) :
    (s.run ops).tokenIndex = s.tokenIndex ∧ (s.run ops).totalMint = s.totalMint ∧
      (s.run ops).mintable = s.mintable ∧ (s.run ops).issued = s.issued := by
  induction ops generalizing s with
  | nil => exact ⟨rfl, rfl, rfl, rfl⟩
  | cons op ops ih =>
    rw [Seq.run_cons]
    have hrest : ∀ o ∈ ops, o.touchesSupply = false := fun o ho => hops o (List.mem_cons_of_mem _ ho)
    unfold Seq.step'
    cases h : s.step op with
    | none => simpa using ih s hrest
    | some s' =>
      simp only [Option.getD_some]
      obtain ⟨a1, a2, a3, _, _, a6⟩ := C01_seq_frame s s' op (hops op (List.mem_cons_self)) h
      obtain ⟨b1, b2, b3, b4⟩ := ih s' hrest
      exact ⟨b1.trans a1, b2.trans a2, b3.trans a3, b4.trans a6⟩

/-! ## Non-vacuity: the hypotheses are satisfiable and the operations do succeed -/

example : (Fixed.init 3 [2, 3, 1]).isSome = true := by decide
example : (Fixed.init 3 [2, 2, 1]).isSome = false := by decide
/-- sell-out with a shuffle, a mint-for, a failed re-mint-for, a holder burn, a failed mint at zero, a purge -/
example :
    ((Fixed.init 3 [2, 3, 1]).map fun s =>
      let t := s.run [.mint true 3 7, .shuffle true [3, 2], .mintFor true 2 8, .mintFor true 2 8, .collBurn true 1,
                      .mint true 1 9, .mint true 1 9, .purge true]
      (t.minted, t.mintable, t.coll.ids, t.coll.count)) = some ([3, 2, 1], 0, [3, 2], 2) := by decide
example :
    ((Fixed.init 4 [4, 1, 3, 2]).map fun s =>
      let t := s.run [.mint true 2 7, .burnRemaining true, .mint true 1 7, .mintFor true 4 7]
      (t.minted, t.mintable, t.burned)) = some ([1], 0, 3) := by decide
/-- open edition with the factory cap 2 captured at creation: ids 1,2 then sold out; -wl-flex uncapped -/
example :
    (let t := (Seq.create .openEdition none 2 true).run [.mint true 5, .mint true 6, .mint true 7]
     (t.issued, t.totalMint, t.mintable)) = ([2, 1], 2, some 0) := by decide
example :
    (let t := (Seq.create .openEditionFlex none 2 true).run [.mint true 5, .mint true 6, .mint true 7, .burnRemaining true]
     (t.issued, t.totalMint, t.mintable, t.burned)) = ([3, 2, 1], 3, none, false) := by decide
example :
    (let t := (Seq.create .openEditionMerkle (some 5) 9 false).run [.mint true 5, .burnRemaining true, .mint true 6]
     (t.issued, t.totalMint, t.mintable, t.burned)) = ([1], 1, some 0, true) := by decide

end LP
