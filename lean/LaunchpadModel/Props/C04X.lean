import LaunchpadModel.Lemmas.SaleWindow
import LaunchpadModel.Model.SaleWindowX
/-!
# C04, round 3: frame theorem, window invariant, history theorems over the extended message surface

`Props/C04.lean` proves every clause per message and three history theorems over `SaleWindow.Op`. This file adds what the
round-3 review asked for (all about the same `step`, lifted to `stepX` = `step` + factory governance + `MintFor`):

* `C04_schedule_frame` / `C04_schedule_frame_x` — "the schedule itself can only be changed safely" as ONE statement about an
  arbitrary successful step: if the start differs afterwards the step WAS the admin's `UpdateStartTime` under its conditions;
  likewise end / `UpdateEndTime`, attached whitelist / `SetWhitelist`; the admin never changes. Every other message — mints,
  airdrops, deposits, `MintFor`, whitelist edits, clock steps, factory governance, and `minterEnv` (= `UpdateMintPrice`,
  discounts, `UpdatePerAddressLimit`, `Purge`, `Shuffle`, `BurnRemaining`, `UpdateStartTradingTime`, sudo `UpdateStatus`,
  `migrate`, any unknown variant) — is thereby shown not to move them IN THE MODEL; that the real code behaves like
  `minterEnv` for those messages is validated by the harness only (it compares start / end / whitelist after each).
* `C04_window_wellformed` — history invariant: along every run from `init` an end time exists only on open editions and is
  never before the start (`UpdateStartTime` checks `t ≤ end`, `UpdateEndTime` checks `t ≥ start`, creation `start < end`).
* `C04_*_x` — the history theorems of `Props/C04.lean` over `runX`; `C04_schedule_history_x`: over any history, start / end /
  whitelist are unchanged unless the history contains the corresponding admin message.
* `C04_attach_before_start_partial` + `C04_attach_before_start_counterexample` — the literal clause "a whitelist can only be
  attached … BEFORE the mint start" fails at creation of a vending minter with `start_time = now` (the factory / `instantiate`
  check is `now > start ⇒ error`): the whitelist is attached AT the start instant. What holds: strictly before for
  `SetWhitelist` and for open editions, `now ≤ start` for creation, never an active whitelist. Recorded as an observation
  (DESIGN 13.3), not a finding.
-/
namespace LP
namespace SaleWindow

/-! ## one step: who can change the schedule -/

/-- the conditions under which each of the three schedule fields may differ after a step, and the admin never does -/
def SchedFrame (s : State) (op : Op) (m m' : Minter) : Prop :=
  (m'.start ≠ m.start → ∃ t, op = .updateStart m.admin t ∧ s.now < m.start ∧ s.now ≤ t ∧ m'.start = t) ∧
  (m'.stop ≠ m.stop → ∃ t, op = .updateEnd m.admin t ∧ s.v.family = .openEdition ∧ (∃ e, m.stop = some e ∧ s.now < e) ∧
      s.now ≤ t ∧ m.start ≤ t ∧ m'.stop = some t) ∧
  (m'.wl ≠ m.wl → ∃ k, op = .setWhitelist m.admin k ∧ s.now < m.start ∧ ¬ WlActive s m ∧
      (∃ w, s.wls k = some w ∧ w.isActive s.now = false) ∧ m'.wl = some k) ∧
  m'.admin = m.admin

theorem schedFrame_same {s : State} {op : Op} {m m' : Minter} (h : SameSchedule m m') : SchedFrame s op m m' := by
  obtain ⟨h1, h2, h3, h4⟩ := h
  exact ⟨fun hn => absurd h1 hn, fun hn => absurd h2 hn, fun hn => absurd h3 hn, h4⟩

theorem executeMint_same {s : State} {m m' : Minter} {sender : Addr} {funds : List Coin} {isAdmin : Bool} {kind : MintKind}
    (h : executeMint s m sender funds isAdmin kind = .ok m') : SameSchedule m m' := by
  obtain ⟨-, -, -, -, h1, h2, h3, h4⟩ := executeMint_ok h
  exact ⟨h1, h2, h3, h4⟩

/-- "The schedule itself can only be changed safely", as a frame theorem over an ARBITRARY successful message: whatever
the message was, if the start time differs afterwards it was the admin's `UpdateStartTime t` sent strictly before the old
start with `t ≥ now`; if the end time differs it was the admin's `UpdateEndTime t` on an open edition strictly before the
old end with `t ≥ now`, `t ≥ start`; if the attached whitelist differs it was the admin's `SetWhitelist k` strictly before
the start with neither the old nor the new whitelist active; and the admin itself never changes. -/
theorem C04_schedule_frame (s s' : State) (op : Op) (m m' : Minter)
    (h : step s op = .ok s') (hm : s.minter = some m) (hm' : s'.minter = some m') : SchedFrame s op m m' := by
  cases op with
  | setTime t =>
    simp only [step] at h
    split at h
    · contradiction
    · cases h
      simp only at hm'
      rw [hm] at hm'; cases hm'
      exact schedFrame_same ⟨rfl, rfl, rfl, rfl⟩
  | wlEnv k w =>
    simp only [step] at h
    cases h
    simp only at hm'
    rw [hm] at hm'; cases hm'
    exact schedFrame_same ⟨rfl, rfl, rfl, rfl⟩
  | create sender start stop wl price limit ntok =>
    obtain ⟨m1, hm1, rfl⟩ := map_ok h
    have := (create_ok hm1).1
    rw [hm] at this; cases this
  | mint a =>
    obtain ⟨m0, m1, hm0, hf, rfl⟩ := withMinter_ok h
    rw [hm] at hm0; cases hm0
    simp only at hm'; cases hm'
    obtain ⟨kind, -, -, -, hex⟩ := mintSender_ok hf
    exact schedFrame_same (executeMint_same hex)
  | mintTo sender rcpt funds =>
    obtain ⟨m0, m1, hm0, hf, rfl⟩ := withMinter_ok h
    rw [hm] at hm0; cases hm0
    simp only at hm'; cases hm'
    obtain ⟨-, -, key, hex⟩ := mintTo_ok hf
    exact schedFrame_same (executeMint_same hex)
  | deposit owner rcpt =>
    obtain ⟨m0, m1, hm0, hf, rfl⟩ := withMinter_ok h
    rw [hm] at hm0; cases hm0
    simp only at hm'; cases hm'
    exact schedFrame_same (deposit_schedule hf)
  | updateStart sender t =>
    obtain ⟨m0, m1, hm0, hf, rfl⟩ := withMinter_ok h
    rw [hm] at hm0; cases hm0
    simp only at hm'; cases hm'
    obtain ⟨rfl, hlt, hle, -, -, rfl⟩ := updateStart_ok hf
    exact ⟨fun _ => ⟨t, rfl, hlt, hle, rfl⟩, fun hn => absurd rfl hn, fun hn => absurd rfl hn, rfl⟩
  | updateEnd sender t =>
    obtain ⟨m0, m1, hm0, hf, rfl⟩ := withMinter_ok h
    rw [hm] at hm0; cases hm0
    simp only at hm'; cases hm'
    obtain ⟨hoe, rfl, hex, hle, hst, rfl⟩ := updateEnd_ok hf
    exact ⟨fun hn => absurd rfl hn, fun _ => ⟨t, rfl, hoe, hex, hle, hst, rfl⟩, fun hn => absurd rfl hn, rfl⟩
  | setWhitelist sender k =>
    obtain ⟨m0, m1, hm0, hf, rfl⟩ := withMinter_ok h
    rw [hm] at hm0; cases hm0
    simp only at hm'; cases hm'
    obtain ⟨rfl, hlt, hna, ⟨w, hw, hwna, -⟩, rfl⟩ := setWhitelist_ok hf
    exact ⟨fun hn => absurd rfl hn, fun hn => absurd rfl hn, fun _ => ⟨k, rfl, hlt, hna, ⟨w, hw, hwna⟩, rfl⟩, rfl⟩
  | minterEnv price perAddr mintable pp pw =>
    obtain ⟨m0, m1, hm0, hf, rfl⟩ := withMinter_ok h
    rw [hm] at hm0; cases hm0
    simp only at hm'; cases hm'
    cases hf
    exact schedFrame_same ⟨rfl, rfl, rfl, rfl⟩

/-- a successful step never removes the minter, never changes the variant, and only `create` makes one -/
theorem step_keeps {s s' : State} {op : Op} (h : step s op = .ok s') :
    s'.v = s.v ∧ (∀ m, s.minter = some m → ∃ m', s'.minter = some m') := by
  cases op with
  | setTime t =>
    simp only [step] at h
    split at h
    · contradiction
    · cases h; exact ⟨rfl, fun m hm => ⟨m, hm⟩⟩
  | wlEnv k w => simp only [step] at h; cases h; exact ⟨rfl, fun m hm => ⟨m, hm⟩⟩
  | create sender start stop wl price limit ntok =>
    obtain ⟨m1, hm1, rfl⟩ := map_ok h
    exact ⟨rfl, fun m hm => ⟨m1, rfl⟩⟩
  | mint a => obtain ⟨m0, m1, -, -, rfl⟩ := withMinter_ok h; exact ⟨rfl, fun _ _ => ⟨m1, rfl⟩⟩
  | mintTo sender rcpt funds => obtain ⟨m0, m1, -, -, rfl⟩ := withMinter_ok h; exact ⟨rfl, fun _ _ => ⟨m1, rfl⟩⟩
  | deposit owner rcpt => obtain ⟨m0, m1, -, -, rfl⟩ := withMinter_ok h; exact ⟨rfl, fun _ _ => ⟨m1, rfl⟩⟩
  | updateStart sender t => obtain ⟨m0, m1, -, -, rfl⟩ := withMinter_ok h; exact ⟨rfl, fun _ _ => ⟨m1, rfl⟩⟩
  | updateEnd sender t => obtain ⟨m0, m1, -, -, rfl⟩ := withMinter_ok h; exact ⟨rfl, fun _ _ => ⟨m1, rfl⟩⟩
  | setWhitelist sender k => obtain ⟨m0, m1, -, -, rfl⟩ := withMinter_ok h; exact ⟨rfl, fun _ _ => ⟨m1, rfl⟩⟩
  | minterEnv price perAddr mintable pp pw => obtain ⟨m0, m1, -, -, rfl⟩ := withMinter_ok h; exact ⟨rfl, fun _ _ => ⟨m1, rfl⟩⟩

/-! ## the extended surface -/

theorem mintFor_ok {s : State} {m m' : Minter} {sender rcpt : Addr} {funds : List Coin} {free : Bool}
    (h : mintFor s m sender rcpt funds free = .ok m') :
    s.v.family ≠ .openEdition ∧ sender = m.admin ∧ free = true ∧ mintTo s m sender rcpt funds = .ok m' := by
  unfold mintFor at h
  repeat' (split at h)
  all_goals first
    | contradiction
    | (refine ⟨?_, ?_, ?_, h⟩ <;> simp_all)

/-- `MintFor` exists only outside the open-edition family (where no airdrop is time-gated by the property), is the admin's,
and needs a token id that is still free -/
theorem C04_mint_for (s s' : State) (m : Minter) (sender rcpt : Addr) (funds : List Coin) (free : Bool)
    (hm : s.minter = some m) (h : stepX s (.mintFor sender rcpt funds free) = .ok s') :
    s.v.family ≠ .openEdition ∧ sender = m.admin ∧ free = true ∧ step s (.mintTo sender rcpt funds) = .ok s' := by
  obtain ⟨m0, m1, hm0, hf, rfl⟩ := withMinter_ok h
  rw [hm] at hm0; cases hm0
  obtain ⟨h1, h2, h3, h4⟩ := mintFor_ok hf
  refine ⟨h1, h2, h3, ?_⟩
  simp [step, withMinter, hm, h4, Except.map]

/-- the frame theorem over the extended surface: only the three admin messages (`OpX.base …`) can move the schedule -/
theorem C04_schedule_frame_x (s s' : State) (op : OpX) (m m' : Minter)
    (h : stepX s op = .ok s') (hm : s.minter = some m) (hm' : s'.minter = some m') :
    ∃ b, SchedFrame s b m m' ∧ (op = .base b ∨ SameSchedule m m') := by
  cases op with
  | base b => exact ⟨b, C04_schedule_frame s s' b m m' h hm hm', Or.inl rfl⟩
  | paramsEnv mp ap =>
    simp only [stepX] at h
    cases h
    simp only at hm'
    rw [hm] at hm'; cases hm'
    exact ⟨.setTime 0, schedFrame_same ⟨rfl, rfl, rfl, rfl⟩, Or.inr ⟨rfl, rfl, rfl, rfl⟩⟩
  | mintFor sender rcpt funds free =>
    obtain ⟨-, -, -, hto⟩ := C04_mint_for s s' m sender rcpt funds free hm h
    have hfr := C04_schedule_frame s s' _ m m' hto hm hm'
    have hsame : SameSchedule m m' := by
      obtain ⟨h1, h2, h3, h4⟩ := hfr
      refine ⟨?_, ?_, ?_, h4⟩
      · by_cases hc : m'.start = m.start
        · exact hc
        · obtain ⟨t, ht, -⟩ := h1 hc; cases ht
      · by_cases hc : m'.stop = m.stop
        · exact hc
        · obtain ⟨t, ht, -⟩ := h2 hc; cases ht
      · by_cases hc : m'.wl = m.wl
        · exact hc
        · obtain ⟨k, hk, -⟩ := h3 hc; cases hk
    exact ⟨_, hfr, Or.inr hsame⟩

theorem stepX_keeps {s s' : State} {op : OpX} (h : stepX s op = .ok s') :
    s.now ≤ s'.now ∧ s'.v = s.v ∧ (∀ m, s.minter = some m → ∃ m', s'.minter = some m') := by
  cases op with
  | base b => exact ⟨(step_frame h).1, step_keeps h⟩
  | paramsEnv mp ap => simp only [stepX] at h; cases h; exact ⟨Nat.le_refl _, rfl, fun m hm => ⟨m, hm⟩⟩
  | mintFor sender rcpt funds free =>
    obtain ⟨m0, m1, -, -, rfl⟩ := withMinter_ok h
    exact ⟨Nat.le_refl _, rfl, fun _ _ => ⟨m1, rfl⟩⟩

/-- one (possibly failing) step of the extended surface: clock monotone, variant fixed, minter kept, schedule frame -/
theorem stepX'_frame (s : State) (op : OpX) :
    s.now ≤ (stepX' s op).now ∧ (stepX' s op).v = s.v ∧
    ∀ m, s.minter = some m → ∃ m', (stepX' s op).minter = some m' ∧
      ∃ b, SchedFrame s b m m' ∧ (op = .base b ∨ SameSchedule m m') := by
  unfold stepX'
  cases h : stepX s op with
  | error e =>
    exact ⟨Nat.le_refl _, rfl, fun m hm => ⟨m, hm, .setTime 0, schedFrame_same ⟨rfl, rfl, rfl, rfl⟩, Or.inr ⟨rfl, rfl, rfl, rfl⟩⟩⟩
  | ok s' =>
    obtain ⟨h1, h2, h3⟩ := stepX_keeps h
    refine ⟨h1, h2, fun m hm => ?_⟩
    obtain ⟨m', hm'⟩ := h3 m hm
    exact ⟨m', hm', C04_schedule_frame_x s s' op m m' h hm hm'⟩

theorem runX_cons (s : State) (op : OpX) (ops : List OpX) : runX s (op :: ops) = runX (stepX' s op) ops := by
  simp [runX, List.foldl_cons]

/-! ## histories over the extended surface -/

/-- the clock is monotone along every history -/
theorem C04_clock_monotone_x (s : State) (ops : List OpX) : s.now ≤ (runX s ops).now := by
  induction ops generalizing s with
  | nil => exact Nat.le_refl _
  | cons op ops ih =>
    rw [runX_cons]
    exact Nat.le_trans (stepX'_frame s op).1 (ih (stepX' s op))

/-- once `now ≥ start` has held, the start time and the attached whitelist are the same after EVERY continuation over the
full message surface (incl. factory governance, `MintFor`, migrations / unknown messages as `minterEnv`) -/
theorem C04_started_is_final_x (s : State) (m : Minter) (ops : List OpX)
    (hm : s.minter = some m) (hstarted : m.start ≤ s.now) :
    ∃ m', (runX s ops).minter = some m' ∧ m'.start = m.start ∧ m'.wl = m.wl ∧ m'.admin = m.admin := by
  induction ops generalizing s m with
  | nil => exact ⟨m, hm, rfl, rfl, rfl⟩
  | cons op ops ih =>
    rw [runX_cons]
    obtain ⟨hmono, -, hfr⟩ := stepX'_frame s op
    obtain ⟨m1, hm1, b, ⟨hs, -, hw, ha⟩, -⟩ := hfr m hm
    have hs1 : m1.start = m.start := by
      by_cases hc : m1.start = m.start
      · exact hc
      · obtain ⟨t, -, hlt, -⟩ := hs hc; omega
    have hw1 : m1.wl = m.wl := by
      by_cases hc : m1.wl = m.wl
      · exact hc
      · obtain ⟨k, -, hlt, -⟩ := hw hc; omega
    obtain ⟨m', hm', h1, h2, h3⟩ := ih (stepX' s op) m1 hm1 (by omega)
    exact ⟨m', hm', by omega, by rw [h2, hw1], by rw [h3, ha]⟩

/-- once `now ≥ end` has held the end never changes again -/
theorem C04_ended_is_final_x (s : State) (m : Minter) (e : Nat) (ops : List OpX)
    (hm : s.minter = some m) (he : m.stop = some e) (hended : e ≤ s.now) :
    ∃ m', (runX s ops).minter = some m' ∧ m'.stop = some e := by
  induction ops generalizing s m with
  | nil => exact ⟨m, hm, he⟩
  | cons op ops ih =>
    rw [runX_cons]
    obtain ⟨hmono, -, hfr⟩ := stepX'_frame s op
    obtain ⟨m1, hm1, b, ⟨-, hst, -, -⟩, -⟩ := hfr m hm
    have he1 : m1.stop = some e := by
      by_cases hc : m1.stop = m.stop
      · rw [hc]; exact he
      · obtain ⟨t, -, -, ⟨e0, he0, hlt⟩, -⟩ := hst hc
        rw [he] at he0; cases he0; omega
    exact ih (stepX' s op) m1 hm1 he1 (by omega)

/-- "the schedule can only be changed by …" over histories: whatever happened — any messages by anyone, any clock steps,
whitelist edits, governance, migrations — the start is unchanged unless the history contains an `UpdateStartTime` sent by
the admin, the end unless it contains the admin's `UpdateEndTime`, the whitelist unless it contains the admin's
`SetWhitelist`; and the admin is the same throughout. -/
theorem C04_schedule_history_x (s : State) (m : Minter) (ops : List OpX) (hm : s.minter = some m) :
    ∃ m', (runX s ops).minter = some m' ∧ m'.admin = m.admin ∧
      ((∀ t, OpX.base (.updateStart m.admin t) ∉ ops) → m'.start = m.start) ∧
      ((∀ t, OpX.base (.updateEnd m.admin t) ∉ ops) → m'.stop = m.stop) ∧
      ((∀ k, OpX.base (.setWhitelist m.admin k) ∉ ops) → m'.wl = m.wl) := by
  induction ops generalizing s m with
  | nil => exact ⟨m, hm, rfl, fun _ => rfl, fun _ => rfl, fun _ => rfl⟩
  | cons op ops ih =>
    rw [runX_cons]
    obtain ⟨-, -, hfr⟩ := stepX'_frame s op
    obtain ⟨m1, hm1, b, ⟨hs, hst, hw, ha⟩, hb⟩ := hfr m hm
    obtain ⟨m', hm', h0, h1, h2, h3⟩ := ih (stepX' s op) m1 hm1
    refine ⟨m', hm', by rw [h0, ha], ?_, ?_, ?_⟩
    · intro hno
      have e1 : m1.start = m.start := by
        by_cases hc : m1.start = m.start
        · exact hc
        · obtain ⟨t, rfl, -⟩ := hs hc
          rcases hb with rfl | hsame
          · exact absurd (List.mem_cons_self) (hno t)
          · exact hsame.1
      rw [← e1]
      exact h1 (fun t hmem => hno t (by rw [← ha]; exact List.mem_cons_of_mem _ hmem))
    · intro hno
      have e1 : m1.stop = m.stop := by
        by_cases hc : m1.stop = m.stop
        · exact hc
        · obtain ⟨t, rfl, -⟩ := hst hc
          rcases hb with rfl | hsame
          · exact absurd (List.mem_cons_self) (hno t)
          · exact hsame.2.1
      rw [← e1]
      exact h2 (fun t hmem => hno t (by rw [← ha]; exact List.mem_cons_of_mem _ hmem))
    · intro hno
      have e1 : m1.wl = m.wl := by
        by_cases hc : m1.wl = m.wl
        · exact hc
        · obtain ⟨k, rfl, -⟩ := hw hc
          rcases hb with rfl | hsame
          · exact absurd (List.mem_cons_self) (hno k)
          · exact hsame.2.2.1
      rw [← e1]
      exact h3 (fun k hmem => hno k (by rw [← ha]; exact List.mem_cons_of_mem _ hmem))

/-! ## the window stays well-formed -/

/-- an end time exists only on an open edition and is not before the start -/
def WindowOk (s : State) : Prop :=
  ∀ m, s.minter = some m → ∀ e, m.stop = some e → s.v.family = .openEdition ∧ m.start ≤ e

theorem windowOk_step {s s' : State} {op : Op} (h : step s op = .ok s') (hw : WindowOk s) : WindowOk s' := by
  intro m' hm' e he
  obtain ⟨hv, hk⟩ := step_keeps h
  cases hs : s.minter with
  | none =>
    -- only `create` succeeds without a minter
    cases op with
    | create sender start stop wl price limit ntok =>
      obtain ⟨m1, hm1, rfl⟩ := map_ok h
      simp only at hm'; cases hm'
      obtain ⟨-, hst, -, -, hoe, -⟩ := create_ok hm1
      by_cases hf : s.v.family = .openEdition
      · exact ⟨hf, by have := (hoe hf).2 e he; omega⟩
      · unfold create at hm1
        split at hm1
        · contradiction
        · split at hm1
          · contradiction
          · split at hm1
            · contradiction
            · cases hm1
              simp at he
    | setTime t =>
      simp only [step] at h
      split at h
      · contradiction
      · cases h; simp only at hm'; rw [hs] at hm'; cases hm'
    | wlEnv k w => simp only [step] at h; cases h; simp only at hm'; rw [hs] at hm'; cases hm'
    | mint a => obtain ⟨m0, m1, hm0, -, -⟩ := withMinter_ok h; rw [hs] at hm0; cases hm0
    | mintTo sender rcpt funds => obtain ⟨m0, m1, hm0, -, -⟩ := withMinter_ok h; rw [hs] at hm0; cases hm0
    | deposit owner rcpt => obtain ⟨m0, m1, hm0, -, -⟩ := withMinter_ok h; rw [hs] at hm0; cases hm0
    | updateStart sender t => obtain ⟨m0, m1, hm0, -, -⟩ := withMinter_ok h; rw [hs] at hm0; cases hm0
    | updateEnd sender t => obtain ⟨m0, m1, hm0, -, -⟩ := withMinter_ok h; rw [hs] at hm0; cases hm0
    | setWhitelist sender k => obtain ⟨m0, m1, hm0, -, -⟩ := withMinter_ok h; rw [hs] at hm0; cases hm0
    | minterEnv price perAddr mintable pp pw => obtain ⟨m0, m1, hm0, -, -⟩ := withMinter_ok h; rw [hs] at hm0; cases hm0
  | some m =>
    obtain ⟨hst, hsp, -, -⟩ := C04_schedule_frame s s' op m m' h hs hm'
    rw [hv]
    by_cases c1 : m'.stop = m.stop
    · obtain ⟨hoe, hle⟩ := hw m hs e (by rw [← c1]; exact he)
      refine ⟨hoe, ?_⟩
      by_cases c2 : m'.start = m.start
      · omega
      · obtain ⟨t, hop, -, -, ht⟩ := hst c2
        subst hop
        obtain ⟨m0, m1, hm0, hf, rfl⟩ := withMinter_ok h
        rw [hs] at hm0; cases hm0
        simp only at hm'; cases hm'
        obtain ⟨-, -, -, -, hbound, rfl⟩ := updateStart_ok hf
        have := hbound hoe e (by simpa using he)
        simpa using this
    · obtain ⟨t, hop, hoe, -, -, hle, ht⟩ := hsp c1
      rw [he] at ht; cases ht
      refine ⟨hoe, ?_⟩
      by_cases c2 : m'.start = m.start
      · omega
      · obtain ⟨t', hop', -⟩ := hst c2
        rw [hop] at hop'; cases hop'

theorem windowOk_stepX' (s : State) (op : OpX) (hw : WindowOk s) : WindowOk (stepX' s op) := by
  unfold stepX'
  cases h : stepX s op with
  | error e => exact hw
  | ok s' =>
    cases op with
    | base b => exact windowOk_step h hw
    | paramsEnv mp ap =>
      simp only [stepX] at h; cases h
      exact hw
    | mintFor sender rcpt funds free =>
      cases hs : s.minter with
      | none => obtain ⟨m0, m1, hm0, -, -⟩ := withMinter_ok h; rw [hs] at hm0; cases hm0
      | some m =>
        obtain ⟨-, -, -, hto⟩ := C04_mint_for s s' m sender rcpt funds free hs h
        exact windowOk_step hto hw

/-- "the end time … never before the start", as an invariant of EVERY history: starting from a world without a minter
(or from any well-formed one), after any sequence of operations an end time exists only on an open edition and
`start ≤ end` — `UpdateStartTime` and `UpdateEndTime` cannot be combined into an inverted window. -/
theorem C04_window_wellformed (s : State) (ops : List OpX) (hw : WindowOk s) : WindowOk (runX s ops) := by
  induction ops generalizing s with
  | nil => exact hw
  | cons op ops ih =>
    rw [runX_cons]
    exact ih _ (windowOk_stepX' s op hw)

theorem C04_window_wellformed_init (v : Variant) (now : Nat) (p : Params) (ops : List OpX) :
    WindowOk (runX (init v now p) ops) :=
  C04_window_wellformed _ ops (by intro m hm; simp [init] at hm)

/-! ## attaching a whitelist "before the mint start": what holds literally, and what does not

FULL literal clause (NOT provable, see the counter-example below):
  `step s op = .ok s' → s'.minter = some m' → m'.wl = some k → (the whitelist was not attached before) → s.now < m'.start`
-/

/-- what holds: a step after which whitelist `k` is newly attached ran strictly before the start — except the creation of
a vending-family minter, which may happen AT the start instant (`now = start`); in every case `k` was not active. -/
theorem C04_attach_before_start_partial (s s' : State) (op : Op) (m' : Minter) (k : Nat)
    (h : step s op = .ok s') (hm' : s'.minter = some m') (hk : m'.wl = some k)
    (hnew : ∀ m, s.minter = some m → m.wl ≠ some k) :
    (s.now < m'.start ∨ (s.minter = none ∧ s.v.family ≠ .openEdition ∧ s.now = m'.start)) ∧
    ∃ w, s.wls k = some w ∧ w.isActive s.now = false := by
  cases hs : s.minter with
  | some m =>
    obtain ⟨hst, -, hwl, -⟩ := C04_schedule_frame s s' op m m' h hs hm'
    have hne : m'.wl ≠ m.wl := by rw [hk]; exact fun e => hnew m hs e.symm
    obtain ⟨k', hop, hlt, -, hw, hk'⟩ := hwl hne
    rw [hk] at hk'; cases hk'
    refine ⟨Or.inl ?_, hw⟩
    by_cases c : m'.start = m.start
    · omega
    · obtain ⟨t, hop', -⟩ := hst c
      rw [hop] at hop'; cases hop'
  | none =>
    cases op with
    | create sender start stop wl price limit ntok =>
      obtain ⟨m1, hm1, rfl⟩ := map_ok h
      simp only at hm'; cases hm'
      obtain ⟨-, hst, hle, -, hoe, hwl⟩ := create_ok hm1
      refine ⟨?_, hwl k hk⟩
      by_cases hf : s.v.family = .openEdition
      · exact Or.inl (by have := (hoe hf).1; omega)
      · by_cases heq : s.now = m'.start
        · exact Or.inr ⟨rfl, hf, heq⟩
        · exact Or.inl (by omega)
    | setTime t =>
      simp only [step] at h
      split at h
      · contradiction
      · cases h; simp only at hm'; rw [hs] at hm'; cases hm'
    | wlEnv k w => simp only [step] at h; cases h; simp only at hm'; rw [hs] at hm'; cases hm'
    | mint a => obtain ⟨m0, m1, hm0, -, -⟩ := withMinter_ok h; rw [hs] at hm0; cases hm0
    | mintTo sender rcpt funds => obtain ⟨m0, m1, hm0, -, -⟩ := withMinter_ok h; rw [hs] at hm0; cases hm0
    | deposit owner rcpt => obtain ⟨m0, m1, hm0, -, -⟩ := withMinter_ok h; rw [hs] at hm0; cases hm0
    | updateStart sender t => obtain ⟨m0, m1, hm0, -, -⟩ := withMinter_ok h; rw [hs] at hm0; cases hm0
    | updateEnd sender t => obtain ⟨m0, m1, hm0, -, -⟩ := withMinter_ok h; rw [hs] at hm0; cases hm0
    | setWhitelist sender k => obtain ⟨m0, m1, hm0, -, -⟩ := withMinter_ok h; rw [hs] at hm0; cases hm0
    | minterEnv price perAddr mintable pp pw => obtain ⟨m0, m1, hm0, -, -⟩ := withMinter_ok h; rw [hs] at hm0; cases hm0

/-- a plain whitelist whose window lies in the future -/
def cexWl : Wl := ⟨.plain, 0, [⟨GENESIS + 50, GENESIS + 150, 60, 2, none, [(20, 0)], []⟩]⟩

/-- the counter-example to the literal clause: a vending minter created at `now = GENESIS + 5` with `start_time = now`
gets whitelist 1 attached although the mint start is NOT in the future (`start ≤ now`). Replayed on the real
vending-minter by the harness (`corpus`-style floor case `attach-at-start`, class `fl:*:create:wl:start-eq-now:ok`). -/
theorem C04_attach_before_start_counterexample :
    let s := run (init ⟨.vending, .plain⟩ (GENESIS + 5) ⟨0, 50, 0, 100⟩)
      [.wlEnv 1 cexWl, .create 10 (GENESIS + 5) none (some 1) 100 2 (some 10)]
    s.minter.map (fun m => (m.wl, decide (m.start ≤ s.now))) = some (some 1, true) := by
  decide

/-! ## non-vacuity of the new statements -/

section Examples

def exM : Minter :=
  { admin := 10, start := GENESIS + 200, stop := some (GENESIS + 300), wl := none, price := ⟨0, 100⟩, perAddr := 2, capped := true,
    mintable := some 5, pubCount := fun _ => 0, wlCount := fun _ => 0, stCount := fun _ _ => 0, stTotal := fun _ => 0 }

def exS (v : Variant) (now : Nat) : State :=
  { v := v, now := now, params := ⟨0, 50, 0, 100⟩, wls := fun _ => none, minter := some exM }

-- the start moves when the admin says so before the start; `UpdateStartTime` beyond the end is refused (window stays well-formed)
example : ((stepX (exS ⟨.openEdition, .plain⟩ (GENESIS + 100)) (.base (.updateStart 10 (GENESIS + 300)))).toOption.bind (·.minter)).map (·.start)
    = some (GENESIS + 300) := by decide
example : (stepX (exS ⟨.openEdition, .plain⟩ (GENESIS + 100)) (.base (.updateStart 10 (GENESIS + 301)))).toBool = false := by decide
-- `UpdateEndTime` below the start is refused, at the start accepted
example : (stepX (exS ⟨.openEdition, .plain⟩ (GENESIS + 100)) (.base (.updateEnd 10 (GENESIS + 199)))).toBool = false := by decide
example : (stepX (exS ⟨.openEdition, .plain⟩ (GENESIS + 100)) (.base (.updateEnd 10 (GENESIS + 200)))).toBool = true := by decide
-- `MintFor`: vending admin with a free id before the start succeeds (no gate); a taken id, a stranger, an open edition fail
example : (stepX (exS ⟨.vending, .plain⟩ (GENESIS + 100)) (.mintFor 10 30 [] true)).toBool = true := by decide
example : (stepX (exS ⟨.vending, .plain⟩ (GENESIS + 100)) (.mintFor 10 30 [] false)).toBool = false := by decide
example : (stepX (exS ⟨.vending, .plain⟩ (GENESIS + 100)) (.mintFor 11 30 [] true)).toBool = false := by decide
example : (stepX (exS ⟨.openEdition, .plain⟩ (GENESIS + 100)) (.mintFor 10 30 [] true)).toBool = false := by decide
-- governance raising the airdrop price makes a free airdrop fail, and leaves the minter alone
example : ((stepX (exS ⟨.vending, .plain⟩ (GENESIS + 100)) (.paramsEnv 50 7)).toOption.map
    (fun s => (stepX s (.base (.mintTo 10 30 []))).toBool)) = some false := by decide

end Examples

end SaleWindow
end LP
