import LaunchpadModel.Lemmas.Migrate
import LaunchpadModel.Generated.Constants
/-!
# C20 — Migrations never downgrade, never cross contract types, and preserve state

Model: `LP.Semver` (version strings, parser, printer, order) and `LP.Mig` (`Model/Migrate.lean`: the seven
behaviours of the 22 `migrate` functions of /repo over a typed abstract storage).  The same definitions run in
`Driver/C20.lean` against the real `migrate` entry points (all 22 of them) on a version grid × names × states.

`sp : Spec` is *any* compiled code: its kind, `CONTRACT_NAME` (`own`), `CONTRACT_VERSION` (`code`), accepted names.
`s : St` is *any* storage: cw2 record present or not, any version string, any other content (`other` is arbitrary).
So every theorem below is over all stored (name, version) pairs, all code versions and all contract states.
In-scope kinds (`InScope`): factories, `plain` (open-edition minters, token-merge-minter, splits, Merkle
whitelists), `vending` (six vending minters), `updatable` (sg721-updatable).
-/
namespace LP
open LP.Semver LP.Mig

/-! ## 1. "semantic-version ordering": a strict total order; the parser and printer agree with it -/

/-- the order on versions is a strict total order -/
theorem C20_order_strict_total :
    (∀ a : Version, ¬ a < a) ∧
    (∀ a b c : Version, a < b → b < c → a < c) ∧
    (∀ a b : Version, a < b → ¬ b < a) ∧
    (∀ a b : Version, a < b ∨ a = b ∨ b < a) ∧
    (∀ a b : Version, a ≤ b ↔ (a < b ∨ a = b)) :=
  ⟨lt_irrefl, fun _ _ _ => lt_trans, fun _ _ => lt_asymm, lt_trichotomy, le_iff_lt_or_eq⟩

/-- it compares components numerically, major first -/
theorem C20_order_lexicographic (a b : Version) :
    a < b ↔ a.major < b.major ∨ (a.major = b.major ∧ a.minor < b.minor) ∨
            (a.major = b.major ∧ a.minor = b.minor ∧ a.patch < b.patch) := by
  rw [lt_def]; omega

/-- what `set_contract_version(.., CONTRACT_VERSION)` writes parses back to the same version
(for every version the `semver` crate can represent: components `< 2^64`) -/
theorem C20_parse_print (v : Version) (h : Fits v) : parse (print v) = some v := parse_print v h

/-- distinct versions are recorded as distinct strings -/
theorem C20_print_injective (a b : Version) (ha : Fits a) (hb : Fits b) (h : print a = print b) : a = b :=
  print_injective ha hb h

/-- "multi-digit components where string order and version order disagree": on the *strings* `"3.9.0"` and
`"3.16.0"` (as char codes) the parser yields 3.9.0 and 3.16.0, the version order says 3.9.0 < 3.16.0, while
byte-wise string order says `"3.16.0" < "3.9.0"`. -/
theorem C20_two_digit_components :
    parse [51, 46, 57, 46, 48] = some ⟨3, 9, 0⟩ ∧
    parse [51, 46, 49, 54, 46, 48] = some ⟨3, 16, 0⟩ ∧
    (⟨3, 9, 0⟩ : Version) < ⟨3, 16, 0⟩ ∧
    strLt [51, 46, 49, 54, 46, 48] [51, 46, 57, 46, 48] = true := by
  refine ⟨by decide, by decide, by decide, by decide⟩

theorem strLt_prefix (pre x y : List Nat) : strLt (pre ++ x) (pre ++ y) = strLt x y := by
  induction pre with
  | nil => rfl
  | cons c cs ih => simp [strLt, ih]

/-- and in general: whenever a one-digit minor `a ≥ 2` meets a two-digit minor `1c`, the version order and the
byte-wise order of the *printed* versions disagree (whatever the major and patch numbers are) -/
theorem C20_string_order_disagrees (M a c p q : Nat) (ha : 2 ≤ a) (ha9 : a ≤ 9) (hc : c ≤ 9) :
    (⟨M, a, p⟩ : Version) < ⟨M, 10 + c, q⟩ ∧
    strLt (print ⟨M, 10 + c, q⟩) (print ⟨M, a, p⟩) = true := by
  refine ⟨by rw [lt_def]; simp; omega, ?_⟩
  have h1 : printNum (10 + c) = [49, 48 + c] := by
    rw [printNum_big (by omega), printNum_small (by omega)]
    have e1 : (10 + c) / 10 = 1 := by omega
    have e2 : (10 + c) % 10 = c := by omega
    simp [e1, e2]
  have h2 : printNum a = [48 + a] := printNum_small (by omega)
  have h3 : (49 : Nat) < 48 + a := by omega
  unfold print
  simp only [h1, h2]
  have e : ∀ y : List Nat, printNum M ++ DOT :: y = (printNum M ++ [DOT]) ++ y := by intro y; simp
  rw [e ([49, 48 + c] ++ DOT :: printNum q), e ([48 + a] ++ DOT :: printNum p), strLt_prefix]
  simp [strLt, h3]

/-- malformed version strings are rejected by the parser: "", "3.9", "3.9.0.1", "03.9.0", "3.9.x", "3.9.0 ",
"v3.9.0", and a component of 2^64 -/
theorem C20_parse_rejects :
    parse [] = none ∧
    parse [51, 46, 57] = none ∧
    parse [51, 46, 57, 46, 48, 46, 49] = none ∧
    parse [48, 51, 46, 57, 46, 48] = none ∧
    parse [51, 46, 57, 46, 120] = none ∧
    parse [51, 46, 57, 46, 48, 32] = none ∧
    parse [118, 51, 46, 57, 46, 48] = none ∧
    parse ([49, 56, 52, 52, 54, 55, 52, 52, 48, 55, 51, 55, 48, 57, 53, 53, 49, 54, 49, 54] ++ [46, 48, 46, 48]) = none := by
  refine ⟨by decide, by decide, by decide, by decide, by decide, by decide, by decide, by decide⟩

/-! ## 2. "a migration is refused when the stored contract identity is not one the new code accepts" -/

/-- a stored name outside the accepted names is refused — every in-scope kind, every version string, every state -/
theorem C20_refuse_foreign_name (sp : Spec) (hk : InScope sp.kind) (now : Nat) (msg : Option FMsg) (s : St) (c : Cw2)
    (hc : s.cw2 = some c) (hn : c.name ∉ sp.names) :
    ∃ e, migrate sp now msg s = .error e := by
  unfold Spec.names at hn
  cases hkind : sp.kind with
  | factory k =>
    simp [hkind] at hn
    cases h : migrate sp now msg s with
    | error e => exact ⟨e, rfl⟩
    | ok s' =>
      simp only [migrate, hkind] at h
      obtain ⟨c', v, hc', _, ⟨hn', _⟩, _⟩ := (migrateFactory_ok_iff k sp msg s s').mp h
      rw [hc] at hc'; cases hc'; exact absurd hn' hn
  | plain =>
    simp [hkind] at hn
    simp only [migrate, hkind, migratePlain_eq]
    rcases checkOwn_err_or_ok sp s with ⟨e, he⟩ | ⟨v, hv⟩
    · exact ⟨e, by rw [he]⟩
    · obtain ⟨c', hc', hn', _⟩ := (checkOwn_ok_iff sp s v).mp hv
      rw [hc] at hc'; cases hc'; exact absurd hn' hn
  | vending =>
    simp [hkind] at hn
    simp only [migrate, hkind, migrateVending_eq]
    rcases checkOwn_err_or_ok sp s with ⟨e, he⟩ | ⟨v, hv⟩
    · exact ⟨e, by rw [he]⟩
    · obtain ⟨c', hc', hn', _⟩ := (checkOwn_ok_iff sp s v).mp hv
      rw [hc] at hc'; cases hc'; exact absurd hn' hn
  | updatable =>
    simp [hkind] at hn
    cases h : migrate sp now msg s with
    | error e => exact ⟨e, rfl⟩
    | ok s' =>
      simp only [migrate, hkind] at h
      obtain ⟨c', v, hc', _, ⟨hn', _⟩, _⟩ := (migrateUpdatable_ok_iff sp now s s').mp h
      rw [hc] at hc'; cases hc'; exact absurd hn' hn
  | metaOnchain => simp [hkind, InScope] at hk
  | nt => simp [hkind, InScope] at hk
  | base721 => simp [hkind, InScope] at hk

/-- a missing or unparsable record is refused as well -/
theorem C20_refuse_no_version (sp : Spec) (hk : InScope sp.kind) (now : Nat) (msg : Option FMsg) (s : St)
    (h : recorded s = none) : ∃ e, migrate sp now msg s = .error e := by
  cases hr : migrate sp now msg s with
  | error e => exact ⟨e, rfl⟩
  | ok s' =>
    exfalso
    unfold recorded at h
    cases hkind : sp.kind with
    | factory k =>
      simp only [migrate, hkind] at hr
      obtain ⟨c, v, hc, hp, _⟩ := (migrateFactory_ok_iff k sp msg s s').mp hr
      simp [hc, hp] at h
    | plain =>
      simp only [migrate, hkind, migratePlain_eq] at hr
      rcases checkOwn_err_or_ok sp s with ⟨e, he⟩ | ⟨v, hv⟩
      · simp [he] at hr
      · obtain ⟨c, hc, _, hp, _⟩ := (checkOwn_ok_iff sp s v).mp hv
        simp [hc, hp] at h
    | vending =>
      simp only [migrate, hkind, migrateVending_eq] at hr
      rcases checkOwn_err_or_ok sp s with ⟨e, he⟩ | ⟨v, hv⟩
      · simp [he] at hr
      · obtain ⟨c, hc, _, hp, _⟩ := (checkOwn_ok_iff sp s v).mp hv
        simp [hc, hp] at h
    | updatable =>
      simp only [migrate, hkind] at hr
      obtain ⟨c, v, hc, hp, _⟩ := (migrateUpdatable_ok_iff sp now s s').mp hr
      simp [hc, hp] at h
    | metaOnchain => simp [hkind, InScope] at hk
    | nt => simp [hkind, InScope] at hk
    | base721 => simp [hkind, InScope] at hk

/-! ## 3. "… or when the stored version is newer than the code's version under semantic-version ordering" -/

/-- no downgrade: a stored version strictly above the code's is refused — every in-scope kind, name, state -/
theorem C20_refuse_newer (sp : Spec) (hk : InScope sp.kind) (now : Nat) (msg : Option FMsg) (s : St) (v : Version)
    (hv : recorded s = some v) (hnew : sp.code < v) :
    ∃ e, migrate sp now msg s = .error e := by
  cases hr : migrate sp now msg s with
  | error e => exact ⟨e, rfl⟩
  | ok s' =>
    exfalso
    unfold recorded at hv
    cases hkind : sp.kind with
    | factory k =>
      simp only [migrate, hkind] at hr
      obtain ⟨c, w, hc, hp, ⟨_, hle⟩, _⟩ := (migrateFactory_ok_iff k sp msg s s').mp hr
      simp [hc, hp] at hv; subst hv; exact hle hnew
    | plain =>
      simp only [migrate, hkind, migratePlain_eq] at hr
      rcases checkOwn_err_or_ok sp s with ⟨e, he⟩ | ⟨w, hw⟩
      · simp [he] at hr
      · obtain ⟨c, hc, _, hp, hle⟩ := (checkOwn_ok_iff sp s w).mp hw
        simp [hc, hp] at hv; subst hv; exact hle hnew
    | vending =>
      simp only [migrate, hkind, migrateVending_eq] at hr
      rcases checkOwn_err_or_ok sp s with ⟨e, he⟩ | ⟨w, hw⟩
      · simp [he] at hr
      · obtain ⟨c, hc, _, hp, hle⟩ := (checkOwn_ok_iff sp s w).mp hw
        simp [hc, hp] at hv; subst hv; exact hle hnew
    | updatable =>
      simp only [migrate, hkind] at hr
      obtain ⟨c, w, hc, hp, ⟨_, _, hle, _⟩, _⟩ := (migrateUpdatable_ok_iff sp now s s').mp hr
      simp [hc, hp] at hv; subst hv; exact hle hnew
    | metaOnchain => simp [hkind, InScope] at hk
    | nt => simp [hkind, InScope] at hk
    | base721 => simp [hkind, InScope] at hk

/-! ## 4. "… and is accepted for every older version of an accepted identity that the code declares compatible"
Exact success conditions, per class. -/

/-- open-edition minters, token-merge-minter, splits, Merkle whitelists: accepted **iff** own name ∧ stored ≤ code -/
theorem C20_plain_accept_iff (sp : Spec) (s : St) :
    (∃ s', migratePlain sp s = .ok s') ↔
      ∃ c v, s.cw2 = some c ∧ c.name = sp.own ∧ parse c.ver = some v ∧ v ≤ sp.code := by
  rw [migratePlain_eq]
  constructor
  · rintro ⟨s', h⟩
    rcases checkOwn_err_or_ok sp s with ⟨e, he⟩ | ⟨v, hv⟩
    · simp [he] at h
    · obtain ⟨c, hc⟩ := (checkOwn_ok_iff sp s v).mp hv; exact ⟨c, v, hc⟩
  · rintro ⟨c, v, h⟩
    have := (checkOwn_ok_iff sp s v).mpr ⟨c, h⟩
    rw [this]; by_cases hv : v = sp.code <;> simp [hv]

/-- vending family: the same, plus — only when the one-time discount anchor is initialised (stored `< 3.9.0`,
not a no-op) — the block time must be at least 12 h after the epoch (`Timestamp::minus_seconds` aborts otherwise;
true of every real chain) -/
theorem C20_vending_accept_iff (sp : Spec) (now : Nat) (s : St) :
    (∃ s', migrateVending sp now s = .ok s') ↔
      ∃ c v, s.cw2 = some c ∧ c.name = sp.own ∧ parse c.ver = some v ∧ v ≤ sp.code ∧
        (v ≠ sp.code → v < V_3_9_0 → DISCOUNT_BACKDATE_NS ≤ now) := by
  rw [migrateVending_eq]
  constructor
  · rintro ⟨s', h⟩
    rcases checkOwn_err_or_ok sp s with ⟨e, he⟩ | ⟨v, hv⟩
    · simp [he] at h
    · obtain ⟨c, hc, hn, hp, hle⟩ := (checkOwn_ok_iff sp s v).mp hv
      refine ⟨c, v, hc, hn, hp, hle, ?_⟩
      intro h1 h2
      rw [hv] at h; simp [h1, h2] at h
      by_cases h3 : now < DISCOUNT_BACKDATE_NS
      · simp [h3] at h
      · omega
  · rintro ⟨c, v, hc, hn, hp, hle, ht⟩
    have := (checkOwn_ok_iff sp s v).mpr ⟨c, hc, hn, hp, hle⟩
    rw [this]
    by_cases h1 : v = sp.code
    · simp [h1]
    · by_cases h2 : v < V_3_9_0
      · have : ¬ now < DISCOUNT_BACKDATE_NS := by have := ht h1 h2; omega
        simp [h1, h2, this]
      · simp [h1, h2]

/-- factories: accepted **iff** own name ∧ stored ≤ code ∧ (no update message, or parameters are stored and the
supplied price coins the factory checks are in the native denom) -/
theorem C20_factory_accept_iff (k : FKind) (sp : Spec) (msg : Option FMsg) (s : St) :
    (∃ s', migrateFactory k sp msg s = .ok s') ↔
      ∃ c v, s.cw2 = some c ∧ c.name = sp.own ∧ parse c.ver = some v ∧ v ≤ sp.code ∧
        (∀ m, msg = some m → s.params ≠ none ∧ msgOk k m = true) := by
  constructor
  · rintro ⟨s', h⟩
    obtain ⟨c, v, hc, hp, ⟨hn, hle⟩, hm⟩ := (migrateFactory_ok_iff k sp msg s s').mp h
    refine ⟨c, v, hc, hn, hp, hle, ?_⟩
    intro m hmsg; subst hmsg
    obtain ⟨p, hpar, hok, _⟩ := hm
    exact ⟨by simp [hpar], hok⟩
  · rintro ⟨c, v, hc, hn, hp, hle, hm⟩
    cases msg with
    | none => exact ⟨s, (migrateFactory_ok_iff k sp none s s).mpr ⟨c, v, hc, hp, ⟨hn, hle⟩, rfl⟩⟩
    | some m =>
      obtain ⟨hpar, hok⟩ := hm m rfl
      cases hq : s.params with
      | none => exact absurd hq hpar
      | some p =>
        exact ⟨_, (migrateFactory_ok_iff k sp (some m) s _).mpr ⟨c, v, hc, hp, ⟨hn, hle⟩, p, hq, hok, rfl⟩⟩

/-- sg721-updatable: accepted **iff** the name is one of the compatible names ∧ `EARLIEST ≤ stored ≤ code` ∧ not
(same name ∧ same version) ∧ the state has what the one-time upgrades need (a cw721-0.16 `minter` item when
`stored < 3.0.0`; block time ≥ 24 h when `stored < 3.1.0`) -/
theorem C20_updatable_accept_iff (sp : Spec) (now : Nat) (s : St) :
    (∃ s', migrateUpdatable sp now s = .ok s') ↔
      ∃ c v, s.cw2 = some c ∧ parse c.ver = some v ∧ c.name ∈ sp.accepted ∧ sp.earliest ≤ v ∧ v ≤ sp.code ∧
        ¬ (v = sp.code ∧ c.name = sp.own) ∧
        (v < V_3_0_0 → s.legacyMinter ≠ none) ∧ (v < V_3_1_0 → ROYALTY_BACKDATE_NS ≤ now) := by
  constructor
  · rintro ⟨s', h⟩
    obtain ⟨c, v, hc, hp, hok, _⟩ := (migrateUpdatable_ok_iff sp now s s').mp h
    exact ⟨c, v, hc, hp, hok⟩
  · rintro ⟨c, v, hc, hp, hok⟩
    exact ⟨_, (migrateUpdatable_ok_iff sp now s _).mpr ⟨c, v, hc, hp, hok, rfl⟩⟩

/-- In the words of the property, for every in-scope kind at once: own/accepted name, any strictly older version
(at or above the declared earliest compatible one), realistic block time, and — for a collection older than 3.0.0 —
the legacy `minter` item it necessarily has: the migration is accepted. (Factories: without an update message.) -/
theorem C20_accept_older (sp : Spec) (hk : InScope sp.kind) (now : Nat) (s : St) (c : Cw2) (v : Version)
    (hc : s.cw2 = some c) (hp : parse c.ver = some v) (hn : c.name ∈ sp.names)
    (hlt : v < sp.code) (hearliest : sp.kind = .updatable → sp.earliest ≤ v)
    (htime : ROYALTY_BACKDATE_NS ≤ now) (hlegacy : sp.kind = .updatable → v < V_3_0_0 → s.legacyMinter ≠ none) :
    ∃ s', migrate sp now none s = .ok s' := by
  have hle : v ≤ sp.code := le_of_lt hlt
  have hne : v ≠ sp.code := fun e => lt_irrefl _ (e ▸ hlt)
  unfold Spec.names at hn
  cases hkind : sp.kind with
  | factory k =>
    simp [hkind] at hn
    simp only [migrate, hkind]
    exact (C20_factory_accept_iff k sp none s).mpr ⟨c, v, hc, hn, hp, hle, by simp⟩
  | plain =>
    simp [hkind] at hn
    simp only [migrate, hkind]
    exact (C20_plain_accept_iff sp s).mpr ⟨c, v, hc, hn, hp, hle⟩
  | vending =>
    simp [hkind] at hn
    simp only [migrate, hkind]
    refine (C20_vending_accept_iff sp now s).mpr ⟨c, v, hc, hn, hp, hle, fun _ _ => ?_⟩
    have : DISCOUNT_BACKDATE_NS ≤ ROYALTY_BACKDATE_NS := by decide
    omega
  | updatable =>
    simp [hkind] at hn
    simp only [migrate, hkind]
    exact (C20_updatable_accept_iff sp now s).mpr
      ⟨c, v, hc, hp, hn, hearliest hkind, hle, fun h => hne h.1, hlegacy hkind, fun _ => htime⟩
  | metaOnchain => simp [hkind, InScope] at hk
  | nt => simp [hkind, InScope] at hk
  | base721 => simp [hkind, InScope] at hk

/-! ## 5. "After a successful migration of a minter, splits, Merkle whitelist or updatable collection the recorded
version is the code's version (factories leave the recorded version as it was)" -/

/-- non-factory in-scope kinds: afterwards the record is (own name, a string that parses to the code's version) -/
theorem C20_version_after (sp : Spec) (hk : InScope sp.kind) (hnf : ∀ k, sp.kind ≠ .factory k) (hfit : Fits sp.code)
    (now : Nat) (msg : Option FMsg) (s s' : St) (h : migrate sp now msg s = .ok s') :
    ∃ c', s'.cw2 = some c' ∧ c'.name = sp.own ∧ parse c'.ver = some sp.code := by
  have hrec : parse (codeRecord sp).ver = some sp.code := parse_print sp.code hfit
  cases hkind : sp.kind with
  | factory k => exact absurd hkind (hnf k)
  | plain =>
    simp only [migrate, hkind, migratePlain_eq] at h
    rcases checkOwn_err_or_ok sp s with ⟨e, he⟩ | ⟨v, hv⟩
    · simp [he] at h
    · obtain ⟨c, hc, hn, hp, _⟩ := (checkOwn_ok_iff sp s v).mp hv
      rw [hv] at h
      by_cases h1 : v = sp.code
      · simp [h1] at h; subst h; exact ⟨c, hc, hn, h1 ▸ hp⟩
      · simp [h1] at h; subst h; exact ⟨codeRecord sp, rfl, rfl, hrec⟩
  | vending =>
    simp only [migrate, hkind, migrateVending_eq] at h
    rcases checkOwn_err_or_ok sp s with ⟨e, he⟩ | ⟨v, hv⟩
    · simp [he] at h
    · obtain ⟨c, hc, hn, hp, _⟩ := (checkOwn_ok_iff sp s v).mp hv
      rw [hv] at h
      by_cases h1 : v = sp.code
      · simp [h1] at h; subst h; exact ⟨c, hc, hn, h1 ▸ hp⟩
      · by_cases h2 : v < V_3_9_0
        · by_cases h3 : now < DISCOUNT_BACKDATE_NS
          · simp [h1, h2, h3] at h
          · simp [h1, h2, h3] at h; subst h; exact ⟨codeRecord sp, rfl, rfl, hrec⟩
        · simp [h1, h2] at h; subst h; exact ⟨codeRecord sp, rfl, rfl, hrec⟩
  | updatable =>
    simp only [migrate, hkind] at h
    obtain ⟨c, v, _, _, _, hs'⟩ := (migrateUpdatable_ok_iff sp now s s').mp h
    subst hs'; exact ⟨codeRecord sp, rfl, rfl, hrec⟩
  | metaOnchain => simp [hkind, InScope] at hk
  | nt => simp [hkind, InScope] at hk
  | base721 => simp [hkind, InScope] at hk

/-- what is written is literally `CONTRACT_NAME` / `CONTRACT_VERSION`, unless nothing is written at all (no-op on
an equal version) -/
theorem C20_record_after (sp : Spec) (hk : InScope sp.kind) (hnf : ∀ k, sp.kind ≠ .factory k)
    (now : Nat) (msg : Option FMsg) (s s' : St) (h : migrate sp now msg s = .ok s') :
    s'.cw2 = some (codeRecord sp) ∨ (s' = s ∧ recorded s = some sp.code) := by
  cases hkind : sp.kind with
  | factory k => exact absurd hkind (hnf k)
  | plain =>
    simp only [migrate, hkind, migratePlain_eq] at h
    rcases checkOwn_err_or_ok sp s with ⟨e, he⟩ | ⟨v, hv⟩
    · simp [he] at h
    · obtain ⟨c, hc, hn, hp, _⟩ := (checkOwn_ok_iff sp s v).mp hv
      rw [hv] at h
      by_cases h1 : v = sp.code
      · simp [h1] at h; subst h; exact .inr ⟨rfl, by simp [recorded, hc, hp, h1]⟩
      · simp [h1] at h; subst h; exact .inl rfl
  | vending =>
    simp only [migrate, hkind, migrateVending_eq] at h
    rcases checkOwn_err_or_ok sp s with ⟨e, he⟩ | ⟨v, hv⟩
    · simp [he] at h
    · obtain ⟨c, hc, hn, hp, _⟩ := (checkOwn_ok_iff sp s v).mp hv
      rw [hv] at h
      by_cases h1 : v = sp.code
      · simp [h1] at h; subst h; exact .inr ⟨rfl, by simp [recorded, hc, hp, h1]⟩
      · by_cases h2 : v < V_3_9_0
        · by_cases h3 : now < DISCOUNT_BACKDATE_NS
          · simp [h1, h2, h3] at h
          · simp [h1, h2, h3] at h; subst h; exact .inl rfl
        · simp [h1, h2] at h; subst h; exact .inl rfl
  | updatable =>
    simp only [migrate, hkind] at h
    obtain ⟨c, v, _, _, _, hs'⟩ := (migrateUpdatable_ok_iff sp now s s').mp h
    subst hs'; exact .inl rfl
  | metaOnchain => simp [hkind, InScope] at hk
  | nt => simp [hkind, InScope] at hk
  | base721 => simp [hkind, InScope] at hk

/-- factories never touch the cw2 record -/
theorem C20_factory_version_untouched (k : FKind) (sp : Spec) (msg : Option FMsg) (s s' : St)
    (h : migrateFactory k sp msg s = .ok s') : s'.cw2 = s.cw2 := by
  obtain ⟨c, v, _, _, _, hm⟩ := (migrateFactory_ok_iff k sp msg s s').mp h
  cases msg with
  | none => simp at hm; rw [hm]
  | some m => obtain ⟨p, _, _, hs'⟩ := hm; rw [hs']

/-! ## 6. "… and every configuration, supply and accounting value that could be queried before is unchanged, apart
from parameters explicitly supplied with a factory migration and the documented one-time initialisations" -/

/-- Everything outside the eight mechanism items (config, supply, counters, balances ledger, token maps, members,
…) is untouched by every `migrate` of the workspace — all 7 kinds, accepted or refused — restates that no `migrate*`
definition mentions `St.other` (true of the model by construction); validated on the code by the raw storage diff only. -/
theorem C20_other_untouched (sp : Spec) (now : Nat) (msg : Option FMsg) (s : St) :
    (migrate' sp now msg s).other = s.other := by
  unfold migrate'
  cases h : migrate sp now msg s with
  | error e => rfl
  | ok s' =>
    simp only
    cases hkind : sp.kind with
    | factory k =>
      simp only [migrate, hkind] at h
      obtain ⟨c, v, _, _, _, hm⟩ := (migrateFactory_ok_iff k sp msg s s').mp h
      cases msg with
      | none => simp at hm; rw [hm]
      | some m => obtain ⟨p, _, _, hs'⟩ := hm; rw [hs']
    | plain =>
      simp only [migrate, hkind, migratePlain_eq] at h
      split at h
      · simp at h
      · split at h <;> (simp at h; subst h; rfl)
    | vending =>
      simp only [migrate, hkind, migrateVending_eq] at h
      split at h
      · simp at h
      · repeat' split at h
        all_goals first | (simp at h; done) | (simp at h; subst h; rfl)
    | updatable =>
      simp only [migrate, hkind] at h
      obtain ⟨c, v, _, _, _, hs'⟩ := (migrateUpdatable_ok_iff sp now s s').mp h
      subst hs'; rfl
    | metaOnchain =>
      simp only [migrate, hkind, migrateMetaOnchain, getCw2, parseVer, upgradeOwnership] at h
      repeat' split at h
      all_goals simp [bind, Except.bind, pure, Except.pure, throw, throwThe, MonadExceptOf.throw] at h
      all_goals repeat' split at h
      all_goals first | (simp at h; done) | (simp at h; subst h; rfl) | (subst h; rfl)
    | nt =>
      simp only [migrate, hkind, migrateNt, upgradeOwnership] at h
      repeat' split at h
      all_goals first | (simp at h; done) | (simp at h; subst h; rfl) | (subst h; rfl)
    | base721 =>
      simp only [migrate, hkind, migrateBase721, getCw2, upgradeOwnership, upgradeRoyalty, minusNs] at h
      repeat' split at h
      all_goals simp [bind, Except.bind, pure, Except.pure, throw, throwThe, MonadExceptOf.throw] at h
      all_goals repeat' split at h
      all_goals first | (simp at h; done) | (simp at h; subst h; rfl) | (subst h; rfl)

/-- a refused migration changes nothing at all (transaction atomicity) -/
theorem C20_refused_unchanged (sp : Spec) (now : Nat) (msg : Option FMsg) (s : St) (e : Err)
    (h : migrate sp now msg s = .error e) : migrate' sp now msg s = s := by
  unfold migrate'; rw [h]

/-- open-edition minters, token-merge-minter, splits, Merkle whitelists: the *only* thing that may differ is the
cw2 record -/
theorem C20_plain_frame (sp : Spec) (s s' : St) (h : migratePlain sp s = .ok s') :
    s' = { s with cw2 := s'.cw2 } := by
  rw [migratePlain_eq] at h
  split at h
  · simp at h
  · split at h <;> (simp at h; subst h; rfl)

/-- vending family: only the cw2 record and — exactly when the stored version is below 3.9.0 (and it is not a
no-op) — the discount cooldown anchor, which becomes `now − 12 h` ("discount cooldown anchor") -/
theorem C20_vending_frame (sp : Spec) (now : Nat) (s s' : St) (h : migrateVending sp now s = .ok s') :
    s' = { s with cw2 := s'.cw2, lastDiscount := s'.lastDiscount } ∧
    ∃ v, recorded s = some v ∧
      s'.lastDiscount = if v ≠ sp.code ∧ v < V_3_9_0 then some (now - DISCOUNT_BACKDATE_NS) else s.lastDiscount := by
  rw [migrateVending_eq] at h
  rcases checkOwn_err_or_ok sp s with ⟨e, he⟩ | ⟨v, hv⟩
  · simp [he] at h
  · obtain ⟨c, hc, hn, hp, _⟩ := (checkOwn_ok_iff sp s v).mp hv
    have hr : recorded s = some v := by simp [recorded, hc, hp]
    rw [hv] at h
    by_cases h1 : v = sp.code
    · simp [h1] at h; subst h; exact ⟨rfl, v, hr, by simp [h1]⟩
    · by_cases h2 : v < V_3_9_0
      · by_cases h3 : now < DISCOUNT_BACKDATE_NS
        · simp [h1, h2, h3] at h
        · simp [h1, h2, h3] at h; subst h; exact ⟨rfl, v, hr, by simp [h1, h2]⟩
      · simp [h1, h2] at h; subst h; exact ⟨rfl, v, hr, by simp [h2]⟩

/-- sg721-updatable: the result is exactly `updResult`: cw2 := code's record; the two updatable flags := false
exactly when coming from an sg721-base name ("updatable flags"); `royalty_updated_at := now − 24 h` exactly when
stored `< 3.1.0` ("royalty timestamp"); the cw721 0.16→0.17 ownership move exactly when stored `< 3.0.0`;
`lastDiscount`, `params`, `other` untouched. -/
theorem C20_updatable_frame (sp : Spec) (now : Nat) (s s' : St) (h : migrateUpdatable sp now s = .ok s') :
    ∃ c v, s.cw2 = some c ∧ parse c.ver = some v ∧
      s'.cw2 = some (codeRecord sp) ∧
      s'.frozenMeta = (if c.name ∈ sp.baseNames then some false else s.frozenMeta) ∧
      s'.enableUpd = (if c.name ∈ sp.baseNames then some false else s.enableUpd) ∧
      s'.royaltyAt = (if v < V_3_1_0 then some (now - ROYALTY_BACKDATE_NS) else s.royaltyAt) ∧
      s'.legacyMinter = (if v < V_3_0_0 then none else s.legacyMinter) ∧
      s'.ownership = (if v < V_3_0_0 then some ⟨s.legacyMinter, false⟩ else s.ownership) ∧
      s'.lastDiscount = s.lastDiscount ∧ s'.params = s.params ∧ s'.other = s.other := by
  obtain ⟨c, v, hc, hp, _, hs'⟩ := (migrateUpdatable_ok_iff sp now s s').mp h
  subst hs'
  exact ⟨c, v, hc, hp, rfl, rfl, rfl, rfl, rfl, rfl, rfl, rfl, rfl⟩

/-- the value the `Minter {}` query returns survives the ownership move: what was the 0.16 `minter` is the owner -/
theorem C20_updatable_minter_preserved (sp : Spec) (now : Nat) (s s' : St) (v : Version)
    (h : migrateUpdatable sp now s = .ok s') (hv : recorded s = some v) (hold : v < V_3_0_0) :
    ∃ o, s'.ownership = some o ∧ o.owner = s.legacyMinter ∧ s.legacyMinter ≠ none := by
  obtain ⟨c, w, hc, hp, hok, hs'⟩ := (migrateUpdatable_ok_iff sp now s s').mp h
  simp [recorded, hc, hp] at hv; subst hv
  subst hs'
  exact ⟨⟨s.legacyMinter, false⟩, by simp [updResult, hold], rfl, hok.2.2.2.2.1 hold⟩

/-- factories: without an update message nothing changes at all; with one, only `SUDO_PARAMS`, and each parameter
is the supplied value or, if none was supplied, the old one (`applied`; code ids: add, dedup, then remove) -/
theorem C20_factory_frame (k : FKind) (sp : Spec) (msg : Option FMsg) (s s' : St)
    (h : migrateFactory k sp msg s = .ok s') :
    match msg with
    | none => s' = s
    | some m => ∃ p, s.params = some p ∧ s' = { s with params := some (applied k p m) } := by
  obtain ⟨c, v, _, _, _, hm⟩ := (migrateFactory_ok_iff k sp msg s s').mp h
  cases msg with
  | none => exact hm
  | some m => obtain ⟨p, hp, _, hs'⟩ := hm; exact ⟨p, hp, hs'⟩

/-- a *scalar* parameter for which nothing was supplied keeps its value (all four factories, all twelve scalar
fields; the code-id list is treated separately below because the literal clause, read strictly, does not hold for it —
recorded as an observation (DESIGN 13.3), not a finding) -/
theorem C20_factory_unsupplied_kept (k : FKind) (p : FParams) (m : FMsg) :
    (m.codeId = none → (applied k p m).codeId = p.codeId) ∧
    (m.frozen = none → (applied k p m).frozen = p.frozen) ∧
    (m.creationFee = none → (applied k p m).creationFee = p.creationFee) ∧
    (m.minMintPrice = none → (applied k p m).minMintPrice = p.minMintPrice) ∧
    (m.mintFeeBps = none → (applied k p m).mintFeeBps = p.mintFeeBps) ∧
    (m.offset = none → (applied k p m).offset = p.offset) ∧
    (m.maxTokenLimit = none → (applied k p m).maxTokenLimit = p.maxTokenLimit) ∧
    (m.maxPerAddr = none → (applied k p m).maxPerAddr = p.maxPerAddr) ∧
    (m.airdropPrice = none → (applied k p m).airdropPrice = p.airdropPrice) ∧
    (m.airdropBps = none → (applied k p m).airdropBps = p.airdropBps) ∧
    (m.shuffleFee = none → (applied k p m).shuffleFee = p.shuffleFee) ∧
    (m.devFeeAddr = none → (applied k p m).devFeeAddr = p.devFeeAddr) := by
  cases k <;> simp [applied] <;> (try intros) <;> simp_all

/-! ### The code-id list: the literal clause, read strictly, does not hold (observation, DESIGN 13.3 — not a finding)

FULL STATEMENT (what "every configuration … value that could be queried before is unchanged, apart from parameters
explicitly supplied with a factory migration" says for `allowed_sg721_code_ids`, queried by `Params {}` and
`AllowedCollectionCodeIds {}`):

    theorem C20_factory_unsupplied_ids (k : FKind) (p : FParams) (m : FMsg) :
        m.addIds = none → m.rmIds = none → (applied k p m).ids = p.ids

This is NOT provable: `base_factory::update_params` (and token-merge-factory's `update_base_params`) run
`params.allowed_sg721_code_ids.dedup()` on EVERY supplied message, also when neither `add_sg721_code_ids` nor
`rm_sg721_code_ids` is present. A stored list with adjacent repeats is compacted by a migration whose message
supplies no ids (or nothing at all). Such lists are reachable in two ways: `instantiate` stores the list as given
(`[5,5,7]`), and `update_params` itself produces them, because the removals run AFTER the dedup (`[1,2,1]` with
`rm = [2]` becomes `[1,1]`: `C20_factory_ids_repeats_reachable`; seen in generated runs).
Proved instead: the exact result (`…_ids_exact`), the clause under "no adjacent repeats" (`…_ids_partial`), that the
deviation happens at most once (`C20_factory_ids_compaction_once`), that the *set* of ids is kept
(`C20_factory_ids_set_kept`), and the counter-example on a complete migration (`…_ids_counterexample`; replayed on
the real contracts by `corpus/C20/ids-compacted-without-ids.json`). -/

/-- "no two neighbours are equal" — the lists `Vec::dedup` leaves alone -/
def noAdjRepeat : List Nat → Bool
  | [] => true
  | [_] => true
  | a :: b :: t => a != b && noAdjRepeat (b :: t)

theorem dedupAdj_head (a : Nat) (t : List Nat) : ∃ r, dedupAdj (a :: t) = a :: r := by
  induction t generalizing a with
  | nil => exact ⟨[], rfl⟩
  | cons b t ih =>
    by_cases h : a = b
    · subst h; simp only [dedupAdj, if_true]; exact ih a
    · simp only [dedupAdj, if_neg h]; exact ⟨_, rfl⟩

theorem dedupAdj_of_noAdjRepeat (l : List Nat) (h : noAdjRepeat l = true) : dedupAdj l = l := by
  induction l with
  | nil => rfl
  | cons a t ih =>
    cases t with
    | nil => rfl
    | cons b t' =>
      simp only [noAdjRepeat, Bool.and_eq_true, bne_iff_ne, ne_eq] at h
      simp only [dedupAdj, if_neg h.1, ih h.2]

theorem noAdjRepeat_dedupAdj (l : List Nat) : noAdjRepeat (dedupAdj l) = true := by
  induction l with
  | nil => rfl
  | cons a t ih =>
    cases t with
    | nil => rfl
    | cons b t' =>
      by_cases h : a = b
      · subst h; simp only [dedupAdj, if_true]; exact ih
      · simp only [dedupAdj, if_neg h]
        obtain ⟨r, hr⟩ := dedupAdj_head b t'
        rw [hr] at ih ⊢
        simp only [noAdjRepeat, Bool.and_eq_true, bne_iff_ne, ne_eq]
        exact ⟨h, ih⟩

/-- the exact value of the code-id list after a message that supplies no ids: the stored list with adjacent repeats
removed (all four factories) -/
theorem C20_factory_unsupplied_ids_exact (k : FKind) (p : FParams) (m : FMsg) (h1 : m.addIds = none) (h2 : m.rmIds = none) :
    (applied k p m).ids = dedupAdj p.ids := by
  cases k <;> simp [applied, updIds, h1, h2]

/-- PARTIAL (extra hypothesis: the stored list has no adjacent repeats): the unsupplied code-id list keeps its value -/
theorem C20_factory_unsupplied_ids_partial (k : FKind) (p : FParams) (m : FMsg) (h1 : m.addIds = none) (h2 : m.rmIds = none)
    (hno : noAdjRepeat p.ids = true) : (applied k p m).ids = p.ids := by
  rw [C20_factory_unsupplied_ids_exact k p m h1 h2, dedupAdj_of_noAdjRepeat p.ids hno]

/-- adjacent repeats are not only an `instantiate` artefact: an update that removes the id standing between two equal
ids leaves them adjacent (removal runs after `dedup`) -/
theorem C20_factory_ids_repeats_reachable :
    updIds [1, 2, 1] none (some [2]) = [1, 1] ∧ noAdjRepeat [1, 2, 1] = true ∧ noAdjRepeat (updIds [1, 2, 1] none (some [2])) = false := by
  decide

/-- the deviation happens at most once: after one such migration the list has no adjacent repeats, so every further
migration that supplies no ids leaves it exactly as it is -/
theorem C20_factory_ids_compaction_once (k k' : FKind) (p : FParams) (m m' : FMsg)
    (h1 : m.addIds = none) (h2 : m.rmIds = none) (h1' : m'.addIds = none) (h2' : m'.rmIds = none) :
    (applied k' (applied k p m) m').ids = (applied k p m).ids := by
  apply C20_factory_unsupplied_ids_partial k' _ m' h1' h2'
  rw [C20_factory_unsupplied_ids_exact k p m h1 h2]
  exact noAdjRepeat_dedupAdj p.ids

/-- the factory state of the counter-example: recorded at 3.16.0 under the factory's own name (id 0), allowed code
ids `[5, 5, 7]` as `instantiate` stored them -/
def cexParams : FParams :=
  { codeId := 1, ids := [5, 5, 7], frozen := false, creationFee := ⟨NATIVE, 1⟩, minMintPrice := ⟨NATIVE, 0⟩, mintFeeBps := 0,
    offset := 0, maxTokenLimit := 0, maxPerAddr := 0, airdropPrice := ⟨NATIVE, 0⟩, airdropBps := 0,
    shuffleFee := ⟨NATIVE, 0⟩, devFeeAddr := 0 }
def cexState : St :=
  { cw2 := some ⟨0, [51, 46, 49, 54, 46, 48]⟩, lastDiscount := none, frozenMeta := none, enableUpd := none,
    royaltyAt := none, legacyMinter := none, ownership := none, params := some cexParams, other := [] }

/-- COUNTER-EXAMPLE to the literal clause, on a complete migration of each of the four factories: same name, same
version (3.16.0 → 3.16.0), an update message in which EVERY field is absent — the migration is accepted and the
stored `allowed_sg721_code_ids` goes from `[5, 5, 7]` to `[5, 7]` although nothing was supplied. -/
theorem C20_factory_unsupplied_ids_counterexample (k : FKind) :
    ∃ s' p', migrate { kind := .factory k, own := 0, code := ⟨3, 16, 0⟩ } 0 (some {}) cexState = .ok s' ∧
      s'.params = some p' ∧ cexParams.ids = [5, 5, 7] ∧ p'.ids = [5, 7] ∧ p'.ids ≠ cexParams.ids := by
  refine ⟨{ cexState with params := some (applied k cexParams {}) }, applied k cexParams {}, ?_, rfl, rfl, ?_, ?_⟩
  · simp only [migrate]
    exact (migrateFactory_ok_iff k _ (some {}) cexState _).mpr
      ⟨⟨0, [51, 46, 49, 54, 46, 48]⟩, ⟨3, 16, 0⟩, rfl, by decide, ⟨rfl, le_refl _⟩, cexParams, rfl, by cases k <;> rfl, rfl⟩
  · cases k <;> decide
  · cases k <;> decide

theorem mem_dedupAdj (x : Nat) (l : List Nat) : x ∈ dedupAdj l ↔ x ∈ l := by
  induction l with
  | nil => simp [dedupAdj]
  | cons a t ih =>
    cases t with
    | nil => simp [dedupAdj]
    | cons b t' =>
      by_cases h : a = b
      · subst h; simp only [dedupAdj, if_true]; rw [ih]; simp
      · simp only [dedupAdj, if_neg h, List.mem_cons] at *; rw [ih]

/-- `Vec::dedup` runs on every update message, so a code-id list with adjacent repeats (possible only straight
after `instantiate`) is compacted even when no ids are supplied — but the *set* of allowed code ids, which is all
`AllowedCollectionCodeId` and minter creation look at, is unchanged -/
theorem C20_factory_ids_set_kept (k : FKind) (p : FParams) (m : FMsg) (h1 : m.addIds = none) (h2 : m.rmIds = none) :
    ∀ x, x ∈ (applied k p m).ids ↔ x ∈ p.ids := by
  intro x
  cases k <;> simp [applied, updIds, h1, h2, mem_dedupAdj]

/-- the keys of the raw storage a successful in-scope migration may change, per class -/
theorem C20_changed_keys (sp : Spec) (_hk : InScope sp.kind) (now : Nat) (msg : Option FMsg) (s s' : St)
    (h : migrate sp now msg s = .ok s') :
    ∀ key ∈ changedKeys s s',
      match sp.kind with
      | .factory _ => key = K_PARAMS ∧ msg ≠ none
      | .plain => key = K_CW2
      | .vending => key = K_CW2 ∨ (key = K_LAST_DISCOUNT ∧ ∃ v, recorded s = some v ∧ v < V_3_9_0)
      | .updatable =>
          key = K_CW2 ∨
          ((key = K_FROZEN_META ∨ key = K_ENABLE_UPD) ∧ ∃ c, s.cw2 = some c ∧ c.name ∈ sp.baseNames) ∨
          (key = K_ROYALTY_AT ∧ ∃ v, recorded s = some v ∧ v < V_3_1_0) ∨
          ((key = K_LEGACY_MINTER ∨ key = K_OWNERSHIP) ∧ ∃ v, recorded s = some v ∧ v < V_3_0_0)
      | _ => True := by
  intro key hkey
  cases hkind : sp.kind with
  | factory k =>
    simp only [migrate, hkind] at h
    have hf := C20_factory_frame k sp msg s s' h
    cases msg with
    | none => simp at hf; subst hf; simp [changedKeys] at hkey
    | some m =>
      obtain ⟨p, _, hs'⟩ := hf
      subst hs'
      simp only [changedKeys] at hkey
      simp at hkey
      exact ⟨hkey.2, by simp⟩
  | plain =>
    simp only [migrate, hkind] at h
    have hf := C20_plain_frame sp s s' h
    rw [hf] at hkey
    simp only [changedKeys] at hkey
    simp at hkey
    exact hkey.2
  | vending =>
    simp only [migrate, hkind] at h
    obtain ⟨hf, v, hr, hld⟩ := C20_vending_frame sp now s s' h
    rw [hf] at hkey
    simp only [changedKeys] at hkey
    simp at hkey
    rcases hkey with hkey | hkey
    · exact .inl hkey.2
    · refine .inr ⟨hkey.2, v, hr, ?_⟩
      by_cases hc : v ≠ sp.code ∧ v < V_3_9_0
      · exact hc.2
      · rw [if_neg hc] at hld; exact absurd hld.symm hkey.1
  | updatable =>
    simp only [migrate, hkind] at h
    obtain ⟨c, v, hc, hp, h1, h2, h3, h4, h5, h6, h7, h8, h9⟩ := C20_updatable_frame sp now s s' h
    have hr : recorded s = some v := by simp [recorded, hc, hp]
    simp only [changedKeys] at hkey
    simp only [List.mem_append] at hkey
    rcases hkey with ((((((hkey | hkey) | hkey) | hkey) | hkey) | hkey) | hkey) | hkey
    · split at hkey <;> simp at hkey; exact .inl hkey
    · rw [h7] at hkey; simp at hkey
    · split at hkey <;> simp at hkey
      refine .inr (.inl ⟨.inl hkey, c, hc, ?_⟩)
      by_cases hb : c.name ∈ sp.baseNames
      · exact hb
      · rw [h2, if_neg hb] at *; simp_all
    · split at hkey <;> simp at hkey
      refine .inr (.inl ⟨.inr hkey, c, hc, ?_⟩)
      by_cases hb : c.name ∈ sp.baseNames
      · exact hb
      · rw [h3, if_neg hb] at *; simp_all
    · split at hkey <;> simp at hkey
      refine .inr (.inr (.inl ⟨hkey, v, hr, ?_⟩))
      by_cases hb : v < V_3_1_0
      · exact hb
      · rw [h4, if_neg hb] at *; simp_all
    · split at hkey <;> simp at hkey
      refine .inr (.inr (.inr ⟨.inl hkey, v, hr, ?_⟩))
      by_cases hb : v < V_3_0_0
      · exact hb
      · rw [h5, if_neg hb] at *; simp_all
    · split at hkey <;> simp at hkey
      refine .inr (.inr (.inr ⟨.inr hkey, v, hr, ?_⟩))
      by_cases hb : v < V_3_0_0
      · exact hb
      · rw [h6, if_neg hb] at *; simp_all
    · rw [h8] at hkey; simp at hkey
  | metaOnchain => trivial
  | nt => trivial
  | base721 => trivial

/-! ## 7. Histories: over any sequence of migrations, to any code versions, the recorded version never decreases
and the recorded identity never leaves the accepted names -/

/-- one step -/
theorem C20_step_monotone (sp : Spec) (hk : InScope sp.kind) (hfit : Fits sp.code) (now : Nat) (msg : Option FMsg)
    (s : St) (v : Version) (hv : recorded s = some v) :
    ∃ v', recorded (migrate' sp now msg s) = some v' ∧ v ≤ v' := by
  unfold migrate'
  cases h : migrate sp now msg s with
  | error e => exact ⟨v, hv, le_refl v⟩
  | ok s' =>
    simp only
    by_cases hf : ∃ k, sp.kind = .factory k
    · obtain ⟨k, hkind⟩ := hf
      simp only [migrate, hkind] at h
      have := C20_factory_version_untouched k sp msg s s' h
      exact ⟨v, by simpa [recorded, this] using hv, le_refl v⟩
    · have hnf : ∀ k, sp.kind ≠ .factory k := fun k hk' => hf ⟨k, hk'⟩
      obtain ⟨c', hc', _, hp'⟩ := C20_version_after sp hk hnf hfit now msg s s' h
      refine ⟨sp.code, by simp [recorded, hc', hp'], ?_⟩
      -- the migration was accepted, so the stored version was not newer than the code's
      rw [le_def]; intro hnew
      obtain ⟨e, he⟩ := C20_refuse_newer sp hk now msg s v hv hnew
      rw [he] at h; cases h

/-- **never downgrade, over histories**: run any list of migrations (any in-scope code, any code version, any
block times, any update messages; refused ones are skipped as the chain does) from any state whose record parses —
the recorded version afterwards is still well-formed and at least what it was. -/
theorem C20_monotone (ops : List MigOp) (hops : ∀ o ∈ ops, InScope o.sp.kind ∧ Fits o.sp.code)
    (s : St) (v : Version) (hv : recorded s = some v) :
    ∃ v', recorded (run s ops) = some v' ∧ v ≤ v' := by
  induction ops generalizing s v with
  | nil => exact ⟨v, hv, le_refl v⟩
  | cons o rest ih =>
    obtain ⟨hk, hfit⟩ := hops o List.mem_cons_self
    obtain ⟨v1, hv1, hle1⟩ := C20_step_monotone o.sp hk hfit o.now o.msg s v hv
    obtain ⟨v2, hv2, hle2⟩ := ih (fun o' ho' => hops o' (List.mem_cons_of_mem _ ho')) _ v1 hv1
    exact ⟨v2, by simpa [run] using hv2, le_trans hle1 hle2⟩

/-- **never cross contract types**: a successful in-scope migration starts from an accepted name and ends at the
code's own name (factories: the name is left as it was, and it was the own name) -/
theorem C20_identity (sp : Spec) (hk : InScope sp.kind) (now : Nat) (msg : Option FMsg) (s s' : St)
    (h : migrate sp now msg s = .ok s') :
    ∃ c c', s.cw2 = some c ∧ c.name ∈ sp.names ∧ s'.cw2 = some c' ∧ c'.name = sp.own := by
  cases hc : s.cw2 with
  | none =>
    obtain ⟨e, he⟩ := C20_refuse_no_version sp hk now msg s (by simp [recorded, hc])
    rw [he] at h; cases h
  | some c =>
    have hin : c.name ∈ sp.names := by
      by_cases hin : c.name ∈ sp.names
      · exact hin
      · obtain ⟨e, he⟩ := C20_refuse_foreign_name sp hk now msg s c hc hin
        rw [he] at h; cases h
    by_cases hf : ∃ k, sp.kind = .factory k
    · obtain ⟨k, hkind⟩ := hf
      have hown : c.name = sp.own := by simpa [Spec.names, hkind] using hin
      simp only [migrate, hkind] at h
      have := C20_factory_version_untouched k sp msg s s' h
      exact ⟨c, c, rfl, hin, by rw [this, hc], hown⟩
    · have hnf : ∀ k, sp.kind ≠ .factory k := fun k hk' => hf ⟨k, hk'⟩
      rcases C20_record_after sp hk hnf now msg s s' h with h1 | ⟨h1, _⟩
      · exact ⟨c, codeRecord sp, rfl, hin, h1, rfl⟩
      · subst h1
        -- no-op: only `plain`/`vending` reach this, and they accept only the own name
        refine ⟨c, c, rfl, hin, hc, ?_⟩
        cases hkind : sp.kind with
        | factory k => exact absurd hkind (hnf k)
        | plain => simpa [Spec.names, hkind] using hin
        | vending => simpa [Spec.names, hkind] using hin
        | updatable =>
          simp only [migrate, hkind] at h
          obtain ⟨c2, v, hc2, _, _, hs'⟩ := (migrateUpdatable_ok_iff sp now s' s').mp h
          have : s'.cw2 = some (codeRecord sp) := by rw [hs']; rfl
          rw [hc] at this; cases this; rfl
        | metaOnchain => simp [hkind, InScope] at hk
        | nt => simp [hkind, InScope] at hk
        | base721 => simp [hkind, InScope] at hk

/-! ## 7a. Frame conditions over histories (inductions over the op list) -/

theorem run_cons (s : St) (o : MigOp) (rest : List MigOp) :
    run s (o :: rest) = run (migrate' o.sp o.now o.msg s) rest := by
  simp [run]

/-- everything outside the mechanism items survives any history of migrations (any kinds, accepted or refused) -/
theorem C20_history_other_untouched (ops : List MigOp) (s : St) : (run s ops).other = s.other := by
  induction ops generalizing s with
  | nil => rfl
  | cons o rest ih => rw [run_cons, ih, C20_other_untouched]

/-- one step, any in-scope kind: the cw2 record afterwards is the old one or the code's own record -/
theorem C20_step_record (sp : Spec) (hk : InScope sp.kind) (now : Nat) (msg : Option FMsg) (s : St) :
    (migrate' sp now msg s).cw2 = s.cw2 ∨ (migrate' sp now msg s).cw2 = some (codeRecord sp) := by
  unfold migrate'
  cases h : migrate sp now msg s with
  | error e => exact .inl rfl
  | ok s' =>
    simp only
    by_cases hf : ∃ k, sp.kind = .factory k
    · obtain ⟨k, hkind⟩ := hf
      simp only [migrate, hkind] at h
      exact .inl (C20_factory_version_untouched k sp msg s s' h)
    · have hnf : ∀ k, sp.kind ≠ .factory k := fun k hk' => hf ⟨k, hk'⟩
      rcases C20_record_after sp hk hnf now msg s s' h with h1 | ⟨h1, _⟩
      · exact .inr h1
      · exact .inl (by rw [h1])

/-- one step, any in-scope kind: the two sg721-updatable flags (`frozen_token_metadata`, `enable_updatable`) keep
their values unless the stored name is one of the code's sg721-base names (the documented one-time initialisation) -/
theorem C20_step_flags_kept (sp : Spec) (hk : InScope sp.kind) (now : Nat) (msg : Option FMsg) (s : St)
    (hb : ∀ c, s.cw2 = some c → c.name ∉ sp.baseNames) :
    (migrate' sp now msg s).frozenMeta = s.frozenMeta ∧ (migrate' sp now msg s).enableUpd = s.enableUpd := by
  unfold migrate'
  cases h : migrate sp now msg s with
  | error e => exact ⟨rfl, rfl⟩
  | ok s' =>
    simp only
    cases hkind : sp.kind with
    | factory k =>
      simp only [migrate, hkind] at h
      have hf := C20_factory_frame k sp msg s s' h
      cases msg with
      | none => simp at hf; subst hf; exact ⟨rfl, rfl⟩
      | some m => obtain ⟨p, _, hs'⟩ := hf; subst hs'; exact ⟨rfl, rfl⟩
    | plain =>
      simp only [migrate, hkind] at h
      have hf := C20_plain_frame sp s s' h
      exact ⟨by rw [hf], by rw [hf]⟩
    | vending =>
      simp only [migrate, hkind] at h
      have hf := (C20_vending_frame sp now s s' h).1
      exact ⟨by rw [hf], by rw [hf]⟩
    | updatable =>
      simp only [migrate, hkind] at h
      obtain ⟨c, v, hc, _, _, h2, h3, _⟩ := C20_updatable_frame sp now s s' h
      have := hb c hc
      exact ⟨by rw [h2, if_neg this], by rw [h3, if_neg this]⟩
    | metaOnchain => simp [hkind, InScope] at hk
    | nt => simp [hkind, InScope] at hk
    | base721 => simp [hkind, InScope] at hk

/-- **a metadata freeze survives every history of upgrades**: let `B` be the sg721-base names. Start from a contract
whose recorded name is not a base name (e.g. a collection that already is an sg721-updatable, with
`frozen_token_metadata = true`), and run ANY list of in-scope migrations (any code versions, block times, accepted or
refused) by codes whose own name is not a base name and whose flag-initialising names are base names: both flags are
exactly what they were. (The accepted path of sg721-updatable → sg721-updatable is covered, not only the refusal.) -/
theorem C20_history_flags_kept (B : List NameId) (ops : List MigOp)
    (hops : ∀ o ∈ ops, InScope o.sp.kind ∧ o.sp.own ∉ B ∧ ∀ n ∈ o.sp.baseNames, n ∈ B)
    (s : St) (hname : ∀ c, s.cw2 = some c → c.name ∉ B) :
    (run s ops).frozenMeta = s.frozenMeta ∧ (run s ops).enableUpd = s.enableUpd := by
  induction ops generalizing s with
  | nil => exact ⟨rfl, rfl⟩
  | cons o rest ih =>
    obtain ⟨hk, hown, hbase⟩ := hops o List.mem_cons_self
    have hstep := C20_step_flags_kept o.sp hk o.now o.msg s (fun c hc hin => hname c hc (hbase _ hin))
    have hname' : ∀ c, (migrate' o.sp o.now o.msg s).cw2 = some c → c.name ∉ B := by
      intro c hc
      rcases C20_step_record o.sp hk o.now o.msg s with h1 | h1
      · exact hname c (by rw [← h1, hc])
      · rw [h1] at hc; cases hc; exact hown
    obtain ⟨i1, i2⟩ := ih (fun o' ho' => hops o' (List.mem_cons_of_mem _ ho')) _ hname'
    rw [run_cons]
    exact ⟨by rw [i1, hstep.1], by rw [i2, hstep.2]⟩

/-- one step, any in-scope kind: the factory parameters change only in a factory migration that carries a message -/
theorem C20_step_params_kept (sp : Spec) (hk : InScope sp.kind) (now : Nat) (msg : Option FMsg) (s : St)
    (h : msg = none ∨ ∀ k, sp.kind ≠ .factory k) : (migrate' sp now msg s).params = s.params := by
  unfold migrate'
  cases hm : migrate sp now msg s with
  | error e => rfl
  | ok s' =>
    simp only
    cases hkind : sp.kind with
    | factory k =>
      rcases h with h | h
      · subst h
        simp only [migrate, hkind] at hm
        have hf := C20_factory_frame k sp none s s' hm
        simp at hf; rw [hf]
      · exact absurd hkind (h k)
    | plain =>
      simp only [migrate, hkind] at hm
      have hf := C20_plain_frame sp s s' hm
      rw [hf]
    | vending =>
      simp only [migrate, hkind] at hm
      have hf := (C20_vending_frame sp now s s' hm).1
      rw [hf]
    | updatable =>
      simp only [migrate, hkind] at hm
      obtain ⟨c, v, _, _, _, _, _, _, _, _, _, h8, _⟩ := C20_updatable_frame sp now s s' hm
      exact h8
    | metaOnchain => simp [hkind, InScope] at hk
    | nt => simp [hkind, InScope] at hk
    | base721 => simp [hkind, InScope] at hk

/-- over any history of in-scope migrations none of which is a message-carrying factory migration, the factory
parameters are exactly what they were -/
theorem C20_history_params_kept (ops : List MigOp)
    (hops : ∀ o ∈ ops, InScope o.sp.kind ∧ (o.msg = none ∨ ∀ k, o.sp.kind ≠ .factory k)) (s : St) :
    (run s ops).params = s.params := by
  induction ops generalizing s with
  | nil => rfl
  | cons o rest ih =>
    obtain ⟨hk, hm⟩ := hops o List.mem_cons_self
    rw [run_cons, ih (fun o' ho' => hops o' (List.mem_cons_of_mem _ ho')), C20_step_params_kept o.sp hk o.now o.msg s hm]

/-- the crate versions of the 18 in-scope contracts, as regenerated from /repo's `Cargo.toml`s on every run, are
representable (`Fits`) — the hypothesis of `C20_version_after` / `C20_monotone` holds for the code that exists —
and none is below the thresholds the migrations mention, so a freshly instantiated contract never needs a
one-time initialisation -/
theorem C20_code_versions_fit :
    ∀ t ∈ [ Gen.base_factory_CRATE_VERSION_TRIPLE, Gen.vending_factory_CRATE_VERSION_TRIPLE,
            Gen.open_edition_factory_CRATE_VERSION_TRIPLE, Gen.token_merge_factory_CRATE_VERSION_TRIPLE,
            Gen.vending_minter_CRATE_VERSION_TRIPLE, Gen.vending_minter_featured_CRATE_VERSION_TRIPLE,
            Gen.vending_minter_wl_flex_CRATE_VERSION_TRIPLE, Gen.vending_minter_wl_flex_featured_CRATE_VERSION_TRIPLE,
            Gen.vending_minter_merkle_wl_CRATE_VERSION_TRIPLE, Gen.vending_minter_merkle_wl_featured_CRATE_VERSION_TRIPLE,
            Gen.open_edition_minter_CRATE_VERSION_TRIPLE, Gen.open_edition_minter_wl_flex_CRATE_VERSION_TRIPLE,
            Gen.open_edition_minter_merkle_wl_CRATE_VERSION_TRIPLE, Gen.token_merge_minter_CRATE_VERSION_TRIPLE,
            Gen.sg_splits_CRATE_VERSION_TRIPLE, Gen.whitelist_mtree_CRATE_VERSION_TRIPLE,
            Gen.tiered_whitelist_merkletree_CRATE_VERSION_TRIPLE, Gen.sg721_updatable_CRATE_VERSION_TRIPLE ],
      Fits (ofTriple t) ∧ V_3_9_0 ≤ ofTriple t ∧ V_3_1_0 ≤ ofTriple t := by
  decide

/-! ## 7b. Outside the property's scope (recorded, not claimed): the three other `migrate`s do *not* have these
guarantees — which is why the scope of C20 excludes them -/

theorem print_3_16_0 : print ⟨3, 16, 0⟩ = [51, 46, 49, 54, 46, 48] := by
  simp [print, printNum_small, printNum_big, DOT]

/-- `Sg721Contract::migrate` of sg721-base (a method without an entry point) compares version *strings*: with code
3.16.0 it refuses the upgrade from "3.9.0" and accepts the downgrade from "3.100.0" -/
theorem outOfScope_base721_string_order (own : NameId) (now : Nat) (s : St) :
    let sp : Spec := { kind := .base721, own := own, code := ⟨3, 16, 0⟩ }
    (∃ e, migrateBase721 sp now { s with cw2 := some ⟨own, [51, 46, 57, 46, 48]⟩ } = .error e) ∧
    (ROYALTY_BACKDATE_NS ≤ now →
      ∃ s', migrateBase721 sp now { s with cw2 := some ⟨own, [51, 46, 49, 48, 48, 46, 48]⟩ } = .ok s') := by
  refine ⟨⟨.version, ?_⟩, fun _ => ?_⟩
  · simp [migrateBase721, getCw2, bind, Except.bind, print_3_16_0, strGe, strLt, throw, throwThe, MonadExceptOf.throw]
  · simp [migrateBase721, getCw2, bind, Except.bind, print_3_16_0, strGe, strLt, S_3_0_0, S_3_1_0, pure, Except.pure]

/-- sg721-metadata-onchain records `TO_VERSION` ("3.0.0"), not the code's version: migrating a collection recorded
at 3.5.0 with 3.16.0 code *lowers* the record to 3.0.0 (and any name is accepted) -/
theorem outOfScope_metaOnchain_lowers (own foreign : NameId) (s : St) :
    let sp : Spec := { kind := .metaOnchain, own := own, code := ⟨3, 16, 0⟩, earliest := ⟨0, 16, 0⟩, toVer := [51, 46, 48, 46, 48] }
    ∃ s', migrateMetaOnchain sp { s with cw2 := some ⟨foreign, [51, 46, 53, 46, 48]⟩ } = .ok s' ∧
      recorded s' = some ⟨3, 0, 0⟩ := by
  have hp : parse [51, 46, 53, 46, 48] = some ⟨3, 5, 0⟩ := by decide
  have h1 : ¬ (⟨3, 5, 0⟩ : Version) < ⟨0, 16, 0⟩ := by decide
  have h2 : ¬ (⟨3, 16, 0⟩ : Version) < ⟨3, 5, 0⟩ := by decide
  have h3 : ¬ (⟨3, 16, 0⟩ : Version) = ⟨3, 5, 0⟩ := by decide
  have h4 : ¬ (⟨3, 5, 0⟩ : Version) < V_3_0_0 := by decide
  intro sp
  have hq : parse [51, 46, 48, 46, 48] = some ⟨3, 0, 0⟩ := by decide
  refine ⟨{ s with cw2 := some ⟨own, [51, 46, 48, 46, 48]⟩ }, ?_, by simp [recorded, hq]⟩
  simp only [sp, migrateMetaOnchain, getCw2, parseVer, hp, bind, Except.bind, h1, h2, h3, h4, if_false, pure, Except.pure]

/-! ## 8. Non-vacuity: concrete states satisfying the hypotheses above -/

/-- a vending minter recorded at 3.8.5, migrated by 3.16.0 code at block time 2 days -/
def exVending : Spec := { kind := .vending, own := 7, code := ⟨3, 16, 0⟩ }
def exState : St :=
  { cw2 := some ⟨7, [51, 46, 56, 46, 53]⟩, lastDiscount := none, frozenMeta := none, enableUpd := none,
    royaltyAt := none, legacyMinter := none, ownership := none, params := none, other := [(100, 42), (101, 7)] }

example : migrate exVending (2 * ROYALTY_BACKDATE_NS) none exState =
    .ok { exState with cw2 := some ⟨7, print ⟨3, 16, 0⟩⟩, lastDiscount := some (2 * ROYALTY_BACKDATE_NS - DISCOUNT_BACKDATE_NS) } := by
  simp only [migrate, exVending, migrateVending_eq]
  have : checkOwn { kind := .vending, own := 7, code := ⟨3, 16, 0⟩ } exState = .ok ⟨3, 8, 5⟩ :=
    (checkOwn_ok_iff _ _ _).mpr ⟨⟨7, [51, 46, 56, 46, 53]⟩, rfl, rfl, by decide, by decide⟩
  rw [this]
  simp [V_3_9_0, lt_def, codeRecord, DISCOUNT_BACKDATE_NS, ROYALTY_BACKDATE_NS, NS_PER_S]

example : recorded exState = some ⟨3, 8, 5⟩ := by decide
example : InScope exVending.kind ∧ Fits exVending.code := by decide
/-- a stored 3.17.0 (newer than the code's 3.16.0) satisfies the hypotheses of `C20_refuse_newer` -/
example : recorded { exState with cw2 := some ⟨7, [51, 46, 49, 55, 46, 48]⟩ } = some ⟨3, 17, 0⟩ ∧
    exVending.code < ⟨3, 17, 0⟩ := by decide
/-- a foreign name satisfies the hypothesis of `C20_refuse_foreign_name` -/
example : (8 : NameId) ∉ exVending.names := by decide
/-- the hypotheses of `C20_accept_older` for an updatable collection coming from sg721-base 2.4.0 -/
def exUpd : Spec :=
  { kind := .updatable, own := 4, code := ⟨3, 16, 0⟩, accepted := [1, 2, 3, 4], baseNames := [1, 2], earliest := ⟨0, 16, 0⟩ }
example : (2 : NameId) ∈ exUpd.names ∧ (⟨2, 4, 0⟩ : Version) < exUpd.code ∧ exUpd.earliest ≤ ⟨2, 4, 0⟩ := by decide

end LP
