import LaunchpadModel.Model.TradingTime
import LaunchpadModel.Model.TradingTimeX
/-!
# C19 — Trading cannot be scheduled past the governance offset or into the past

Property text: "Whenever a vending, open-edition or token-merge minter sets a collection's trading start time, at creation
or by a later update, the value is no later than the mint start time plus the factory's maximum trading offset in force at
that moment, and no minter (the base minter included) accepts an update that sets it earlier than the current time; when the
creator gives none at creation it defaults to exactly mint start plus the offset (creation time plus the offset for the base
minter). Only the minter admin can request the change and the collection accepts it only from its minter, so the value
visible in the collection info is always one the minter validated."

All theorems are about `LP.TT.step`, the function the driver `drv_c19` executes against the real contracts.
Seconds → nanoseconds is the literal `1000000000` in every statement.
-/
namespace LP
open LP.TT

/-! ## small facts about the model -/

theorem TT.plusSeconds_eq (t s : Nat) : plusSeconds t s = t + s * 1000000000 := rfl

theorem TT.ite_err_ok {α : Type} {c : Prop} [Decidable c] {e : Err} {x : Except Err α} {r : α}
    (h : (if c then Except.error e else x) = .ok r) : ¬ c ∧ x = .ok r := by
  by_cases hc : c
  · rw [if_pos hc] at h; cases h
  · rw [if_neg hc] at h; exact ⟨hc, h⟩

theorem TT.boundedOrDefault_ok {start offset : Nat} {req tr : Option Nat}
    (h : boundedOrDefault start offset req = .ok tr) :
    ∃ t, tr = some t ∧ t ≤ start + offset * 1000000000 ∧
      (req = none → t = start + offset * 1000000000) ∧ (∀ x, req = some x → t = x) := by
  cases req with
  | none =>
    simp only [boundedOrDefault, plusSeconds, NANOS] at h
    injection h with h
    exact ⟨_, h.symm, Nat.le_refl _, fun _ => rfl, fun x hx => (by cases hx)⟩
  | some t =>
    simp only [boundedOrDefault, plusSeconds, NANOS] at h
    obtain ⟨hc, h⟩ := ite_err_ok h
    injection h with h
    exact ⟨t, h.symm, by omega, fun hx => (by cases hx), fun x hx => (by cases hx; rfl)⟩

theorem TT.createTrading_ok_nonbase {fam : Family} {now offset start : Nat} {end_ req tr : Option Nat}
    (hf : fam ≠ .base) (h : createTrading fam now offset start end_ req = .ok tr) :
    ∃ t, tr = some t ∧ t ≤ start + offset * 1000000000 ∧
      (req = none → t = start + offset * 1000000000) ∧ (∀ x, req = some x → t = x) := by
  cases fam with
  | base => exact absurd rfl hf
  | openEdition =>
    simp only [createTrading] at h
    exact boundedOrDefault_ok (ite_err_ok (ite_err_ok h).2).2
  | vending =>
    simp only [createTrading] at h
    exact boundedOrDefault_ok (ite_err_ok (ite_err_ok h).2).2
  | tokenMerge =>
    simp only [createTrading] at h
    exact boundedOrDefault_ok (ite_err_ok (ite_err_ok h).2).2

theorem TT.createTrading_ok_base {now offset start : Nat} {end_ req tr : Option Nat}
    (h : createTrading .base now offset start end_ req = .ok tr) :
    ∃ t, tr = some t ∧ (req = none → t = now + offset * 1000000000) ∧ (∀ x, req = some x → t = x) := by
  cases req with
  | none =>
    simp only [createTrading, plusSeconds, NANOS] at h
    injection h with h
    exact ⟨_, h.symm, fun _ => rfl, fun x hx => (by cases hx)⟩
  | some t =>
    simp only [createTrading] at h
    injection h with h
    exact ⟨t, h.symm, fun hx => (by cases hx), fun x hx => (by cases hx; rfl)⟩

/-- shape of a successful create -/
theorem TT.create_ok {w w' : World} {kind : CollKind} {creator start : Nat} {end_ req : Option Nat}
    (h : step w (.create kind creator start end_ req) = .ok w') :
    w.mc = none ∧ ∃ tr, createTrading w.family w.now w.offset start end_ req = .ok tr ∧
      w' = { w with mc := some (mkMinter w.family creator start end_, Coll.init kind w.minterAddr creator tr) } := by
  simp only [step, create] at h
  split at h
  · cases h
  · rename_i hmc
    split at h
    · cases h
    · rename_i tr htr
      injection h with h
      exact ⟨hmc, tr, htr, h.symm⟩

/-- shape of a successful minter update -/
theorem TT.updTrading_ok {w w' : World} {sender funds : Nat} {req : Option Nat}
    (h : step w (.updTrading sender req funds) = .ok w') :
    ∃ m c, w.mc = some (m, c) ∧ funds = 0 ∧ sender = adminOf w.family m c ∧
      tradingUpdateOk w.family w.now m.mintStart w.offset req = true ∧
      c.kind.hasTradingMsg = true ∧ c.owner = some w.minterAddr ∧
      w' = { w with mc := some (m, { c with trading := req }) } := by
  simp only [step, updTrading] at h
  split at h
  · cases h
  · rename_i m c hmc
    split at h
    · cases h
    · rename_i hf
      split at h
      · cases h
      · rename_i hs
        split at h
        · cases h
        · rename_i hok
          split at h
          · cases h
          · rename_i c' hc
            injection h with h
            simp only [Coll.updateTrading] at hc
            split at hc
            · cases hc
            · rename_i hk
              split at hc
              · rename_i ho
                injection hc with hc
                refine ⟨m, c, hmc, by omega, by simpa using hs, by simpa using hok, by simpa using hk, ho, ?_⟩
                rw [← h, ← hc]
              · cases hc

theorem TT.tradingUpdateOk_some {fam : Family} {now mintStart offset t : Nat}
    (h : tradingUpdateOk fam now mintStart offset (some t) = true) :
    now ≤ t ∧ (fam ≠ .base → t ≤ mintStart + offset * 1000000000) := by
  simp [tradingUpdateOk, plusSeconds, NANOS] at h
  exact ⟨h.1, fun hf => h.2.resolve_left hf⟩

theorem TT.tradingUpdateOk_iff (fam : Family) (now mintStart offset : Nat) (req : Option Nat) :
    tradingUpdateOk fam now mintStart offset req = true ↔
      ∀ t, req = some t → now ≤ t ∧ (fam ≠ .base → t ≤ mintStart + offset * 1000000000) := by
  constructor
  · intro h t ht
    subst ht
    exact tradingUpdateOk_some h
  · intro h
    cases req with
    | none => rfl
    | some t =>
      obtain ⟨h1, h2⟩ := h t rfl
      simp [tradingUpdateOk, plusSeconds, NANOS]
      refine ⟨h1, ?_⟩
      by_cases hf : fam = .base
      · exact .inl hf
      · exact .inr (h2 hf)

/-! ## Clause 1 — creation: bound and default

"Whenever a vending, open-edition or token-merge minter sets a collection's trading start time, at creation …, the value is
no later than the mint start time plus the factory's maximum trading offset in force at that moment … when the creator
gives none at creation it defaults to exactly mint start plus the offset" -/
theorem C19_create_bound (w w' : World) (kind : CollKind) (creator start : Nat) (end_ req : Option Nat)
    (hfam : w.family ≠ .base)
    (h : step w (.create kind creator start end_ req) = .ok w') :
    ∃ m c t, w'.mc = some (m, c) ∧ c.trading = some t ∧ m.mintStart = start ∧
      t ≤ start + w.offset * 1000000000 ∧
      (req = none → t = start + w.offset * 1000000000) ∧ (∀ x, req = some x → t = x) ∧
      c.owner = some w.minterAddr ∧ c.pending = none ∧ m.admin = creator ∧ c.creator = creator := by
  obtain ⟨_, tr, htr, hw'⟩ := create_ok h
  obtain ⟨t, rfl, hb, hd, hx⟩ := createTrading_ok_nonbase hfam htr
  subst hw'
  refine ⟨mkMinter w.family creator start end_, Coll.init kind w.minterAddr creator (some t), t, rfl, rfl, ?_, hb, hd, hx,
    rfl, rfl, rfl, rfl⟩
  simp [mkMinter, hfam]

/-- a creation request one nanosecond (or more) past the bound is refused, whatever else is supplied -/
theorem C19_create_rejects_past_bound (w : World) (kind : CollKind) (creator start t : Nat) (end_ : Option Nat)
    (hfam : w.family ≠ .base) (ht : t > start + w.offset * 1000000000) :
    ∃ e, step w (.create kind creator start end_ (some t)) = .error e := by
  cases h : step w (.create kind creator start end_ (some t)) with
  | error e => exact ⟨e, rfl⟩
  | ok w' =>
    obtain ⟨_, _, t', _, _, _, hb, _, hx, _⟩ := C19_create_bound w w' kind creator start end_ (some t) hfam h
    have := hx t rfl
    omega

/-- "(creation time plus the offset for the base minter)"; an explicit request is stored as given -/
theorem C19_create_default_base (w w' : World) (kind : CollKind) (creator start : Nat) (end_ req : Option Nat)
    (hfam : w.family = .base)
    (h : step w (.create kind creator start end_ req) = .ok w') :
    ∃ m c t, w'.mc = some (m, c) ∧ c.trading = some t ∧
      (req = none → t = w.now + w.offset * 1000000000) ∧ (∀ x, req = some x → t = x) ∧
      c.owner = some w.minterAddr ∧ c.pending = none ∧ c.creator = creator := by
  obtain ⟨_, tr, htr, hw'⟩ := create_ok h
  rw [hfam] at htr
  obtain ⟨t, rfl, hd, hx⟩ := createTrading_ok_base htr
  subst hw'
  exact ⟨mkMinter w.family creator start end_, Coll.init kind w.minterAddr creator (some t), t, rfl, rfl, hd, hx,
    rfl, rfl, rfl⟩

/-! ## Clause 2 — update: `now ≤ t ≤ currentMintStart + currentOffset` (base: `now ≤ t`)

"… or by a later update, the value is no later than the mint start time plus the factory's maximum trading offset in force
at that moment, and no minter (the base minter included) accepts an update that sets it earlier than the current time" -/
theorem C19_update_bound (w w' : World) (sender t funds : Nat)
    (h : step w (.updTrading sender (some t) funds) = .ok w') :
    ∃ m c, w.mc = some (m, c) ∧ w.now ≤ t ∧
      (w.family ≠ .base → t ≤ m.mintStart + w.offset * 1000000000) ∧
      visible w' = some (some t) := by
  obtain ⟨m, c, hmc, _, _, hok, _, _, hw'⟩ := updTrading_ok h
  obtain ⟨h1, h2⟩ := tradingUpdateOk_some hok
  refine ⟨m, c, hmc, h1, h2, ?_⟩
  subst hw'
  rfl

/-- exact characterisation of acceptance (operators and all): the minter update succeeds **iff** no funds are attached, the
sender is the admin, every requested `some t` satisfies `now ≤ t` (and `t ≤ mintStart + offset·10⁹` unless base), and the
collection takes the minter's sub-message (it has the message and the minter is its owner) -/
theorem C19_update_iff (w : World) (m : Minter) (c : Coll) (hmc : w.mc = some (m, c))
    (sender funds : Nat) (req : Option Nat) :
    (∃ w', step w (.updTrading sender req funds) = .ok w') ↔
      funds = 0 ∧ sender = adminOf w.family m c ∧
      (∀ t, req = some t → w.now ≤ t ∧ (w.family ≠ .base → t ≤ m.mintStart + w.offset * 1000000000)) ∧
      c.kind.hasTradingMsg = true ∧ c.owner = some w.minterAddr := by
  constructor
  · rintro ⟨w', h⟩
    obtain ⟨m', c', hmc', hf, hs, hok, hk, ho, _⟩ := updTrading_ok h
    rw [hmc] at hmc'
    cases hmc'
    exact ⟨hf, hs, (tradingUpdateOk_iff _ _ _ _ _).1 hok, hk, ho⟩
  · rintro ⟨hf, hs, hok, hk, ho⟩
    have hok' := (tradingUpdateOk_iff w.family w.now m.mintStart w.offset req).2 hok
    refine ⟨{ w with mc := some (m, { c with trading := req }) }, ?_⟩
    simp [step, updTrading, hmc, hf, hs, hok', Coll.updateTrading, hk, ho]

/-- the boundary instants: with everything else in order, `t = bound` is accepted and `t = bound + 1 ns` refused;
`t = now` is accepted and `t = now − 1 ns` refused -/
theorem C19_update_boundaries (w : World) (m : Minter) (c : Coll) (hmc : w.mc = some (m, c))
    (hfam : w.family ≠ .base) (hk : c.kind.hasTradingMsg = true) (ho : c.owner = some w.minterAddr)
    (hnow : w.now ≤ m.mintStart + w.offset * 1000000000) :
    (∃ w', step w (.updTrading (adminOf w.family m c) (some (m.mintStart + w.offset * 1000000000)) 0) = .ok w') ∧
    (¬ ∃ w', step w (.updTrading (adminOf w.family m c) (some (m.mintStart + w.offset * 1000000000 + 1)) 0) = .ok w') ∧
    (∃ w', step w (.updTrading (adminOf w.family m c) (some w.now) 0) = .ok w') ∧
    (∀ t, t < w.now → ¬ ∃ w', step w (.updTrading (adminOf w.family m c) (some t) 0) = .ok w') := by
  refine ⟨?_, ?_, ?_, ?_⟩
  · refine (C19_update_iff w m c hmc _ _ _).2 ⟨rfl, rfl, ?_, hk, ho⟩
    intro t ht; cases ht; exact ⟨hnow, fun _ => Nat.le_refl _⟩
  · intro h
    obtain ⟨_, _, hb, _⟩ := (C19_update_iff w m c hmc _ _ _).1 h
    have := (hb _ rfl).2 hfam
    omega
  · refine (C19_update_iff w m c hmc _ _ _).2 ⟨rfl, rfl, ?_, hk, ho⟩
    intro t ht; cases ht; exact ⟨Nat.le_refl _, fun _ => hnow⟩
  · intro t ht h
    obtain ⟨_, _, hb, _⟩ := (C19_update_iff w m c hmc _ _ _).1 h
    have := (hb _ rfl).1
    omega

/-- base minter: any `t ≥ now` is accepted — there is no upper bound -/
theorem C19_update_base_no_upper_bound (w : World) (m : Minter) (c : Coll) (hmc : w.mc = some (m, c))
    (hfam : w.family = .base) (hk : c.kind.hasTradingMsg = true) (ho : c.owner = some w.minterAddr)
    (t : Nat) (ht : w.now ≤ t) :
    ∃ w', step w (.updTrading c.creator (some t) 0) = .ok w' := by
  refine (C19_update_iff w m c hmc _ _ _).2 ⟨rfl, by simp [adminOf, hfam], ?_, hk, ho⟩
  intro t' ht'; cases ht'; exact ⟨ht, fun h => absurd hfam h⟩

/-! ## Clause 3 — authorisation

"Only the minter admin can request the change and the collection accepts it only from its minter" -/
theorem C19_auth (w w' : World) (sender : Nat) (req : Option Nat) :
    -- (a) minter: only the admin (base-minter: the collection's current creator), and never with funds attached
    (∀ funds, step w (.updTrading sender req funds) = .ok w' →
      ∃ m c, w.mc = some (m, c) ∧ funds = 0 ∧
        (w.family ≠ .base → sender = m.admin) ∧ (w.family = .base → sender = c.creator)) ∧
    -- (b) collection: only its minter (the cw_ownable owner)
    (step w (.collTrading sender req) = .ok w' → ∃ m c, w.mc = some (m, c) ∧ c.owner = some sender) := by
  constructor
  · intro funds h
    obtain ⟨m, c, hmc, hf, hs, _⟩ := updTrading_ok h
    refine ⟨m, c, hmc, hf, ?_, ?_⟩
    · intro hb; simpa [adminOf, hb] using hs
    · intro hb; simpa [adminOf, hb] using hs
  · intro h
    simp only [step, onColl] at h
    split at h
    · cases h
    · rename_i m c hmc
      split at h
      · cases h
      · rename_i c' hc
        simp only [Coll.updateTrading] at hc
        split at hc
        · cases hc
        · split at hc
          · rename_i ho; exact ⟨m, c, hmc, ho⟩
          · cases hc

/-- a direct `UpdateStartTradingTime` from anybody but the owner is refused (and `step'` leaves the world unchanged) -/
theorem C19_auth_collection_rejects (w : World) (m : Minter) (c : Coll) (hmc : w.mc = some (m, c))
    (sender : Nat) (req : Option Nat) (hs : c.owner ≠ some sender) :
    (∃ e, step w (.collTrading sender req) = .error e) ∧ step' w (.collTrading sender req) = w := by
  have : ∃ e, step w (.collTrading sender req) = .error e := by
    cases h : step w (.collTrading sender req) with
    | error e => exact ⟨e, rfl⟩
    | ok w' =>
      obtain ⟨m', c', hmc', ho⟩ := (C19_auth w w' sender req).2 h
      rw [hmc] at hmc'; cases hmc'
      exact absurd ho hs
  obtain ⟨e, he⟩ := this
  exact ⟨⟨e, he⟩, by simp [step', he]⟩

/-! ## Clause 4 — the visible value is always one the minter validated (all histories) -/

/-- the collection's owner is the minter contract and no transfer is pending -/
def TT.OwnerInv (w : World) : Prop :=
  ∀ m c, w.mc = some (m, c) → c.owner = some w.minterAddr ∧ c.pending = none

/-- messages sent *to the collection* come from anybody except the minter contract's own address (a contract's address
only ever sends what its code sends: the minter's only message to the collection about trading is the validated one) -/
def TT.Op.External (a : Addr) : Op → Prop
  | .collTrading s _ => s ≠ a
  | .collCreator s _ => s ≠ a
  | .collFreeze s => s ≠ a
  | .collOwn s _ => s ≠ a
  | _ => True

def TT.Op.isWrite : Op → Bool
  | .create .. => true
  | .updTrading .. => true
  | _ => false

/-- what a validated write guarantees, evaluated in the state `w` in which it was executed ("in force at that moment") -/
def TT.ValidWrite (w : World) (op : Op) (w' : World) : Prop :=
  match op with
  | .create _ _ start _ req =>
    ∃ v, visible w' = some (some v) ∧
      (w.family ≠ .base → v ≤ start + w.offset * 1000000000 ∧ (req = none → v = start + w.offset * 1000000000)) ∧
      (w.family = .base → req = none → v = w.now + w.offset * 1000000000) ∧
      (∀ x, req = some x → v = x)
  | .updTrading sender req _ =>
    ∃ m c, w.mc = some (m, c) ∧ sender = adminOf w.family m c ∧ visible w' = some req ∧
      ∀ t, req = some t → w.now ≤ t ∧ (w.family ≠ .base → t ≤ m.mintStart + w.offset * 1000000000)
  | _ => False

theorem TT.validWrite_of_step {w w' : World} {op : Op} (hw : op.isWrite = true) (h : step w op = .ok w') :
    ValidWrite w op w' := by
  cases op with
  | create kind creator start end_ req =>
    simp only [ValidWrite]
    by_cases hf : w.family = .base
    · obtain ⟨m, c, t, hmc, htr, hd, hx, _⟩ := C19_create_default_base w w' kind creator start end_ req hf h
      exact ⟨t, by simp [visible, hmc, htr], fun h => absurd hf h, fun _ => hd, hx⟩
    · obtain ⟨m, c, t, hmc, htr, _, hb, hd, hx, _⟩ := C19_create_bound w w' kind creator start end_ req hf h
      exact ⟨t, by simp [visible, hmc, htr], fun _ => ⟨hb, hd⟩, fun h => absurd h hf, hx⟩
  | updTrading sender req funds =>
    simp only [ValidWrite]
    obtain ⟨m, c, hmc, _, hs, hok, _, _, hw'⟩ := updTrading_ok h
    refine ⟨m, c, hmc, hs, ?_, (tradingUpdateOk_iff _ _ _ _ _).1 hok⟩
    subst hw'; rfl
  | setTime _ => simp [Op.isWrite] at hw
  | sudoOffset _ => simp [Op.isWrite] at hw
  | updStart _ _ _ => simp [Op.isWrite] at hw
  | updEnd _ _ _ => simp [Op.isWrite] at hw
  | collTrading _ _ => simp [Op.isWrite] at hw
  | collCreator _ _ => simp [Op.isWrite] at hw
  | collFreeze _ => simp [Op.isWrite] at hw
  | collOwn _ _ => simp [Op.isWrite] at hw

theorem TT.onColl_ok {w w' : World} {f : Coll → Except Err Coll} (h : onColl w f = .ok w') :
    ∃ m c c', w.mc = some (m, c) ∧ f c = .ok c' ∧ w' = { w with mc := some (m, c') } := by
  simp only [onColl] at h
  split at h
  · cases h
  · rename_i m c hmc
    split at h
    · cases h
    · rename_i c' hc
      injection h with h
      exact ⟨m, c, c', hmc, hc, h.symm⟩

/-- no step changes the family or the minter's address -/
theorem TT.step_static {w w' : World} {op : Op} (h : step w op = .ok w') :
    w'.minterAddr = w.minterAddr ∧ w'.family = w.family := by
  cases op with
  | setTime t => simp only [step] at h; injection h with h; subst h; exact ⟨rfl, rfl⟩
  | sudoOffset v => simp only [step] at h; injection h with h; subst h; exact ⟨rfl, rfl⟩
  | create kind creator start end_ req =>
    obtain ⟨_, _, _, hw'⟩ := create_ok h; subst hw'; exact ⟨rfl, rfl⟩
  | updTrading s req f =>
    obtain ⟨_, _, _, _, _, _, _, _, hw'⟩ := updTrading_ok h; subst hw'; exact ⟨rfl, rfl⟩
  | updStart s t f =>
    simp only [step, updStart] at h
    repeat' split at h
    all_goals first | (cases h; done) | (injection h with h; subst h; exact ⟨rfl, rfl⟩)
  | updEnd s t f =>
    simp only [step, updEnd] at h
    repeat' split at h
    all_goals first | (cases h; done) | (injection h with h; subst h; exact ⟨rfl, rfl⟩)
  | collTrading s req =>
    obtain ⟨_, _, _, _, _, hw'⟩ := onColl_ok h; subst hw'; exact ⟨rfl, rfl⟩
  | collCreator s n =>
    obtain ⟨_, _, _, _, _, hw'⟩ := onColl_ok h; subst hw'; exact ⟨rfl, rfl⟩
  | collFreeze s =>
    obtain ⟨_, _, _, _, _, hw'⟩ := onColl_ok h; subst hw'; exact ⟨rfl, rfl⟩
  | collOwn s a =>
    obtain ⟨_, _, _, _, _, hw'⟩ := onColl_ok h; subst hw'; exact ⟨rfl, rfl⟩

/-- shape of a successful `UpdateStartTime` / `UpdateEndTime`: only the minter record changes -/
theorem TT.updStart_ok {w w' : World} {s t f : Nat} (h : step w (.updStart s t f) = .ok w') :
    ∃ m c, w.mc = some (m, c) ∧ w' = { w with mc := some ({ m with mintStart := t }, c) } := by
  simp only [step, updStart] at h
  split at h
  · cases h
  · rename_i m c hmc
    repeat' split at h
    all_goals first | (cases h; done) | (injection h with h; exact ⟨m, c, hmc, h.symm⟩)

theorem TT.updEnd_ok {w w' : World} {s t f : Nat} (h : step w (.updEnd s t f) = .ok w') :
    ∃ m c, w.mc = some (m, c) ∧ w' = { w with mc := some ({ m with endTime := some t }, c) } := by
  simp only [step, updEnd] at h
  split at h
  · cases h
  · rename_i m c hmc
    repeat' split at h
    all_goals first | (cases h; done) | (injection h with h; exact ⟨m, c, hmc, h.symm⟩)

/-- the ownership invariant is preserved by every op (external senders on the collection) -/
theorem TT.ownerInv_step {w w' : World} {op : Op} (hinv : OwnerInv w) (hext : op.External w.minterAddr)
    (h : step w op = .ok w') : OwnerInv w' := by
  cases op with
  | setTime t => simp only [step] at h; injection h with h; subst h; exact hinv
  | sudoOffset v => simp only [step] at h; injection h with h; subst h; exact hinv
  | create kind creator start end_ req =>
    obtain ⟨_, _, _, hw'⟩ := create_ok h
    subst hw'
    intro m c hmc
    simp only [Option.some.injEq, Prod.mk.injEq] at hmc
    obtain ⟨_, rfl⟩ := hmc
    exact ⟨rfl, rfl⟩
  | updTrading s req f =>
    obtain ⟨m, c, hmc, _, _, _, _, _, hw'⟩ := updTrading_ok h
    subst hw'
    intro m' c' hmc'
    simp only [Option.some.injEq, Prod.mk.injEq] at hmc'
    obtain ⟨_, rfl⟩ := hmc'
    exact hinv m c hmc
  | updStart s t f =>
    obtain ⟨m, c, hmc, hw'⟩ := updStart_ok h
    subst hw'
    intro m' c' hmc'
    simp only [Option.some.injEq, Prod.mk.injEq] at hmc'
    obtain ⟨_, rfl⟩ := hmc'
    exact hinv m c hmc
  | updEnd s t f =>
    obtain ⟨m, c, hmc, hw'⟩ := updEnd_ok h
    subst hw'
    intro m' c' hmc'
    simp only [Option.some.injEq, Prod.mk.injEq] at hmc'
    obtain ⟨_, rfl⟩ := hmc'
    exact hinv m c hmc
  | collTrading s req =>
    obtain ⟨m, c, c', hmc, hc, hw'⟩ := onColl_ok h
    obtain ⟨ho, hp⟩ := hinv m c hmc
    simp only [Coll.updateTrading] at hc
    split at hc
    · cases hc
    · split at hc
      · rename_i ho'
        rw [ho] at ho'
        injection ho' with ho'
        exact absurd ho'.symm hext
      · cases hc
  | collCreator s n =>
    obtain ⟨m, c, c', hmc, hc, hw'⟩ := onColl_ok h
    obtain ⟨ho, hp⟩ := hinv m c hmc
    subst hw'
    intro m' c'' hmc'
    simp only [Option.some.injEq, Prod.mk.injEq] at hmc'
    obtain ⟨_, rfl⟩ := hmc'
    simp only [Coll.updateCreator] at hc
    repeat' split at hc
    all_goals first | (cases hc; done) | (injection hc with hc; subst hc; exact ⟨ho, hp⟩)
  | collFreeze s =>
    obtain ⟨m, c, c', hmc, hc, hw'⟩ := onColl_ok h
    obtain ⟨ho, hp⟩ := hinv m c hmc
    subst hw'
    intro m' c'' hmc'
    simp only [Option.some.injEq, Prod.mk.injEq] at hmc'
    obtain ⟨_, rfl⟩ := hmc'
    simp only [Coll.freeze] at hc
    repeat' split at hc
    all_goals first | (cases hc; done) | (injection hc with hc; subst hc; exact ⟨ho, hp⟩)
  | collOwn s a =>
    obtain ⟨m, c, c', hmc, hc, hw'⟩ := onColl_ok h
    obtain ⟨ho, hp⟩ := hinv m c hmc
    exfalso
    have hs : s ≠ w.minterAddr := hext
    simp only [Coll.updateOwnership] at hc
    split at hc
    · cases hc
    · cases a with
      | transfer n =>
        simp only at hc
        split at hc
        · rename_i ho'; rw [ho] at ho'; injection ho' with ho'; exact hs ho'.symm
        · cases hc
      | accept =>
        simp only at hc
        split at hc
        · rename_i hp'; rw [hp] at hp'; cases hp'
        · cases hc
      | renounce =>
        simp only at hc
        split at hc
        · rename_i ho'; rw [ho] at ho'; injection ho' with ho'; exact hs ho'.symm
        · cases hc

/-- FRAME: an op that is not a validated write (clock, governance offset change, `UpdateStartTime`, `UpdateEndTime`, and
every message anybody but the minter sends to the collection) leaves the visible trading time untouched. In particular a
later decrease of the offset or a move of the mint start does not retroactively alter (or invalidate) a stored value. -/
theorem C19_frame (w w' : World) (op : Op) (hinv : OwnerInv w) (hext : op.External w.minterAddr)
    (hw : op.isWrite = false) (h : step w op = .ok w') : visible w' = visible w := by
  cases op with
  | setTime t => simp only [step] at h; injection h with h; subst h; rfl
  | sudoOffset v => simp only [step] at h; injection h with h; subst h; rfl
  | create _ _ _ _ _ => simp [Op.isWrite] at hw
  | updTrading _ _ _ => simp [Op.isWrite] at hw
  | updStart s t f =>
    obtain ⟨m, c, hmc, hw'⟩ := updStart_ok h
    subst hw'; simp [visible, hmc]
  | updEnd s t f =>
    obtain ⟨m, c, hmc, hw'⟩ := updEnd_ok h
    subst hw'; simp [visible, hmc]
  | collTrading s req =>
    obtain ⟨m, c, hmc, ho⟩ := (C19_auth w w' s req).2 h
    rw [(hinv m c hmc).1] at ho
    injection ho with ho
    exact absurd ho.symm hext
  | collCreator s n =>
    obtain ⟨m, c, c', hmc, hc, hw'⟩ := onColl_ok h
    subst hw'
    simp only [Coll.updateCreator] at hc
    repeat' split at hc
    all_goals first | (cases hc; done) | (injection hc with hc; subst hc; simp [visible, hmc])
  | collFreeze s =>
    obtain ⟨m, c, c', hmc, hc, hw'⟩ := onColl_ok h
    subst hw'
    simp only [Coll.freeze] at hc
    repeat' split at hc
    all_goals first | (cases hc; done) | (injection hc with hc; subst hc; simp [visible, hmc])
  | collOwn s a =>
    -- refused outright for external senders (see `ownerInv_step`); derive the frame from the invariant being kept
    obtain ⟨m, c, c', hmc, hc, hw'⟩ := onColl_ok h
    subst hw'
    simp only [Coll.updateOwnership] at hc
    split at hc
    · cases hc
    · cases a with
      | transfer n =>
        simp only at hc
        split at hc
        · injection hc with hc; subst hc; simp [visible, hmc]
        · cases hc
      | accept =>
        simp only at hc
        split at hc
        · injection hc with hc; subst hc; simp [visible, hmc]
        · cases hc
      | renounce =>
        simp only at hc
        split at hc
        · injection hc with hc; subst hc; simp [visible, hmc]
        · cases hc

theorem TT.run_cons (w : World) (op : Op) (ops : List Op) : run w (op :: ops) = run (step' w op) ops := rfl

theorem TT.step'_ok {w w' : World} {op : Op} (h : step w op = .ok w') : step' w op = w' := by simp [step', h]
theorem TT.step'_err {w : World} {op : Op} {e : Err} (h : step w op = .error e) : step' w op = w := by simp [step', h]

/-- over every history the collection stays owned by the minter contract, with no transfer pending -/
theorem C19_owner_stable (w : World) (ops : List Op) (hinv : OwnerInv w)
    (hext : ∀ op ∈ ops, op.External w.minterAddr) :
    OwnerInv (run w ops) ∧ (run w ops).minterAddr = w.minterAddr ∧ (run w ops).family = w.family := by
  induction ops generalizing w with
  | nil => exact ⟨hinv, rfl, rfl⟩
  | cons op ops ih =>
    rw [run_cons]
    cases h : step w op with
    | error e =>
      rw [step'_err h]
      exact ih w hinv (fun o ho => hext o (List.mem_cons_of_mem _ ho))
    | ok w1 =>
      rw [step'_ok h]
      obtain ⟨ha, hf⟩ := step_static h
      have hinv1 := ownerInv_step hinv (hext op List.mem_cons_self) h
      obtain ⟨h1, h2, h3⟩ := ih w1 hinv1 (fun o ho => by rw [ha]; exact hext o (List.mem_cons_of_mem _ ho))
      exact ⟨h1, by rw [h2, ha], by rw [h3, hf]⟩

/-- core induction: from any state satisfying the ownership invariant, the finally visible value is either the one visible
at the start or the one written by a *validated write* somewhere in the history -/
theorem TT.validated_aux (w : World) (ops : List Op) (hinv : OwnerInv w)
    (hext : ∀ op ∈ ops, op.External w.minterAddr) :
    visible (run w ops) = visible w ∨
    ∃ ops₁ op ops₂ w₂, ops = ops₁ ++ op :: ops₂ ∧ step (run w ops₁) op = .ok w₂ ∧
      ValidWrite (run w ops₁) op w₂ ∧ visible (run w ops) = visible w₂ := by
  induction ops generalizing w with
  | nil => exact .inl rfl
  | cons op ops ih =>
    rw [run_cons]
    cases h : step w op with
    | error e =>
      rw [step'_err h]
      rcases ih w hinv (fun o ho => hext o (List.mem_cons_of_mem _ ho)) with hl | ⟨o1, o, o2, w2, he, hs, hv, hvis⟩
      · exact .inl hl
      · refine .inr ⟨op :: o1, o, o2, w2, by rw [he]; rfl, ?_, ?_, hvis⟩
        · rw [run_cons, step'_err h]; exact hs
        · rw [run_cons, step'_err h]; exact hv
    | ok w1 =>
      rw [step'_ok h]
      obtain ⟨ha, _⟩ := step_static h
      have hinv1 := ownerInv_step hinv (hext op List.mem_cons_self) h
      rcases ih w1 hinv1 (fun o ho => by rw [ha]; exact hext o (List.mem_cons_of_mem _ ho)) with hl | ⟨o1, o, o2, w2, he, hs, hv, hvis⟩
      · by_cases hw : op.isWrite = true
        · exact .inr ⟨[], op, ops, w1, rfl, h, validWrite_of_step hw h, hl⟩
        · have hw' : op.isWrite = false := by simpa using hw
          exact .inl (hl.trans (C19_frame w w1 op hinv (hext op List.mem_cons_self) hw' h))
      · refine .inr ⟨op :: o1, o, o2, w2, by rw [he]; rfl, ?_, ?_, hvis⟩
        · rw [run_cons, step'_ok h]; exact hs
        · rw [run_cons, step'_ok h]; exact hv

/-- "so the value visible in the collection info is always one the minter validated" — for ALL operation histories
(creations incl. failed attempts, minter updates by anybody, `UpdateStartTime`/`UpdateEndTime`, governance offset changes,
messages sent straight to the collection by arbitrary non-minter senders, arbitrary clock steps), starting before the
minter exists: either there is no collection yet, or the history contains a successful validated write (`create` or the
minter's `UpdateStartTradingTime`) whose bound/now/admin checks held **in the state in which it was executed**
(`ValidWrite`), and the value visible now is exactly the value that write stored. -/
theorem C19_validated (w0 : World) (ops : List Op) (h0 : w0.mc = none)
    (hext : ∀ op ∈ ops, op.External w0.minterAddr) :
    visible (run w0 ops) = none ∨
    ∃ ops₁ op ops₂ w₂, ops = ops₁ ++ op :: ops₂ ∧ step (run w0 ops₁) op = .ok w₂ ∧
      ValidWrite (run w0 ops₁) op w₂ ∧ visible (run w0 ops) = visible w₂ := by
  have hinv : OwnerInv w0 := by intro m c hmc; rw [h0] at hmc; cases hmc
  rcases validated_aux w0 ops hinv hext with hl | hr
  · left; rw [hl]; simp [visible, h0]
  · exact .inr hr

theorem TT.getLast?_getD_cons {α : Type} (a : α) (l : List α) (x y : α) :
    ((a :: l).getLast?).getD x = ((a :: l).getLast?).getD y := by
  induction l generalizing a with
  | nil => rfl
  | cons b l ih => rw [List.getLast?_cons_cons]; exact ih b

/-- the values stored by the validated writes of a history, oldest first (`none` entry = trading time cleared) -/
def TT.validatedHistory (w : World) : List Op → List (Option (Option Nat))
  | [] => []
  | op :: ops =>
    match step w op with
    | .ok w' => if op.isWrite then visible w' :: validatedHistory w' ops else validatedHistory w' ops
    | .error _ => validatedHistory w ops

/-- invariant form: the current value is the most recent element of the validated history (and the value visible at the
start if the history has no validated write) -/
theorem C19_validated_history (w : World) (ops : List Op) (hinv : OwnerInv w)
    (hext : ∀ op ∈ ops, op.External w.minterAddr) :
    visible (run w ops) = ((validatedHistory w ops).getLast?).getD (visible w) := by
  induction ops generalizing w with
  | nil => rfl
  | cons op ops ih =>
    rw [run_cons]
    cases h : step w op with
    | error e =>
      rw [step'_err h]
      simp only [validatedHistory, h]
      exact ih w hinv (fun o ho => hext o (List.mem_cons_of_mem _ ho))
    | ok w1 =>
      rw [step'_ok h]
      obtain ⟨ha, _⟩ := step_static h
      have hinv1 := ownerInv_step hinv (hext op List.mem_cons_self) h
      have ih1 := ih w1 hinv1 (fun o ho => by rw [ha]; exact hext o (List.mem_cons_of_mem _ ho))
      simp only [validatedHistory, h]
      by_cases hw : op.isWrite = true
      · simp only [hw, if_true]
        rw [ih1]
        cases hl : validatedHistory w1 ops with
        | nil => simp
        | cons a l => rw [List.getLast?_cons_cons]; exact getLast?_getD_cons a l _ _
      · have hw' : op.isWrite = false := by simpa using hw
        simp only [hw', Bool.false_eq_true, if_false]
        rw [ih1, C19_frame w w1 op hinv (hext op List.mem_cons_self) hw' h]


/-! ## Round 3 — what "validated" means for `UpdateStartTradingTime(None)`, and the value-level reading of clause 4

`tradingUpdateOk … none = true`: the minter accepts `None` from its admin at EVERY clock value and the collection then shows no
trading time at all. `C19_validated` is true as stated (the write is a "validated write": `ValidWrite` for `req = none` asserts
the admin check only), but for such a write the sentence "the value visible … is always one the minter validated" speaks of no
value. The property text constrains *values* ("the value is no later than …", "sets it earlier than the current time"), so this
is not a contradiction of a literal clause; whether a consumer reads `None` as "tradable now" is outside the launchpad
repository. It is made explicit here instead of being an observation in the notes: -/

/-- `UpdateStartTradingTime(None)` from the admin is accepted whatever the clock, mint start and offset are (collection with the
message, owned by the minter), and clears the visible value. -/
theorem C19_none_clears (w : World) (m : Minter) (c : Coll) (hmc : w.mc = some (m, c))
    (hk : c.kind.hasTradingMsg = true) (ho : c.owner = some w.minterAddr) :
    ∃ w', step w (.updTrading (adminOf w.family m c) none 0) = .ok w' ∧ visible w' = some none := by
  refine ⟨{ w with mc := some (m, { c with trading := none }) }, ?_, rfl⟩
  simp [step, updTrading, hmc, tradingUpdateOk, Coll.updateTrading, hk, ho]

/-- once the clock has passed mint start + offset, EVERY concrete value is refused (from anybody, with or without funds) —
and yet the admin can still clear the value. -/
theorem C19_none_accepted_when_every_value_refused (w : World) (m : Minter) (c : Coll) (hmc : w.mc = some (m, c))
    (hfam : w.family ≠ .base) (hk : c.kind.hasTradingMsg = true) (ho : c.owner = some w.minterAddr)
    (hlate : m.mintStart + w.offset * 1000000000 < w.now) :
    (∀ s t f, ¬ ∃ w', step w (.updTrading s (some t) f) = .ok w') ∧
    (∃ w', step w (.updTrading (adminOf w.family m c) none 0) = .ok w' ∧ visible w' = some none) := by
  refine ⟨?_, C19_none_clears w m c hmc hk ho⟩
  intro s t f h
  obtain ⟨_, _, hb, _⟩ := (C19_update_iff w m c hmc s f (some t)).1 h
  obtain ⟨h1, h2⟩ := hb t rfl
  have := h2 hfam
  omega

/-- VALUE-level form of clause 4 (what `C19_validated` gives when the collection shows a concrete value `v`): the history
contains a successful write that stored exactly `v`, and it is either a creation whose bound (non-base) held with the offset of
THAT state, or a minter update `UpdateStartTradingTime(Some v)` with `now ≤ v` and (non-base) `v ≤ mintStart + offset·10⁹` in
THAT state. (For a visible `None` only the admin check is asserted: `C19_none_clears`.) -/
theorem C19_visible_value_validated (w0 : World) (ops : List Op) (h0 : w0.mc = none)
    (hext : ∀ op ∈ ops, op.External w0.minterAddr) (v : Nat) (hv : visible (run w0 ops) = some (some v)) :
    ∃ ops₁ op ops₂ w₂, ops = ops₁ ++ op :: ops₂ ∧ step (run w0 ops₁) op = .ok w₂ ∧ visible w₂ = some (some v) ∧
      ((∃ k cr start e req, op = .create k cr start e req ∧
          ((run w0 ops₁).family ≠ .base → v ≤ start + (run w0 ops₁).offset * 1000000000) ∧
          (∀ x, req = some x → v = x)) ∨
       (∃ s f m c, op = .updTrading s (some v) f ∧ (run w0 ops₁).mc = some (m, c) ∧
          s = adminOf (run w0 ops₁).family m c ∧ (run w0 ops₁).now ≤ v ∧
          ((run w0 ops₁).family ≠ .base → v ≤ m.mintStart + (run w0 ops₁).offset * 1000000000))) := by
  rcases C19_validated w0 ops h0 hext with hn | ⟨o1, op, o2, w2, he, hs, hvw, hvis⟩
  · rw [hn] at hv; cases hv
  · rw [hvis] at hv
    refine ⟨o1, op, o2, w2, he, hs, hv, ?_⟩
    cases op with
    | create k cr start e req =>
      simp only [ValidWrite] at hvw
      obtain ⟨v', hv', hb, _, hx⟩ := hvw
      rw [hv] at hv'
      have hvv : v = v' := by simpa using hv'
      subst hvv
      exact .inl ⟨k, cr, start, e, req, rfl, fun hf => (hb hf).1, hx⟩
    | updTrading s req f =>
      simp only [ValidWrite] at hvw
      obtain ⟨m, c, hmc, hsd, hv', hb⟩ := hvw
      rw [hv] at hv'
      have hreq : req = some v := by simpa using hv'.symm
      subst hreq
      obtain ⟨h1, h2⟩ := hb v rfl
      exact .inr ⟨s, f, m, c, rfl, hmc, hsd, h1, h2⟩
    | setTime _ => exact absurd hvw (by simp [ValidWrite])
    | sudoOffset _ => exact absurd hvw (by simp [ValidWrite])
    | updStart _ _ _ => exact absurd hvw (by simp [ValidWrite])
    | updEnd _ _ _ => exact absurd hvw (by simp [ValidWrite])
    | collTrading _ _ => exact absurd hvw (by simp [ValidWrite])
    | collCreator _ _ => exact absurd hvw (by simp [ValidWrite])
    | collFreeze _ => exact absurd hvw (by simp [ValidWrite])
    | collOwn _ _ => exact absurd hvw (by simp [ValidWrite])

/-! ## Round 3 — the run-time message surface (`LP.TT.stepX`, what the driver executes)

`OpX` adds to `Op`: factory migration with a params message (`migFactory`), messages / migrations that are inert for this aspect
(`inert` — a modelling claim validated by the harness only), the EFFECTS of messages whose acceptance rules other properties own
(`env`), and creation with the implementation's verdict as a witness (`createW`: the bound/default is still CHECKED).
The theorems below show (a) `stepX` generalises `step` (the unwitnessed model is the special case in which the environment
follows the written rules), (b) the creation bound/default holds for EVERY witnessed creation, (c) frame + ownership invariant +
validated-history for all `OpX` histories, (d) the offset in force after any history is the one governance last set explicitly —
the ghost the harness's monitors use. -/

theorem TT.tradingAtCreate_of_createTrading {fam : Family} {now off start : Nat} {end_ req tr : Option Nat}
    (h : createTrading fam now off start end_ req = .ok tr) : tradingAtCreate fam now off start req = .ok tr := by
  cases fam with
  | base => cases req <;> simpa [createTrading, tradingAtCreate] using h
  | openEdition =>
    simp only [createTrading] at h
    simpa [tradingAtCreate] using (ite_err_ok (ite_err_ok h).2).2
  | vending =>
    simp only [createTrading] at h
    simpa [tradingAtCreate] using (ite_err_ok (ite_err_ok h).2).2
  | tokenMerge =>
    simp only [createTrading] at h
    simpa [tradingAtCreate] using (ite_err_ok (ite_err_ok h).2).2

theorem TT.updStart_ok' {w w' : World} {s t f : Nat} (h : step w (.updStart s t f) = .ok w') :
    w.family ≠ .base ∧ ∃ m c, w.mc = some (m, c) ∧ w' = { w with mc := some ({ m with mintStart := t }, c) } := by
  obtain ⟨m, c, hmc, hw'⟩ := updStart_ok h
  refine ⟨?_, m, c, hmc, hw'⟩
  intro hb
  simp [step, updStart, hmc, hb] at h

/-- (a) `stepX` generalises `step`: whenever the unwitnessed model accepts, the witnessed op with verdict "accepted" yields the
same state. -/
theorem C19_x_generalises (w w' : World) :
    (∀ k cr st e r, step w (.create k cr st e r) = .ok w' → stepX w (.createW k cr st e r true) = .ok w') ∧
    (∀ s t f, step w (.updStart s t f) = .ok w' → stepX w (.env (.startSet t)) = .ok w') ∧
    (∀ s t f, step w (.updEnd s t f) = .ok w' → stepX w (.env (.endSet t)) = .ok w') ∧
    (∀ s n, step w (.collCreator s n) = .ok w' → stepX w (.env (.creatorSet n)) = .ok w') ∧
    (∀ s, step w (.collFreeze s) = .ok w' → stepX w (.env .frozenSet) = .ok w') := by
  refine ⟨?_, ?_, ?_, ?_, ?_⟩
  · intro k cr st e r h
    obtain ⟨hmc, tr, htr, hw'⟩ := create_ok h
    simp [stepX, createW, hmc, tradingAtCreate_of_createTrading htr, hw']
  · intro s t f h
    obtain ⟨hf, m, c, hmc, hw'⟩ := updStart_ok' h
    simp [stepX, applyEnv, hmc, hf, hw']
  · intro s t f h
    obtain ⟨m, c, hmc, hw'⟩ := updEnd_ok h
    simp [stepX, applyEnv, hmc, hw']
  · intro s n h
    obtain ⟨m, c, c', hmc, hc, hw'⟩ := onColl_ok h
    simp only [Coll.updateCreator] at hc
    repeat' split at hc
    all_goals first | (cases hc; done) | (injection hc with hc; subst hc; simp [stepX, applyEnv, hmc, hw'])
  · intro s h
    obtain ⟨m, c, c', hmc, hc, hw'⟩ := onColl_ok h
    simp only [Coll.freeze] at hc
    repeat' split at hc
    all_goals first | (cases hc; done) | (injection hc with hc; subst hc; simp [stepX, applyEnv, hmc, hw'])

theorem TT.createW_ok {w w' : World} {kind : CollKind} {creator start : Nat} {end_ req : Option Nat} {acc : Bool}
    (h : stepX w (.createW kind creator start end_ req acc) = .ok w') :
    w.mc = none ∧ acc = true ∧ ∃ tr, tradingAtCreate w.family w.now w.offset start req = .ok tr ∧
      w' = { w with mc := some (mkMinter w.family creator start end_, Coll.init kind w.minterAddr creator tr) } := by
  simp only [stepX, createW] at h
  split at h
  · cases h
  · rename_i hmc
    split at h
    · cases h
    · rename_i tr htr
      split at h
      · rename_i hacc
        injection h with h
        exact ⟨hmc, hacc, tr, htr, h.symm⟩
      · cases h

/-- (b) EVERY creation the implementation reports as accepted and the model does not contradict satisfies the bound and the
default — whatever the other (C04-owned) time rules of creation are. -/
theorem C19_x_create_bound (w w' : World) (kind : CollKind) (creator start : Nat) (end_ req : Option Nat) (acc : Bool)
    (h : stepX w (.createW kind creator start end_ req acc) = .ok w') :
    ∃ m c t, w'.mc = some (m, c) ∧ c.trading = some t ∧ (∀ x, req = some x → t = x) ∧
      (w.family ≠ .base → t ≤ start + w.offset * 1000000000 ∧ (req = none → t = start + w.offset * 1000000000)) ∧
      (w.family = .base → req = none → t = w.now + w.offset * 1000000000) ∧
      c.owner = some w.minterAddr ∧ c.pending = none := by
  obtain ⟨_, _, tr, htr, hw'⟩ := createW_ok h
  subst hw'
  by_cases hf : w.family = .base
  · rw [hf] at htr
    have htr' : createTrading .base w.now w.offset start end_ req = .ok tr := by
      cases req <;> simpa [tradingAtCreate, createTrading] using htr
    obtain ⟨t, rfl, hd, hx⟩ := createTrading_ok_base htr'
    exact ⟨_, _, t, rfl, rfl, hx, fun h => absurd hf h, fun _ => hd, rfl, rfl⟩
  · have hb : boundedOrDefault start w.offset req = .ok tr := by
      cases hfam : w.family with
      | base => exact absurd hfam hf
      | vending => simpa [tradingAtCreate, hfam] using htr
      | openEdition => simpa [tradingAtCreate, hfam] using htr
      | tokenMerge => simpa [tradingAtCreate, hfam] using htr
    obtain ⟨t, rfl, hle, hd, hx⟩ := boundedOrDefault_ok hb
    exact ⟨_, _, t, rfl, rfl, hx, fun _ => ⟨hle, hd⟩, fun h => absurd h hf, rfl, rfl⟩

/-- a creation beyond the bound is refused by the model even when the implementation reports "accepted" (that is the
disagreement the correspondence reports) -/
theorem C19_x_create_rejects_past_bound (w : World) (kind : CollKind) (creator start t : Nat) (end_ : Option Nat) (acc : Bool)
    (hfam : w.family ≠ .base) (ht : t > start + w.offset * 1000000000) :
    ∃ e, stepX w (.createW kind creator start end_ (some t) acc) = .error e := by
  cases h : stepX w (.createW kind creator start end_ (some t) acc) with
  | error e => exact ⟨e, rfl⟩
  | ok w' =>
    obtain ⟨_, _, t', _, _, hx, hb, _⟩ := C19_x_create_bound w w' kind creator start end_ (some t) acc h
    have := hx t rfl
    have := (hb hfam).1
    omega

def TT.OpX.External (a : Addr) : OpX → Prop
  | .base op => op.External a
  | _ => True

def TT.OpX.isWrite : OpX → Bool
  | .base op => op.isWrite
  | .createW .. => true
  | _ => false

theorem TT.applyEnv_ok {w w' : World} {e : EnvEffect} (h : applyEnv w e = .ok w') :
    ∃ m c m' c', w.mc = some (m, c) ∧ w' = { w with mc := some (m', c') } ∧
      c'.trading = c.trading ∧ c'.owner = c.owner ∧ c'.pending = c.pending := by
  simp only [applyEnv] at h
  split at h
  · cases h
  · rename_i m c hmc
    cases e with
    | startSet t =>
      simp only at h
      split at h
      · cases h
      · injection h with h; exact ⟨m, c, _, _, hmc, h.symm, rfl, rfl, rfl⟩
    | endSet t => injection h with h; exact ⟨m, c, _, _, hmc, h.symm, rfl, rfl, rfl⟩
    | creatorSet a => injection h with h; exact ⟨m, c, _, _, hmc, h.symm, rfl, rfl, rfl⟩
    | frozenSet => injection h with h; exact ⟨m, c, _, _, hmc, h.symm, rfl, rfl, rfl⟩

theorem TT.stepX_static {w w' : World} {op : OpX} (h : stepX w op = .ok w') :
    w'.minterAddr = w.minterAddr ∧ w'.family = w.family := by
  cases op with
  | base op => exact step_static h
  | migFactory v => exact step_static (op := .sudoOffset v) h
  | inert => simp only [stepX] at h; injection h with h; subst h; exact ⟨rfl, rfl⟩
  | env e =>
    obtain ⟨_, _, _, _, _, hw', _⟩ := applyEnv_ok h
    subst hw'; exact ⟨rfl, rfl⟩
  | createW k cr st e r acc =>
    obtain ⟨_, _, _, _, hw'⟩ := createW_ok h
    subst hw'; exact ⟨rfl, rfl⟩

theorem TT.ownerInvX_step {w w' : World} {op : OpX} (hinv : OwnerInv w) (hext : op.External w.minterAddr)
    (h : stepX w op = .ok w') : OwnerInv w' := by
  cases op with
  | base op => exact ownerInv_step hinv hext h
  | migFactory v => exact ownerInv_step (op := .sudoOffset v) hinv trivial h
  | inert => simp only [stepX] at h; injection h with h; subst h; exact hinv
  | env e =>
    obtain ⟨m, c, m', c', hmc, hw', _, ho, hp⟩ := applyEnv_ok h
    subst hw'
    intro m'' c'' hmc'
    simp only [Option.some.injEq, Prod.mk.injEq] at hmc'
    obtain ⟨_, rfl⟩ := hmc'
    rw [ho, hp]
    exact hinv m c hmc
  | createW k cr st e r acc =>
    obtain ⟨_, _, _, _, hw'⟩ := createW_ok h
    subst hw'
    intro m c hmc
    simp only [Option.some.injEq, Prod.mk.injEq] at hmc
    obtain ⟨_, rfl⟩ := hmc
    exact ⟨rfl, rfl⟩

/-- (c) FRAME over the whole surface: factory migration, inert messages / migrations, env effects (mint-start / end-time moves,
creator change, freeze) and every non-write `Op` leave the visible trading time untouched. -/
theorem C19_x_frame (w w' : World) (op : OpX) (hinv : OwnerInv w) (hext : op.External w.minterAddr)
    (hw : op.isWrite = false) (h : stepX w op = .ok w') : visible w' = visible w := by
  cases op with
  | base op => exact C19_frame w w' op hinv hext hw h
  | migFactory v => exact C19_frame w w' (.sudoOffset v) hinv trivial rfl h
  | inert => simp only [stepX] at h; injection h with h; subst h; rfl
  | env e =>
    obtain ⟨m, c, m', c', hmc, hw', htr, _, _⟩ := applyEnv_ok h
    subst hw'
    simp [visible, hmc, htr]
  | createW k cr st e r acc => simp [OpX.isWrite] at hw

theorem TT.runX_cons (w : World) (op : OpX) (ops : List OpX) : runX w (op :: ops) = runX (stepX' w op) ops := rfl
theorem TT.stepX'_ok {w w' : World} {op : OpX} (h : stepX w op = .ok w') : stepX' w op = w' := by simp [stepX', h]
theorem TT.stepX'_err {w : World} {op : OpX} {e : Err} (h : stepX w op = .error e) : stepX' w op = w := by simp [stepX', h]

/-- the values stored by the validated writes of an `OpX` history, oldest first -/
def TT.validatedHistoryX (w : World) : List OpX → List (Option (Option Nat))
  | [] => []
  | op :: ops =>
    match stepX w op with
    | .ok w' => if op.isWrite then visible w' :: validatedHistoryX w' ops else validatedHistoryX w' ops
    | .error _ => validatedHistoryX w ops

/-- (c) over EVERY history of the extended surface: the collection stays owned by the minter with nothing pending, and the
visible value is the one stored by the most recent successful creation / minter update. -/
theorem C19_x_validated_history (w : World) (ops : List OpX) (hinv : OwnerInv w)
    (hext : ∀ op ∈ ops, op.External w.minterAddr) :
    OwnerInv (runX w ops) ∧
    visible (runX w ops) = ((validatedHistoryX w ops).getLast?).getD (visible w) := by
  induction ops generalizing w with
  | nil => exact ⟨hinv, rfl⟩
  | cons op ops ih =>
    rw [runX_cons]
    cases h : stepX w op with
    | error e =>
      rw [stepX'_err h]
      simp only [validatedHistoryX, h]
      exact ih w hinv (fun o ho => hext o (List.mem_cons_of_mem _ ho))
    | ok w1 =>
      rw [stepX'_ok h]
      obtain ⟨ha, _⟩ := stepX_static h
      have hinv1 := ownerInvX_step hinv (hext op List.mem_cons_self) h
      obtain ⟨ih0, ih1⟩ := ih w1 hinv1 (fun o ho => by rw [ha]; exact hext o (List.mem_cons_of_mem _ ho))
      refine ⟨ih0, ?_⟩
      simp only [validatedHistoryX, h]
      by_cases hw : op.isWrite = true
      · simp only [hw, if_true]
        rw [ih1]
        cases hl : validatedHistoryX w1 ops with
        | nil => simp
        | cons a l => rw [List.getLast?_cons_cons]; exact getLast?_getD_cons a l _ _
      · have hw' : op.isWrite = false := by simpa using hw
        simp only [hw', Bool.false_eq_true, if_false]
        rw [ih1, C19_x_frame w w1 op hinv (hext op List.mem_cons_self) hw' h]

theorem TT.step_offset {w w' : World} {op : Op} (h : step w op = .ok w') :
    w'.offset = ghostStep w.offset (.base op) ∨ (∃ v, op = .sudoOffset v) := by
  cases op with
  | setTime t => simp only [step] at h; injection h with h; subst h; exact .inl rfl
  | sudoOffset v => exact .inr ⟨v, rfl⟩
  | create kind creator start end_ req => obtain ⟨_, _, _, hw'⟩ := create_ok h; subst hw'; exact .inl rfl
  | updTrading s req f => obtain ⟨_, _, _, _, _, _, _, _, hw'⟩ := updTrading_ok h; subst hw'; exact .inl rfl
  | updStart s t f => obtain ⟨_, _, _, hw'⟩ := updStart_ok h; subst hw'; exact .inl rfl
  | updEnd s t f => obtain ⟨_, _, _, hw'⟩ := updEnd_ok h; subst hw'; exact .inl rfl
  | collTrading s req => obtain ⟨_, _, _, _, _, hw'⟩ := onColl_ok h; subst hw'; exact .inl rfl
  | collCreator s n => obtain ⟨_, _, _, _, _, hw'⟩ := onColl_ok h; subst hw'; exact .inl rfl
  | collFreeze s => obtain ⟨_, _, _, _, _, hw'⟩ := onColl_ok h; subst hw'; exact .inl rfl
  | collOwn s a => obtain ⟨_, _, _, _, _, hw'⟩ := onColl_ok h; subst hw'; exact .inl rfl

theorem TT.stepX'_offset (w : World) (op : OpX) : (stepX' w op).offset = ghostStep w.offset op := by
  cases h : stepX w op with
  | error e =>
    rw [stepX'_err h]
    cases op with
    | base op =>
      cases op with
      | sudoOffset v => simp [stepX, step] at h
      | _ => rfl
    | migFactory v => simp [stepX, step] at h
    | _ => rfl
  | ok w1 =>
    rw [stepX'_ok h]
    cases op with
    | base op =>
      rcases step_offset (show step w op = .ok w1 from h) with h1 | ⟨v, rfl⟩
      · exact h1
      · simp only [stepX, step] at h; injection h with h; subst h
        cases v <;> rfl
    | migFactory v =>
      simp only [stepX, step] at h; injection h with h; subst h
      cases v <;> rfl
    | inert => simp only [stepX] at h; injection h with h; subst h; rfl
    | env e => obtain ⟨_, _, _, _, _, hw', _⟩ := applyEnv_ok h; subst hw'; rfl
    | createW k cr st e r acc => obtain ⟨_, _, _, _, hw'⟩ := createW_ok h; subst hw'; rfl

/-- (d) "the factory's maximum trading offset IN FORCE": after any history of the extended surface the offset the minters read is
the one governance last set explicitly (sudo or factory migration naming a value); partial updates that omit it, failed ops,
migrations of other contracts and every other message leave it alone. `ghostOffset` is literally the record the harness keeps
(`g_off` in c19.rs) and evaluates its bound monitors on. -/
theorem C19_x_offset_in_force (w : World) (ops : List OpX) : (runX w ops).offset = ghostOffset w.offset ops := by
  induction ops generalizing w with
  | nil => rfl
  | cons op ops ih =>
    rw [runX_cons, ih (stepX' w op), stepX'_offset]
    rfl

/-- hence an accepted minter update after ANY history respects `now ≤ t ≤ mintStart + (last explicitly set offset)` -/
theorem C19_x_update_bound_ghost (w0 : World) (ops : List OpX) (s t f : Nat) (w' : World)
    (h : stepX (runX w0 ops) (.base (.updTrading s (some t) f)) = .ok w') :
    ∃ m c, (runX w0 ops).mc = some (m, c) ∧ (runX w0 ops).now ≤ t ∧
      ((runX w0 ops).family ≠ .base → t ≤ m.mintStart + ghostOffset w0.offset ops * 1000000000) ∧
      visible w' = some (some t) := by
  obtain ⟨m, c, hmc, h1, h2, h3⟩ := C19_update_bound (runX w0 ops) w' s t f h
  rw [C19_x_offset_in_force] at h2
  exact ⟨m, c, hmc, h1, h2, h3⟩

-- a partial governance update (sudo or migrate) keeps the explicit value; the stored default is computed from it
example : ghostOffset 604800 [.base (.sudoOffset (some 100)), .base (.sudoOffset none), .migFactory none, .inert] = 100 := by rfl
example : (runX (init .vending 5 604800 999) [.base (.sudoOffset (some 100)), .migFactory none,
    .createW .base 10 (GENESIS + 7) none none true]).mc.map (·.2.trading) = some (some (GENESIS + 7 + 100 * 1000000000)) := by rfl

/-! ## Non-vacuity: concrete states satisfying the hypotheses (and the "in force at that moment" reading) -/

namespace TT.Examples

def g : Nat := GENESIS
/-- a vending world at genesis+5 s, offset 10 s, minter address 1001 -/
def w0 : World := init .vending (g + 5000000000) 10 1001
def start : Nat := g + 100000000000
def bound : Nat := start + 10 * 1000000000

def created (tr : Nat) : World :=
  { w0 with mc := some ({ admin := 10, mintStart := start, endTime := none }, Coll.init .base 1001 10 (some tr)) }

-- creation without a trading time stores exactly mint start + offset; at the bound it is accepted, one ns later refused
example : step w0 (.create .base 10 start none none) = .ok (created bound) := by rfl
example : step w0 (.create .base 10 start none (some bound)) = .ok (created bound) := by rfl
example : step w0 (.create .base 10 start none (some (bound + 1))) = .error .invalid := by rfl
-- update at now / at the bound accepted, now−1 / bound+1 refused, stranger refused, funds refused
example : step (created bound) (.updTrading 10 (some (g + 5000000000)) 0) = .ok (created (g + 5000000000)) := by rfl
example : step (created 7) (.updTrading 10 (some bound) 0) = .ok (created bound) := by rfl
example : step (created bound) (.updTrading 10 (some (g + 4999999999)) 0) = .error .invalid := by rfl
example : step (created bound) (.updTrading 10 (some (bound + 1)) 0) = .error .invalid := by rfl
example : step (created bound) (.updTrading 20 (some bound) 0) = .error .unauthorized := by rfl
example : step (created bound) (.updTrading 10 (some bound) 1) = .error .payment := by rfl
-- direct call to the collection by the admin himself: refused
example : step (created bound) (.collTrading 10 (some 5)) = .error .unauthorized := by rfl
-- governance lowers the offset afterwards: the stored value stays (now above the *new* bound), and the new bound applies
example : visible (run w0 [.create .base 10 start none none, .sudoOffset (some 1)]) = some (some bound) := by rfl
example : step (run w0 [.create .base 10 start none none, .sudoOffset (some 1)]) (.updTrading 10 (some bound) 0)
    = .error .invalid := by rfl
-- the mint start is moved earlier: the stored value stays, the bound moves
example : visible (run w0 [.create .base 10 start none none, .updStart 10 (start - 1000000000) 0]) = some (some bound) := by
  rfl
-- hypotheses of C19_validated are satisfiable with a non-trivial history
example : w0.mc = none ∧ ∀ op ∈ [Op.create .base 10 start none none, .collTrading 20 (some 1), .updTrading 10 (some bound) 0],
    op.External w0.minterAddr := by
  refine ⟨rfl, ?_⟩
  intro op hop
  simp only [List.mem_cons, List.mem_nil_iff, or_false] at hop
  rcases hop with rfl | rfl | rfl <;> simp [Op.External, w0, init]

end TT.Examples

end LP
