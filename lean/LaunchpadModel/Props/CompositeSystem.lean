import LaunchpadModel.Lemmas.LaunchpadSystemRefine
import LaunchpadModel.Lemmas.LaunchpadSystemGate
import LaunchpadModel.Lemmas.LaunchpadSystemCounters
import LaunchpadModel.Props.CompositeVending
import LaunchpadModel.Props.CompositeWhitelist
import LaunchpadModel.Props.CompositeWhitelistMerkle
/-!
# The SYSTEM composite `LP.Sys` (factory + vending minter + whitelist contracts, NO whitelist witness)

`LP.Sys` (Model/LaunchpadSystem.lean) joins `LP.VF` and `LP.WF`: one clock, one bank, the minter-side state and a table of
whitelist contracts; the `WlInfo` / `SenderView` the minter model expects are COMPUTED from the whitelist states by
`Sys.wlInfoOf` / `Sys.senderViewOf` (= what the minter sees of a whitelist).

## (a) `Sys` refines both halves

* minter side — `C03_sys_refines_minter_step`, `…_foreign_step`, `…_run`, `C03_sys_refresh_inputs`, `C03_sys_minter_invariant`;
* whitelist side — `C04_sys_refines_whitelist_own`, `…_other`, `…_run`, `C04_sys_whitelist_invariant`.

A transaction of one half is, for the other half, a movement of coins between accounts that are not its own (`VF` and `WF` each
have a bank but no op for somebody else's transaction): the projections are `VF` / `WF` runs interleaved with such bank movements
(`Sys.VFReach`, `Sys.WFReach`). Every step-level `Cxx_full_*` theorem applies to every system step as it stands; every
run-level one that does not read foreign balances transfers through `…_invariant` (examples: `C07_sys_discount_le_public`,
`C14_sys_root_immutable`).

## (b) end-to-end theorems (neither half can state them alone)

For every accepted buyer's mint of every system state (hence of every system history — `C04_sys_history`):

* **entitlement** `C04_sys_entitlement_list`, `C14_sys_entitlement_merkle` (+ `C14_sys_entitlement_sound_*`, `C14_sys_leaf_binds_sender`);
* **limit** `C03_sys_limit_step`, `C03_sys_limit_history`;
* **price** `C07_sys_price`;
* **schedule** `C04_sys_schedule`, `C04_sys_window_iff`.
-/
namespace LP

/-! ## (a) minter side -/

/-- **`Sys` refines `VF`, one step.** Every clock / `fund` / factory / minter / collection op and every buyer's mint of the system
is, on the minter-side projection `vfOf`, the `VF` run of `vfOps`: the `VF` op itself — a mint with its `SenderView` computed by
`senderViewOf` from the attached whitelist's state — then the interface refresh. -/
theorem C03_sys_refines_minter_step (s : Sys.State) (op : Sys.Op) (h : Sys.isWlOp op = false) :
    Sys.vfOf (Sys.step' s op) = VF.run (Sys.vfOf s) (Sys.vfOps s op) :=
  Sys.vf_step_minter s op h

/-- a whitelist transaction is, for the minter side, a bank movement outside the `VF` family followed by the interface refresh -/
theorem C03_sys_refines_minter_foreign_step (s : Sys.State) (op : Sys.Op) (h : Sys.isWlOp op = true) :
    Sys.vfOf (Sys.step' s op) = VF.run { Sys.vfOf s with bank := (Sys.step' s op).bank } (Sys.vfOps s op) :=
  Sys.vf_step_wl s op h

/-- the interface inputs of the projected `VF` run are exactly `wlInfoOf` of the whitelist states: every refresh op is
`wlEnv k (some (wlInfoOf now w))` for a contract `(k, w)` of the table -/
theorem C03_sys_refresh_inputs (now : Nat) (tbl : List (Addr × WF.Wl)) :
    ∀ o ∈ Sys.refreshOps now tbl, ∃ k w, (k, w) ∈ tbl ∧ o = VF.Op.wlEnv k (some (Sys.wlInfoOf now w)) := by
  induction tbl with
  | nil => intro o ho; simp [Sys.refreshOps] at ho
  | cons x rest ih =>
    obtain ⟨k, w⟩ := x
    intro o ho
    simp only [Sys.refreshOps, List.mem_append, List.mem_singleton] at ho
    rcases ho with ho | rfl
    · obtain ⟨k', w', hm, rfl⟩ := ih o ho
      exact ⟨k', w', List.mem_cons_of_mem _ hm, rfl⟩
    · exact ⟨k, w, List.mem_cons_self, rfl⟩

/-- … and the `SenderView` of a projected mint is `senderViewOf` of the state of the contract at the attached address -/
theorem C03_sys_mint_inputs (s : Sys.State) (m : VF.Minter) (a : Addr) (w : WF.Wl) (hm : s.minter = some m)
    (ha : m.whitelist = some a) (hf : Sys.find s.wls a = some w) (sender : Addr) (funds : List Coin) (stage alloc : Option Nat)
    (proof : Option (List (List Nat))) (picked : Nat) :
    Sys.mintOp s sender funds stage alloc proof picked =
      .mint sender funds (Sys.fieldsOf stage alloc proof) (Sys.senderViewOf s.now w sender stage alloc proof) picked := by
  simp [Sys.mintOp, Sys.fieldsOf, Sys.mintView_eq hm ha hf]

/-- **`Sys` refines `VF`, runs.** -/
theorem C03_sys_refines_minter_run (s : Sys.State) (ops : List Sys.Op) :
    Sys.VFReach (Sys.vfOf s) (Sys.vfOf (Sys.run s ops)) :=
  Sys.vf_run s ops

/-- every property of `VF` states that every `VF` step preserves and that does not read balances holds along every system run -/
theorem C03_sys_minter_invariant (P : VF.State → Prop) (hstep : ∀ c op, P c → P (VF.step' c op))
    (hbank : ∀ (c : VF.State) (b : MintPay.Bank), P c → P { c with bank := b }) (s : Sys.State) (h0 : P (Sys.vfOf s))
    (ops : List Sys.Op) : P (Sys.vfOf (Sys.run s ops)) :=
  Sys.vfReach_inv P hstep hbank h0 (Sys.vf_run s ops)

/-! ## (a) whitelist side -/

/-- **`Sys` refines `WF`, own steps**: the clock, `fund`, and every `instantiate` / `execute` addressed to the contract at `k`
is exactly that `WF.step'` on the projection `wfOf · k` -/
theorem C04_sys_refines_whitelist_own (s : Sys.State) (op : Sys.Op) (k : Addr) (wop : WF.Op) (h : Sys.wfOps k s op = [wop]) :
    Sys.wfOf (Sys.step' s op) k = WF.step' (Sys.wfOf s k) wop :=
  Sys.wf_step_own s op k wop h

/-- … and every other system op changes at most the bank component -/
theorem C04_sys_refines_whitelist_other (s : Sys.State) (op : Sys.Op) (k : Addr) (h : Sys.wfOps k s op = []) :
    Sys.wfOf (Sys.step' s op) k = { Sys.wfOf s k with bank := (Sys.step' s op).bank } :=
  Sys.wf_step_other s op k h

theorem C04_sys_refines_whitelist_run (s : Sys.State) (ops : List Sys.Op) (k : Addr) :
    Sys.WFReach (Sys.wfOf s k) (Sys.wfOf (Sys.run s ops) k) :=
  Sys.wf_run s ops k

theorem C04_sys_whitelist_invariant (P : WF.State → Prop) (hstep : ∀ c op, P c → P (WF.step' c op))
    (hbank : ∀ (c : WF.State) (b : MintPay.Bank), P c → P { c with bank := b }) (s : Sys.State) (k : Addr)
    (h0 : P (Sys.wfOf s k)) (ops : List Sys.Op) : P (Sys.wfOf (Sys.run s ops) k) :=
  Sys.wfReach_inv P hstep hbank h0 (Sys.wf_run s ops k)

/-! ## (b) vocabulary -/

namespace Sys

/-- An accepted buyer's mint that the minter booked on a WHITELIST counter: `m` = the minter before the mint, `a` = the attached
whitelist address, `w` = the state of the contract stored there, `sid` = 0 (`WHITELIST_MINTER_ADDRS`) or the tiered stage id
1..3 (`WHITELIST_{FS,SS,TS}_MINTER_ADDRS`), `cnt` = the sender's stored count on that counter before the mint. -/
structure WlMint (s s' : State) (sender : Addr) (funds : List Coin) (stage alloc : Option Nat)
    (proof : Option (List (List Nat))) (picked : Nat) (m : VF.Minter) (a : Addr) (w : WF.Wl) (sid cnt : Nat) : Prop where
  ok : step s (.mint sender funds stage alloc proof picked) = .ok s'
  minter : s.minter = some m
  attached : m.whitelist = some a
  contract : find s.wls a = some w
  booked : VF.isPublicMint (vfOf s) m sender (fieldsOf stage alloc proof) (mintView s sender stage alloc proof) = .ok (.wl sid cnt)

/-- the instant lies in a window STORED in the whitelist: `[start_time, end_time)` of the single-stage crates, a stage's closed
window `[start_time, end_time]` of the tiered crates -/
def InWindow (w : WF.Wl) (now : Nat) : Prop :=
  w.v.store ≠ .immutable ∧
  (if w.v.tiered then ∃ st ∈ w.stages, st.start ≤ now ∧ now ≤ st.stop else w.start ≤ now ∧ now < w.end_)

/-- `mint_price` stored for the stage in force (the first stage whose window contains the instant) -/
def stagePrice (w : WF.Wl) (now : Nat) : Option Coin :=
  if w.v.tiered then (WF.activeStage w now).map (fun st => ⟨st.denom, st.price⟩) else some w.mintPrice

/-- `per_address_limit` stored for the stage in force -/
def stagePal (w : WF.Wl) (now : Nat) : Option Nat :=
  if w.v.tiered then (WF.activeStage w now).map (·.pal) else some w.perAddr

/-- what the whitelist's own state grants `sender` in the stage in force: the stage's stored `per_address_limit`; flex crates:
the `mint_count` stored with the member; Merkle crates: the allocation of the (proved) leaf when the message carries one -/
def storedLimit (w : WF.Wl) (now : Nat) (sender : Addr) (alloc : Option Nat) : Option Nat :=
  match w.v.store with
  | .list => if w.v.flex then (activeMap w now).bind (WlMembers.getM sender) else stagePal w now
  | .merkle =>
    match alloc with
    | some n => some n
    | none => stagePal w now
  | .immutable => none

theorem inWindow_iff (w : WF.Wl) (now : Nat) : (wlInfoOf now w).active = true ↔ InWindow w now := by
  rw [info_active_iff]
  unfold InWindow
  by_cases ht : w.v.tiered = true
  · simp only [ht, if_true]
    constructor
    · rintro ⟨hi, st, hst⟩
      obtain ⟨_, _, _, hc, hm⟩ := activeStage_idx w.stages now st hst
      simp only [Tiered.Stage.contains, Bool.and_eq_true, decide_eq_true_eq] at hc
      exact ⟨hi, st, hm, hc.1, hc.2⟩
    · rintro ⟨hi, st, hm, h1, h2⟩
      refine ⟨hi, ?_⟩
      cases ha : WF.activeStage w now with
      | some st' => exact ⟨st', rfl⟩
      | none =>
        have := activeStage_none w.stages now ha st hm
        simp [Tiered.Stage.contains, h1, h2] at this
  · have ht' : w.v.tiered = false := by cases hq : w.v.tiered <;> simp_all
    simp [ht']

/-- with `Config.is_active`, price and limit reported ARE the stored ones of the stage in force -/
theorem active_stored {w : WF.Wl} {now : Nat} (h : (wlInfoOf now w).active = true) :
    stagePrice w now = some (wlInfoOf now w).price ∧ (w.v.flex = false → stagePal w now = some (wlInfoOf now w).limit) ∧
    (w.v.flex = true → (wlInfoOf now w).limit = 0) := by
  obtain ⟨hi, hw⟩ := (info_active_iff now w).1 h
  by_cases ht : w.v.tiered = true
  · simp only [ht, if_true] at hw
    obtain ⟨st, hst⟩ := hw
    obtain ⟨_, hp, hl⟩ := info_tiered_active hi ht hst
    refine ⟨by simp [stagePrice, ht, hst, hp], ?_, ?_⟩
    · intro hf; simp [stagePal, ht, hst, hl, hf]
    · intro hf; simp [hl, hf]
  · have ht' : w.v.tiered = false := by cases hq : w.v.tiered <;> simp_all
    obtain ⟨_, hp, hl⟩ := info_flat (now := now) hi ht'
    refine ⟨by simp [stagePrice, ht', hp], ?_, ?_⟩
    · intro hf; simp [stagePal, ht', hl, hf]
    · intro hf; simp [hl, hf]

/-- every accepted buyer's mint is a whitelist mint or a public one -/
theorem mint_classify {s s' : State} {sender : Addr} {funds : List Coin} {stage alloc : Option Nat}
    {proof : Option (List (List Nat))} {picked : Nat} (h : step s (.mint sender funds stage alloc proof picked) = .ok s') :
    (∃ m a w sid cnt, WlMint s s' sender funds stage alloc proof picked m a w sid cnt) ∨
    (∃ m, s.minter = some m ∧
      VF.isPublicMint (vfOf s) m sender (fieldsOf stage alloc proof) (mintView s sender stage alloc proof) = .ok .pub) := by
  obtain ⟨m, g, _, _, hm, hg, _⟩ := mint_ok h
  cases g with
  | pub => exact Or.inr ⟨m, hm, hg⟩
  | wl sid cnt =>
    obtain ⟨a, w, ha, hf, _⟩ := wl_branch hm hg
    exact Or.inl ⟨m, a, w, sid, cnt, ⟨h, hm, ha, hf, hg⟩⟩

end Sys

/-! ## (b) entitlement -/

/-- **Entitlement, list kinds.** Every whitelist mint accepted by the system through a list-based whitelist was sent by an
address that IS STORED as a member in the whitelist's own state at that block: in the only member map (single-stage crates), in
the slice of the stage that is active at that block (tiered crates) — by C11's membership-iff theorems applied to the query
the minter made, not by the minter's word. -/
theorem C04_sys_entitlement_list {s s' : Sys.State} {sender : Addr} {funds : List Coin} {stage alloc : Option Nat}
    {proof : Option (List (List Nat))} {picked : Nat} {m : VF.Minter} {a : Addr} {w : WF.Wl} {sid cnt : Nat}
    (h : Sys.WlMint s s' sender funds stage alloc proof picked m a w sid cnt) (hl : w.v.store = .list) :
    (w.v.tiered = false → sender ∈ WlMembers.keys w.members) ∧
    (w.v.tiered = true → ∃ i, WF.activeIdx w s.now = some i ∧ sender ∈ WlMembers.keys (WF.mapOf w i)) := by
  obtain ⟨a', w', ha', hf', _, _, hchk⟩ := Sys.wl_branch h.minter h.booked
  rw [h.attached] at ha'; cases ha'
  rw [h.contract] at hf'; cases hf'
  obtain ⟨leaf, _, _, _, hmem, _⟩ := VF.wlMintChecks_ok hchk
  have hq : WF.qHasMember w s.now sender = some true := by
    rcases Sys.hasMember_inv hmem with ⟨_, _, _, _, hk, _⟩ | ⟨_, _, hsv⟩
    · rw [Sys.info_kind, Sys.kind_answersHasMemberProof, hl] at hk; cases hk
    · exact Sys.sv_memberPlain hsv
  constructor
  · intro ht; exact (C11_full_has_member_iff_flat hl ht s.now sender true hq).1 rfl
  · intro ht; exact (C11_full_has_member_iff_tiered hl ht s.now sender true hq).1 rfl

/-- **Entitlement, Merkle kinds.** Every whitelist mint accepted through a Merkle whitelist presented a proof that verifies —
with the crate's hash — against the root STORED for the stage active at that block, for the leaf
`stage ‖ <the SENDER's address> ‖ allocation` built from the message fields. -/
theorem C14_sys_entitlement_merkle {s s' : Sys.State} {sender : Addr} {funds : List Coin} {stage alloc : Option Nat}
    {proof : Option (List (List Nat))} {picked : Nat} {m : VF.Minter} {a : Addr} {w : WF.Wl} {sid cnt : Nat}
    (h : Sys.WlMint s s' sender funds stage alloc proof picked m a w sid cnt) (hk : w.v.store = .merkle) :
    ∃ p r, proof = some p ∧ Sys.activeRoot w s.now = some r ∧
      Merkle.hasMember w.v.hash w.v.digest r (Sys.leafOf sender stage alloc) p = some true ∧
      (w.v.tiered = false → w.roots = [r] ∧ Merkle.hasMember Sha256.sha256 32 r (Sys.leafOf sender stage alloc) p = some true) ∧
      (w.v.tiered = true → ∃ i, WF.activeIdx w s.now = some i ∧ w.roots[i]? = some r ∧
        Merkle.hasMember Blake3.blake3_16 16 r (Sys.leafOf sender stage alloc) p = some true) := by
  obtain ⟨a', w', ha', hf', _, _, hchk⟩ := Sys.wl_branch h.minter h.booked
  rw [h.attached] at ha'; cases ha'
  rw [h.contract] at hf'; cases hf'
  obtain ⟨leaf, _, _, _, hmem, _⟩ := VF.wlMintChecks_ok hchk
  rcases Sys.hasMember_inv hmem with ⟨_, _, _, _, _, hsv⟩ | ⟨_, hk', _⟩
  · obtain ⟨p, hp, hq⟩ := Sys.sv_leafOk hsv
    obtain ⟨_, r, hr, hv⟩ := Sys.qHasMemberMerkle_root hq
    refine ⟨p, r, hp, hr, hv, ?_, ?_⟩
    · intro ht
      have hroots : w.roots = [r] := by
        simp only [Sys.activeRoot, ht, Bool.false_eq_true, if_false] at hr
        split at hr
        · rename_i r' hr'; cases hr; exact hr'
        · cases hr
      refine ⟨hroots, ?_⟩
      rw [← C14_full_plain_query hk ht hroots s.now]; exact hq
    · intro ht
      simp only [Sys.activeRoot, ht, if_true] at hr
      cases hi : WF.activeIdx w s.now with
      | none => simp [hi] at hr
      | some i =>
        simp only [hi, Option.bind_some] at hr
        refine ⟨i, rfl, hr, ?_⟩
        rw [← C14_full_tiered_active_root hk ht s.now i r _ p hi hr]; exact hq
  · rw [Sys.info_kind, Sys.kind_answersHasMember, hk] at hk'; cases hk'

/-- the leaf binds the sender: two account addresses never share a leaf, whatever the stage / allocation fields say -/
theorem C14_sys_leaf_binds_sender (a b : Nat) (ha : a < 1000) (hb : b < 1000) (st st' al al' : Option Nat)
    (h : Sys.leafOf a st al = Sys.leafOf b st' al') : Sys.addrBytes a = Sys.addrBytes b ∧ st = st' ∧ al = al' := by
  have hne : ∀ x : Nat, x < 1000 → ∃ c r, Sys.addrBytes x = c :: r ∧ ¬ Merkle.isDigit c := by
    intro x hx
    refine ⟨97, [99, 99, 116] ++ Sys.pad5 x, by simp [Sys.addrBytes, hx], by simp [Merkle.isDigit]⟩
  have hlen : ∀ x : Nat, x < 1000 → (Sys.addrBytes x).length = 9 := by
    intro x hx
    have d1 : ∀ n, n < 10 → (Merkle.decBytes n).length = 1 := by
      intro n hn; rw [Merkle.decBytes]; simp [hn]
    have d2 : ∀ n, n < 100 → (Merkle.decBytes n).length ≤ 2 := by
      intro n hn; rw [Merkle.decBytes]
      split
      · simp
      · have := d1 (n / 10) (by omega)
        simp only [List.length_append, List.length_cons, List.length_nil]; omega
    have h3 : (Merkle.decBytes x).length ≤ 5 := by
      rw [Merkle.decBytes]
      split
      · simp
      · have := d2 (x / 10) (by omega)
        simp only [List.length_append, List.length_cons, List.length_nil]; omega
    simp only [Sys.addrBytes, hx, if_true, Sys.pad5, List.length_append, List.length_cons, List.length_nil,
      List.length_replicate]
    omega
  obtain ⟨h1, h2, h3⟩ := C14_sender_bound st st' al al' (Sys.addrBytes a) (Sys.addrBytes b)
    (by rw [hlen a ha, hlen b hb]) (hne a ha) (hne b hb) h
  exact ⟨h2, h1, h3⟩

/-- soundness down to the member list the root was built from (single-stage, SHA-256): the SENDER's own leaf is listed, or a
SHA-256 collision among the strings of this tree and this proof is exhibited (C14's `_full_sound_plain`) -/
theorem C14_sys_entitlement_sound_plain {s s' : Sys.State} {sender : Addr} {funds : List Coin} {stage alloc : Option Nat}
    {proof : Option (List (List Nat))} {picked : Nat} {m : VF.Minter} {a : Addr} {w : WF.Wl} {sid cnt : Nat}
    (h : Sys.WlMint s s' sender funds stage alloc proof picked m a w sid cnt) (hk : w.v.store = .merkle)
    (ht : w.v.tiered = false) (members : List Merkle.Bytes) (r : Merkle.Bytes)
    (hr : Merkle.layeredRoot Sha256.sha256 members = some r) (hroot : w.roots = [Merkle.hexEncode r])
    (hleaf : ∀ x ∈ members, x.length ≠ 64) (hml : (Sys.leafOf sender stage alloc).length ≠ 64) :
    ∃ p, proof = some p ∧ (Sys.leafOf sender stage alloc ∈ members ∨
      QueryCollision Sha256.sha256 32 members (Sys.leafOf sender stage alloc) p) := by
  obtain ⟨p, r', hp, _, _, h1, _⟩ := C14_sys_entitlement_merkle h hk
  obtain ⟨hroots, hv⟩ := h1 ht
  rw [hroot] at hroots
  simp only [List.cons.injEq, and_true] at hroots
  subst hroots
  refine ⟨p, hp, ?_⟩
  have hq : WF.qHasMemberMerkle w s.now (Sys.leafOf sender stage alloc) p = some true := by
    rw [C14_full_plain_query hk ht hroot s.now]; exact hv
  exact C14_full_sound_plain hk ht members r hr hroot hleaf _ hml p s.now hq

/-- … and for the tiered Merkle crate (BLAKE3-16): the ACTIVE stage's list -/
theorem C14_sys_entitlement_sound_tiered {s s' : Sys.State} {sender : Addr} {funds : List Coin} {stage alloc : Option Nat}
    {proof : Option (List (List Nat))} {picked : Nat} {m : VF.Minter} {a : Addr} {w : WF.Wl} {sid cnt : Nat}
    (h : Sys.WlMint s s' sender funds stage alloc proof picked m a w sid cnt) (hk : w.v.store = .merkle)
    (ht : w.v.tiered = true) (i : Nat) (hi : WF.activeIdx w s.now = some i) (members : List Merkle.Bytes) (r : Merkle.Bytes)
    (hr : Merkle.layeredRoot Blake3.blake3_16 members = some r) (hroot : w.roots[i]? = some (Merkle.hexEncode r))
    (hleaf : ∀ x ∈ members, x.length ≠ 32) (hml : (Sys.leafOf sender stage alloc).length ≠ 32) :
    ∃ p, proof = some p ∧ (Sys.leafOf sender stage alloc ∈ members ∨
      QueryCollision Blake3.blake3_16 16 members (Sys.leafOf sender stage alloc) p) := by
  obtain ⟨p, r', hp, _, _, _, h2⟩ := C14_sys_entitlement_merkle h hk
  obtain ⟨i', hi', hr', hv⟩ := h2 ht
  rw [hi] at hi'; cases hi'
  rw [hroot] at hr'; cases hr'
  refine ⟨p, hp, ?_⟩
  have hq : WF.qHasMemberMerkle w s.now (Sys.leafOf sender stage alloc) p = some true := by
    rw [C14_full_tiered_active_root hk ht s.now i _ _ p hi hroot]; exact hv
  exact C14_full_sound_tiered hk ht s.now i members r hi hr hroot hleaf _ hml p hq

/-! ## (b) limit -/

/-- **Limit, one mint.** At every accepted whitelist mint the sender's stored count on the counter the mint is booked under
(`WHITELIST_MINTER_ADDRS`, or the FS/SS/TS map of the ACTIVE stage `i`, booked as `sid = i + 1`) is strictly below what the
whitelist's own state grants the sender in that stage at that block (`storedLimit`: the stage's stored `per_address_limit`;
flex: the `mint_count` stored with the member; Merkle: the allocation of the proved leaf), and the mint raises exactly that
count by one. -/
theorem C03_sys_limit_step {s s' : Sys.State} {sender : Addr} {funds : List Coin} {stage alloc : Option Nat}
    {proof : Option (List (List Nat))} {picked : Nat} {m : VF.Minter} {a : Addr} {w : WF.Wl} {sid cnt : Nat}
    (h : Sys.WlMint s s' sender funds stage alloc proof picked m a w sid cnt) :
    ∃ L, Sys.storedLimit w s.now sender alloc = some L ∧ cnt < L ∧
      cnt = (if w.v.tiered then m.stg sid sender else m.wlc sender) ∧
      (w.v.tiered = true → ∃ i, WF.activeIdx w s.now = some i ∧ sid = i + 1) ∧
      (w.v.tiered = false → sid = 0) ∧
      ∃ m', s'.minter = some m' ∧ (if w.v.tiered then m'.stg sid sender else m'.wlc sender) = cnt + 1 := by
  obtain ⟨a', w', ha', hf', hok, hact, hchk⟩ := Sys.wl_branch h.minter h.booked
  rw [h.attached] at ha'; cases ha'
  rw [h.contract] at hf'; cases hf'
  obtain ⟨leaf, cnt', sid', ent, hmem, hcnt, hent, hlt, hg, _⟩ := VF.wlMintChecks_ok hchk
  simp only [VF.MintKind.wl.injEq] at hg
  obtain ⟨rfl, rfl⟩ := hg
  have hni := Sys.configOk_not_immutable _ _ hok
  obtain ⟨_, hpal, hflex0⟩ := Sys.active_stored hact
  have hflex := Sys.configOk_flex _ _ hok
  -- the counter the mint is booked under
  have hctr : (w.v.tiered = true → ∃ i, WF.activeIdx w s.now = some i ∧ sid = i + 1 ∧ cnt = m.stg sid sender) ∧
      (w.v.tiered = false → sid = 0 ∧ cnt = m.wlc sender) := by
    rcases Sys.wmc_inv hcnt with ⟨htn, h1, _, hc, hs⟩ | ⟨htn, hc, hs⟩
    · rw [Sys.info_kind, Sys.kind_tieredName] at htn
      rw [Sys.info_stageId_tiered hni htn.2] at h1 hs hc
      refine ⟨fun _ => ?_, fun hf => by rw [htn.2] at hf; cases hf⟩
      cases hi : WF.activeIdx w s.now with
      | none => simp [hi] at h1
      | some i =>
        simp only [hi] at hs hc
        exact ⟨i, rfl, hs, by rw [hs]; exact hc⟩
    · have htf : w.v.tiered = false := by
        cases hq : w.v.tiered with
        | false => rfl
        | true =>
          have : (Sys.wlKindOf w.v).tieredName = true := (Sys.kind_tieredName w.v).2 ⟨hni, hq⟩
          rw [Sys.info_kind] at htn; rw [htn] at this; cases this
      exact ⟨fun hx => (by rw [htf] at hx; cases hx), fun _ => ⟨hs, hc⟩⟩
  -- what the whitelist's state grants
  have hL : ∃ L, Sys.storedLimit w s.now sender alloc = some L ∧ cnt < L := by
    rcases Sys.hasMember_inv hmem with ⟨hleaf, hfl, _, _, hk, _⟩ | ⟨hleaf, hk, _⟩
    · rw [Sys.info_kind, Sys.kind_answersHasMemberProof] at hk
      rcases Sys.ent_inv hent with ⟨hp, _⟩ | ⟨hfx, _, _⟩ | ⟨_, he⟩
      · rw [hfl] at hp; cases hp
      · rw [hfl] at hfx; cases hfx
      · simp only [Sys.fieldsOf] at he
        cases alloc with
        | some n =>
          simp only [hleaf, if_true] at he
          exact ⟨n, by simp [Sys.storedLimit, hk], by rw [← he]; exact hlt⟩
        | none =>
          simp only at he
          cases hq : w.v.flex with
          | true => rw [he, hflex0 hq] at hlt; omega
          | false => exact ⟨(Sys.wlInfoOf s.now w).limit, by simp [Sys.storedLimit, hk, hpal hq], by rw [← he]; exact hlt⟩
    · rw [Sys.info_kind, Sys.kind_answersHasMember] at hk
      rcases Sys.ent_inv hent with ⟨hp, he⟩ | ⟨hfx, _, he⟩ | ⟨hmk, he⟩
      · have hq : w.v.flex = false := by
          cases hq : w.v.flex with
          | false => rfl
          | true => have := hflex.2 ⟨hq, hk⟩; rw [hp] at this; cases this
        exact ⟨(Sys.wlInfoOf s.now w).limit, by simp [Sys.storedLimit, hk, hq, hpal hq], by rw [← he]; exact hlt⟩
      · have hq : w.v.flex = true := (hflex.1 hfx).1
        have hpos : 0 < (Sys.senderViewOf s.now w sender stage alloc proof).memberCount := by omega
        obtain ⟨_, _, mp, hmp, hget⟩ := Sys.qMember_stored (Sys.sv_memberCount hpos)
        exact ⟨ent, by simp [Sys.storedLimit, hk, hq, hmp, hget, he], hlt⟩
      · have hq : w.v.flex = false := by
          cases hq : w.v.flex with
          | false => rfl
          | true => have := hflex.2 ⟨hq, hk⟩; rw [hmk] at this; cases this
        have he' : ent = (Sys.wlInfoOf s.now w).limit := by
          simp only [Sys.fieldsOf] at he
          cases alloc <;> simp [hleaf] at he <;> exact he
        exact ⟨(Sys.wlInfoOf s.now w).limit, by simp [Sys.storedLimit, hk, hq, hpal hq], by rw [← he']; exact hlt⟩
  -- what the mint writes
  obtain ⟨m0, g, _, m', hm0, hg0, _, _, _, hm', _, hwlc, hstg, _⟩ := Sys.mint_ok h.ok
  rw [h.minter] at hm0; cases hm0
  rw [h.booked] at hg0; cases hg0
  obtain ⟨L, hL1, hL2⟩ := hL
  refine ⟨L, hL1, hL2, ?_, fun ht => ?_, fun ht => (hctr.2 ht).1, m', hm', ?_⟩
  · cases ht : w.v.tiered with
    | true => obtain ⟨_, _, _, hc⟩ := hctr.1 ht; simp [hc]
    | false => simp [(hctr.2 ht).2]
  · obtain ⟨i, hi, hs, _⟩ := hctr.1 ht; exact ⟨i, hi, hs⟩
  · cases ht : w.v.tiered with
    | true =>
      obtain ⟨i, _, hs, _⟩ := hctr.1 ht
      have hne : sid ≠ 0 := by omega
      simp only [if_true, hstg, VF.bookCount, hne, if_false, MintLimits.upd2, MintLimits.upd]
    | false =>
      have hs := (hctr.2 ht).1
      simp [hwlc, VF.bookCount, hs, MintLimits.upd]

namespace Sys

/-- the sender's stored count on whitelist counter `sid` (0 = `WHITELIST_MINTER_ADDRS`, 1..3 = the stage maps) -/
def ctr (s : State) (sid : Nat) (a : Addr) : Nat :=
  match s.minter with
  | some m => if sid = 0 then m.wlc a else m.stg sid a
  | none => 0

/-- along the history `ops` from `s`: whenever `a` gets a whitelist mint booked under counter `sid` accepted, what the
whitelist's state grants `a` at that block is at most `L` -/
def LimitsBelow (a : Addr) (sid L : Nat) : State → List Op → Prop
  | _, [] => True
  | s, op :: ops =>
    (∀ s' funds stage alloc proof picked m wa w cnt, op = .mint a funds stage alloc proof picked →
      WlMint s s' a funds stage alloc proof picked m wa w sid cnt →
      ∀ L', storedLimit w s.now a alloc = some L' → L' ≤ L) ∧
    LimitsBelow a sid L (step' s op) ops

theorem ctr_step (s : State) (op : Op) (a : Addr) (sid L : Nat) (hb : LimitsBelow a sid L s [op]) :
    ctr (step' s op) sid a ≤ max (ctr s sid a) L := by
  by_cases hacc : ∃ e, step s op = .error e
  · obtain ⟨e, he⟩ := hacc
    rw [step'_err he]; exact Nat.le_max_left _ _
  obtain ⟨s', hs⟩ : ∃ s', step s op = .ok s' := by
    cases hx : step s op with
    | ok s' => exact ⟨s', rfl⟩
    | error e => exact absurd ⟨e, hx⟩ hacc
  rw [step'_ok hs]
  cases op with
  | minter o =>
    obtain ⟨hw, c, hc, rfl⟩ := step_minter_ok hs
    have hnm : ∀ sender funds f sv picked, o ≠ .mint sender funds f sv picked := by
      intro sender funds f sv picked ho; subst ho; simp [witnessed] at hw
    cases hm : s.minter with
    | none =>
      cases hm' : c.minter with
      | none => simp [ctr, hm']
      | some m' =>
        obtain ⟨h1, h2, _⟩ := vf_counters_fresh hc (by simpa using hm) hm'
        simp [ctr, hm', h1, h2, MintLimits.zero]
    | some m =>
      obtain ⟨m', hm'⟩ := vf_minter_stays hc (by simpa using hm)
      obtain ⟨h1, h2⟩ := vf_counters_frame hc (by simpa using hm) hm' hnm
      simp only [ctr, setVf_minter, hm', hm]
      by_cases h0 : sid = 0
      · simp only [h0, if_true]
        rcases h2 with h2 | h2
        · rw [h2]; exact Nat.le_max_left _ _
        · rw [h2]; simp [MintLimits.zero]
      · simp only [h0, if_false, h1]; exact Nat.le_max_left _ _
  | mint sender funds stage alloc proof picked =>
    obtain ⟨m, g, _, m', hm, hg, _, _, _, hm', _, hwlc, hstg, _⟩ := mint_ok hs
    simp only [ctr, hm, hm']
    cases g with
    | pub =>
      simp only [hwlc, hstg, VF.bookCount]; exact Nat.le_max_left _ _
    | wl sid' cnt =>
      obtain ⟨wa, w, ha, hf, _⟩ := wl_branch hm hg
      have hwm : WlMint s s' sender funds stage alloc proof picked m wa w sid' cnt := ⟨hs, hm, ha, hf, hg⟩
      obtain ⟨L', hL1, hL2, hcnt, _, hflat, m'', hm'', hpost⟩ := C03_sys_limit_step hwm
      rw [hm'] at hm''; cases hm''
      by_cases hsame : sender = a ∧ sid' = sid
      · obtain ⟨rfl, rfl⟩ := hsame
        have hle : L' ≤ L := hb.1 s' funds stage alloc proof picked m wa w cnt rfl hwm L' hL1
        have hnew : (if sid' = 0 then m'.wlc sender else m'.stg sid' sender) = cnt + 1 := by
          cases ht : w.v.tiered with
          | false =>
            have h0 := hflat ht
            simp only [ht, Bool.false_eq_true, if_false] at hpost
            simp [h0, hpost]
          | true =>
            simp only [ht, if_true] at hpost
            have hne : sid' ≠ 0 := by
              intro h0
              simp only [hstg, VF.bookCount, h0, if_true] at hpost
              simp only [ht, if_true, h0] at hcnt
              omega
            simp [hne, hpost]
        rw [hnew]
        have : cnt + 1 ≤ L := by omega
        exact Nat.le_trans this (Nat.le_max_right _ _)
      · -- another address or another counter: this entry is untouched
        have hun : (if sid = 0 then m'.wlc a else m'.stg sid a) = (if sid = 0 then m.wlc a else m.stg sid a) := by
          simp only [hwlc, hstg, VF.bookCount]
          by_cases h0 : sid' = 0
          · simp only [h0, if_true]
            by_cases hs0 : sid = 0
            · simp only [hs0, if_true, MintLimits.upd]
              have : ¬ a = sender := fun hx => hsame ⟨hx.symm, by omega⟩
              simp [this]
            · simp [hs0]
          · simp only [h0, if_false]
            by_cases hs0 : sid = 0
            · simp [hs0]
            · simp only [hs0, if_false, MintLimits.upd2, MintLimits.upd]
              by_cases hk : sid = sid'
              · subst hk
                have : ¬ a = sender := fun hx => hsame ⟨hx.symm, rfl⟩
                simp [MintLimits.upd, this]
              · simp [hk]
        rw [hun]; exact Nat.le_max_left _ _
  | wlInst v sender funds self m =>
    obtain ⟨_, r, w, _, _, _, rfl⟩ := step_wlInst_ok hs
    exact Nat.le_max_left _ _
  | wlExec k sender funds m =>
    obtain ⟨w, r, w', _, _, _, _, rfl⟩ := step_wlExec_ok hs
    exact Nat.le_max_left _ _

end Sys

/-- **Limit, all histories.** Over every system history (any interleaving of clock moves, factory / minter / collection messages,
whitelist instantiates and whitelist-admin edits, mints by anybody): the number stored for address `a` on whitelist counter `sid`
never exceeds `max(its initial value, L)` for any bound `L` on what the whitelist's own state granted `a` at the blocks of `a`'s
accepted whitelist mints under `sid` — from a fresh chain (`Sys.init`, counter 0) it never exceeds that grant. -/
theorem C03_sys_limit_history (a : Addr) (sid L : Nat) (s : Sys.State) (ops : List Sys.Op)
    (hb : Sys.LimitsBelow a sid L s ops) : Sys.ctr (Sys.run s ops) sid a ≤ max (Sys.ctr s sid a) L := by
  induction ops generalizing s with
  | nil => exact Nat.le_max_left _ _
  | cons op ops ih =>
    rw [Sys.run_cons]
    have h1 := Sys.ctr_step s op a sid L ⟨hb.1, trivial⟩
    have h2 := ih _ hb.2
    have : max (Sys.ctr (Sys.step' s op) sid a) L ≤ max (Sys.ctr s sid a) L := by
      rcases Nat.le_total (Sys.ctr (Sys.step' s op) sid a) L with hx | hx
      · rw [Nat.max_eq_right hx]; exact Nat.le_max_right _ _
      · rw [Nat.max_eq_left hx]; exact h1
    exact Nat.le_trans h2 this

/-! ## (b) price -/

/-- **Price.** The amount charged for an accepted whitelist mint is the `mint_price` STORED for the stage in force in the
whitelist's own state: the attached funds are exactly that coin (nothing when it is zero). -/
theorem C07_sys_price {s s' : Sys.State} {sender : Addr} {funds : List Coin} {stage alloc : Option Nat}
    {proof : Option (List (List Nat))} {picked : Nat} {m : VF.Minter} {a : Addr} {w : WF.Wl} {sid cnt : Nat}
    (h : Sys.WlMint s s' sender funds stage alloc proof picked m a w sid cnt) :
    ∃ P, Sys.stagePrice w s.now = some P ∧ VF.mintPrice (Sys.vfOf s) m false = .ok P ∧ funds = exactFunds P ∧
      mayPay funds P.denom = .ok P.amount := by
  obtain ⟨a', w', ha', hf', hok, hact, _⟩ := Sys.wl_branch h.minter h.booked
  rw [h.attached] at ha'; cases ha'
  rw [h.contract] at hf'; cases hf'
  obtain ⟨hprice, _, _⟩ := Sys.active_stored hact
  have hcfg : VF.wlConfig (Sys.vfOf s) m.v a = .ok (Sys.wlInfoOf s.now w) := by
    unfold VF.wlConfig
    simp only [Sys.vfOf_wls, h.contract, Option.map_some, Sys.info_kind, hok, if_true]
  have hmp : VF.mintPrice (Sys.vfOf s) m false = .ok (Sys.wlInfoOf s.now w).price := by
    unfold VF.mintPrice
    simp only [Bool.false_eq_true, if_false, h.attached, hcfg, hact, if_true]
  obtain ⟨c, hc, _⟩ := Sys.step_mint_ok h.ok
  obtain ⟨price, hp, hfunds⟩ := C02_full_exact_payment (Sys.vfOf s) c m _ (by simpa using h.minter) hc sender funds false
    (Or.inl ⟨_, _, _, rfl, rfl⟩)
  rw [hmp] at hp; cases hp
  obtain ⟨_, _, _, _, hm0, _, _, hp0, hpay, _⟩ := Sys.mint_ok h.ok
  rw [h.minter] at hm0; cases hm0
  rw [hmp] at hp0; cases hp0
  exact ⟨_, hprice, hmp, hfunds, hpay⟩

/-! ## (b) schedule -/

/-- `Config.is_active`, as the minter reads it, says exactly: the block time lies in a window stored in the whitelist -/
theorem C04_sys_window_iff (w : WF.Wl) (now : Nat) : (Sys.wlInfoOf now w).active = true ↔ Sys.InWindow w now :=
  Sys.inWindow_iff w now

/-- **Schedule.** An accepted buyer's mint is booked as a WHITELIST mint exactly when a whitelist contract is attached and the
block time lies in one of ITS stored windows — no whitelist mint is accepted at a block outside every stored stage window — and
in every other case the PUBLIC rules applied: the sale has started, the sender's public count is below the per-address limit and
is raised by one, and the public price (the standing discount, else the mint price) was charged. -/
theorem C04_sys_schedule {s s' : Sys.State} {sender : Addr} {funds : List Coin} {stage alloc : Option Nat}
    {proof : Option (List (List Nat))} {picked : Nat} (h : Sys.step s (.mint sender funds stage alloc proof picked) = .ok s') :
    ∃ m g, s.minter = some m ∧
      VF.isPublicMint (Sys.vfOf s) m sender (Sys.fieldsOf stage alloc proof) (Sys.mintView s sender stage alloc proof) = .ok g ∧
      ((∃ sid cnt, g = .wl sid cnt) ↔ ∃ a w, m.whitelist = some a ∧ Sys.find s.wls a = some w ∧ Sys.InWindow w s.now) ∧
      (g = .pub → m.startTime ≤ s.now ∧ m.pub sender < m.perAddressLimit ∧
        funds = exactFunds (m.discountPrice.getD m.mintPrice) ∧
        ∃ m', s'.minter = some m' ∧ m'.pub sender = m.pub sender + 1) := by
  obtain ⟨m, g, price, m', hm, hg, hpub, hp, _, hm', hpubc, _⟩ := Sys.mint_ok h
  refine ⟨m, g, hm, hg, ⟨?_, ?_⟩, ?_⟩
  · rintro ⟨sid, cnt, rfl⟩
    obtain ⟨a, w, ha, hf, _, hact, _⟩ := Sys.wl_branch hm hg
    exact ⟨a, w, ha, hf, (Sys.inWindow_iff w s.now).1 hact⟩
  · rintro ⟨a, w, ha, hf, hin⟩
    cases g with
    | wl sid cnt => exact ⟨sid, cnt, rfl⟩
    | pub =>
      exfalso
      rcases Sys.pub_branch hg with hn | ⟨a', w', ha', hf', hina⟩
      · rw [ha] at hn; cases hn
      · rw [ha] at ha'; cases ha'
        rw [hf] at hf'; cases hf'
        rw [(Sys.inWindow_iff w s.now).2 hin] at hina; cases hina
  · intro hgp
    subst hgp
    obtain ⟨h1, h2⟩ := hpub rfl
    have hmp : VF.mintPrice (Sys.vfOf s) m false = .ok (m.discountPrice.getD m.mintPrice) := by
      rcases Sys.isPublicMint_cases hg with ⟨_, hn | ⟨a, i, ha, hi, hina⟩⟩ | ⟨a, i, ha, hi, hact, hchk⟩
      · unfold VF.mintPrice; simp [hn]
      · unfold VF.mintPrice; simp [ha, hi, hina]
      · obtain ⟨_, _, _, _, _, _, _, _, hgg, _⟩ := VF.wlMintChecks_ok hchk
        cases hgg
    obtain ⟨c, hc, _⟩ := Sys.step_mint_ok h
    obtain ⟨price', hp', hfunds⟩ := C02_full_exact_payment (Sys.vfOf s) c m _ (by simpa using hm) hc sender funds false
      (Or.inl ⟨_, _, _, rfl, rfl⟩)
    rw [hmp] at hp'; cases hp'
    refine ⟨h1, h2, hfunds, m', hm', ?_⟩
    simp [hpubc, VF.bookCount, MintLimits.upd]

/-! ## (b) over all histories -/

namespace Sys

/-- the accepted steps of a history: the state each was sent in, the op, the state it produced -/
def accSteps : State → List Op → List (State × Op × State)
  | _, [] => []
  | s, op :: ops =>
    (match step s op with
     | .ok s' => [(s, op, s')]
     | .error _ => []) ++ accSteps (step' s op) ops

theorem accSteps_ok (s : State) (ops : List Op) : ∀ x ∈ accSteps s ops, step x.1 x.2.1 = .ok x.2.2 := by
  induction ops generalizing s with
  | nil => intro x hx; simp [accSteps] at hx
  | cons op ops ih =>
    intro x hx
    simp only [accSteps, List.mem_append] at hx
    rcases hx with hx | hx
    · cases hs : step s op with
      | ok s' => simp only [hs, List.mem_singleton] at hx; subst hx; exact hs
      | error e => simp [hs] at hx
    · exact ih _ x hx

/-- … and every recorded state is the state reached by a prefix of the history -/
theorem accSteps_prefix (s : State) (ops : List Op) :
    ∀ x ∈ accSteps s ops, ∃ pre post, ops = pre ++ x.2.1 :: post ∧ x.1 = run s pre ∧ x.2.2 = run s (pre ++ [x.2.1]) := by
  induction ops generalizing s with
  | nil => intro x hx; simp [accSteps] at hx
  | cons op ops ih =>
    intro x hx
    simp only [accSteps, List.mem_append] at hx
    rcases hx with hx | hx
    · cases hs : step s op with
      | ok s' =>
        simp only [hs, List.mem_singleton] at hx; subst hx
        exact ⟨[], ops, rfl, rfl, by simp [run, step', hs]⟩
      | error e => simp [hs] at hx
    · obtain ⟨pre, post, h1, h2, h3⟩ := ih _ x hx
      exact ⟨op :: pre, post, by rw [h1]; rfl, by rw [h2]; rfl, by rw [h3]; rfl⟩

end Sys

/-- **All histories.** In every system history from every state (in particular from a fresh chain), every accepted buyer's mint
is either a public mint under the public rules or a whitelist mint for which, in the whitelist's OWN state at that block: the
block time lies in a stored window, the sender is a stored member of the stage in force (list kinds) resp. proved a leaf binding
her address against the stored root of the stage in force (Merkle kinds), her stored count on the counter the mint is booked
under is below what that state grants her, and she paid exactly the stored price of the stage in force. -/
theorem C04_sys_history (s0 : Sys.State) (ops : List Sys.Op) :
    ∀ x ∈ Sys.accSteps s0 ops, ∀ sender funds stage alloc proof picked,
      x.2.1 = .mint sender funds stage alloc proof picked →
      ((∃ m a w sid cnt, Sys.WlMint x.1 x.2.2 sender funds stage alloc proof picked m a w sid cnt) ∨
       (∃ m, x.1.minter = some m ∧ m.startTime ≤ x.1.now ∧ m.pub sender < m.perAddressLimit ∧
          funds = exactFunds (m.discountPrice.getD m.mintPrice))) ∧
      (∀ m a w sid cnt, Sys.WlMint x.1 x.2.2 sender funds stage alloc proof picked m a w sid cnt →
        Sys.InWindow w x.1.now ∧
        (w.v.store = .list →
          (w.v.tiered = false → sender ∈ WlMembers.keys w.members) ∧
          (w.v.tiered = true → ∃ i, WF.activeIdx w x.1.now = some i ∧ sender ∈ WlMembers.keys (WF.mapOf w i))) ∧
        (w.v.store = .merkle → ∃ p r, proof = some p ∧ Sys.activeRoot w x.1.now = some r ∧
          Merkle.hasMember w.v.hash w.v.digest r (Sys.leafOf sender stage alloc) p = some true) ∧
        (∃ L, Sys.storedLimit w x.1.now sender alloc = some L ∧ cnt < L) ∧
        (∃ P, Sys.stagePrice w x.1.now = some P ∧ funds = exactFunds P)) := by
  intro x hx sender funds stage alloc proof picked hop
  have hok := Sys.accSteps_ok s0 ops x hx
  rw [hop] at hok
  constructor
  · rcases Sys.mint_classify hok with h | ⟨m, hm, hg⟩
    · exact Or.inl h
    · obtain ⟨m0, g, hm0, hg0, _, hpub⟩ := C04_sys_schedule hok
      rw [hm] at hm0; cases hm0
      rw [hg] at hg0; cases hg0
      obtain ⟨h1, h2, h3, _⟩ := hpub rfl
      exact Or.inr ⟨m, hm, h1, h2, h3⟩
  · intro m a w sid cnt hwm
    obtain ⟨m0, g, hm0, hg0, hiff, _⟩ := C04_sys_schedule hok
    rw [hwm.minter] at hm0; cases hm0
    rw [hwm.booked] at hg0; cases hg0
    obtain ⟨a', w', ha', hf', hin⟩ := hiff.1 ⟨sid, cnt, rfl⟩
    rw [hwm.attached] at ha'; cases ha'
    rw [hwm.contract] at hf'; cases hf'
    obtain ⟨L, hL1, hL2, _⟩ := C03_sys_limit_step hwm
    obtain ⟨P, hP1, _, hP2, _⟩ := C07_sys_price hwm
    refine ⟨hin, fun hl => C04_sys_entitlement_list hwm hl, fun hk => ?_, ⟨L, hL1, hL2⟩, ⟨P, hP1, hP2⟩⟩
    obtain ⟨p, r, h1, h2, h3, _⟩ := C14_sys_entitlement_merkle hwm hk
    exact ⟨p, r, h1, h2, h3⟩

/-! ## (a) run-level theorems of the halves, transferred to system runs -/

/-- a `VF` run-level theorem on system runs (`C07_full_discount_le_public` through `C03_sys_minter_invariant`): in every system
history from a state without a minter — whatever whitelist contracts are created, edited and attached in between — the standing
discount never exceeds the public price and is in its denom -/
theorem C07_sys_discount_le_public (s : Sys.State) (h0 : s.minter = none) (ops : List Sys.Op) (m' : VF.Minter)
    (hm' : (Sys.run s ops).minter = some m') (d : Coin) (hd : m'.discountPrice = some d) :
    d.amount ≤ m'.mintPrice.amount ∧ d.denom = m'.mintPrice.denom := by
  let P : VF.State → Prop := fun c => ∀ m, c.minter = some m → ∀ d, m.discountPrice = some d →
    d.amount ≤ m.mintPrice.amount ∧ d.denom = m.mintPrice.denom
  have hP : P (Sys.vfOf (Sys.run s ops)) := by
    refine C03_sys_minter_invariant P ?_ ?_ s ?_ ops
    · intro c op hc m1 hm1 d1 hd1
      cases hm : c.minter with
      | some m =>
        exact C07_full_discount_le_public c m hm (hc m hm) [op] m1 (by simpa [VF.run] using hm1) d1 hd1
      | none =>
        rcases VF.step'_cases c op with ⟨c', hs, hs'⟩ | ⟨_, hs'⟩
        · rw [hs'] at hm1
          obtain ⟨_, _, hnone⟩ := Sys.vf_counters_fresh hs hm hm1
          rw [hnone] at hd1; cases hd1
        · rw [hs', hm] at hm1; cases hm1
    · intro c b hc m1 hm1; exact hc m1 hm1
    · intro m hm; simp [h0] at hm
  exact hP m' (by simpa using hm') d hd

/-- a `WF` run-level theorem on system runs (`C14`'s "the root cannot be changed by any call"): along every system history the
roots committed by the Merkle whitelist at `k` stay those it holds now — minter traffic, other whitelists and its own admins'
messages included -/
theorem C14_sys_root_immutable (s : Sys.State) (k : Addr) (w : WF.Wl) (hw : Sys.find s.wls k = some w)
    (hk : w.v.store = .merkle) (ops : List Sys.Op) :
    ∃ w', Sys.find (Sys.run s ops).wls k = some w' ∧ w'.roots = w.roots ∧ w'.v = w.v := by
  induction ops generalizing s w with
  | nil => exact ⟨w, hw, rfl, rfl⟩
  | cons op ops ih =>
    rw [Sys.run_cons]
    have hstep : ∃ w1, Sys.find (Sys.step' s op).wls k = some w1 ∧ w1.roots = w.roots ∧ w1.v = w.v := by
      rcases Sys.wfOps_cases k s op with h0 | ⟨wop, h1⟩
      · have := Sys.wf_step_other s op k h0
        have hx : (Sys.wfOf (Sys.step' s op) k).wl = (Sys.wfOf s k).wl := by rw [this]
        simp only [Sys.wfOf] at hx
        exact ⟨w, by rw [hx]; exact hw, rfl, rfl⟩
      · have hown := Sys.wf_step_own s op k wop h1
        have hni : WF.NoInst14 [wop] := by
          intro o ho v sender funds self m heq
          simp only [List.mem_singleton] at ho
          subst ho; subst heq
          cases op with
          | minter o =>
            cases o <;> simp only [Sys.wfOps] at h1 <;> first | (cases h1; done) | skip
            split at h1 <;> simp at h1
          | mint sender' funds' stage alloc proof picked => simp [Sys.wfOps] at h1
          | wlInst v' sender' funds' self' m' =>
            simp only [Sys.wfOps] at h1
            split at h1
            · rename_i hc
              obtain ⟨rfl, ht⟩ := hc
              have := Sys.taken_find ht
              rw [hw] at this; cases this
            · cases h1
          | wlExec k' sender' funds' m' =>
            simp only [Sys.wfOps] at h1
            split at h1 <;> simp at h1
        obtain ⟨w1, h1', hv, hr, _⟩ := WF.run_sim14 (fun x => x) [] [wop] (s := Sys.wfOf s k) (w := w) (by simpa [Sys.wfOf] using hw) hni
        have hx : (Sys.wfOf (Sys.step' s op) k).wl = some w1 := by
          rw [hown]; simpa [WF.run] using h1'
        exact ⟨w1, by simpa [Sys.wfOf] using hx, hr, hv⟩
    obtain ⟨w1, hw1, hr1, hv1⟩ := hstep
    obtain ⟨w', hw', hr', hv'⟩ := ih (Sys.step' s op) w1 hw1 (by rw [hv1]; exact hk)
    exact ⟨w', hw', by rw [hr', hr1], by rw [hv', hv1]⟩

/-! ## Non-vacuity: concrete system histories (kernel-evaluated) -/

namespace Sys
/-- the system's verdict on every op of a history -/
def verdicts : State → List Op → List Bool
  | _, [] => []
  | s, op :: ops => accepted s op :: verdicts (step' s op) ops
end Sys

/-- a fresh chain with a vending factory (as `cvInit`) -/
def sysInit : Sys.State := Sys.init cvT0 ⟨[1, 2, 3, 4, 5, 6], [16, 17, 18, 19]⟩ 1000 cvParams

/-- `whitelist` (plain): window `[T0+40, T0+90)`, price 500, one mint per address, member 21 -/
def sysWlMsg : WF.InstMsg :=
  { admins := [11], adminsMutable := true, start := cvT0 + 40, end_ := cvT0 + 90, mintPrice := ⟨0, 500⟩, perAddr := 1,
    memberLimit := 10, whaleCap := none, members := [(21, 0)], stages := [], stageMembers := [], roots := [], uriOk := true,
    uris := none, discountBps := none }

/-- whitelist 1005 instantiated by 11 (fee 100 STARS), minter created by 10 with it attached (sale at T0+100, price 1000, 3 tokens);
in the window: member 21 mints at 500, her second mint is over the stored limit, 22 is not stored; the whitelist admin adds 22
between two mints of the same block, then 22's mint is accepted; after the window the whitelist price is refused and the public
price accepted -/
def sysOps : List Sys.Op :=
  [.minter (.fund 10 ⟨0, 5000⟩), .minter (.fund 11 ⟨0, 100000000⟩), .minter (.fund 21 ⟨0, 5000⟩), .minter (.fund 22 ⟨0, 5000⟩),
   .wlInst WF.Variant.plain 11 [⟨0, 100000000⟩] 1005 sysWlMsg,
   .minter (cvCreate (some 1005)),
   .minter (.setTime (cvT0 + 50)),
   .mint 21 [⟨0, 500⟩] none none none 1,
   .mint 21 [⟨0, 500⟩] none none none 2,
   .mint 22 [⟨0, 500⟩] none none none 2,
   .wlExec 1005 11 [] (.addMembers 0 [(22, 0)]),
   .mint 22 [⟨0, 500⟩] none none none 2,
   .minter (.setTime (cvT0 + 100)),
   .mint 22 [⟨0, 500⟩] none none none 3,
   .mint 22 [⟨0, 1000⟩] none none none 3]

example : Sys.verdicts sysInit sysOps =
    [true, true, true, true, true, true, true, true, false, false, true, true, true, false, true] := by decide

/-- counters after the history: one whitelist mint each for 21 and 22 (`WHITELIST_MINTER_ADDRS`), one public mint for 22 -/
example : (Sys.run sysInit sysOps).minter.map (fun m => (m.wlc 21, m.wlc 22, m.pub 21, m.pub 22, m.supply.mintable)) =
    some (1, 1, 0, 1, 0) := by decide

/-- the hypothesis of the end-to-end theorems is satisfiable: the 8th op of `sysOps` IS a whitelist mint -/
example : ∃ m a w sid cnt, Sys.WlMint (Sys.run sysInit (sysOps.take 7)) (Sys.run sysInit (sysOps.take 8)) 21 [⟨0, 500⟩]
    none none none 1 m a w sid cnt := by
  have hok : Sys.step (Sys.run sysInit (sysOps.take 7)) (.mint 21 [⟨0, 500⟩] none none none 1) =
      .ok (Sys.run sysInit (sysOps.take 8)) := by rfl
  rcases Sys.mint_classify hok with h | ⟨m, hm, hg⟩
  · exact h
  · exfalso
    obtain ⟨m0, g, hm0, hg0, _, hpub⟩ := C04_sys_schedule hok
    rw [hm] at hm0; cases hm0
    rw [hg] at hg0; cases hg0
    obtain ⟨hstart, _⟩ := hpub rfl
    have h1 : (Sys.run sysInit (sysOps.take 7)).minter.map (·.startTime) = some (cvT0 + 100) := by decide
    have h2 : (Sys.run sysInit (sysOps.take 7)).now = cvT0 + 50 := by decide
    rw [hm] at h1
    simp only [Option.map_some, Option.some.injEq] at h1
    rw [h1, h2] at hstart
    simp [cvT0] at hstart

/-- what the whitelist's own state says at that block: in its window, 21 stored, limit 1, price 500 -/
example : (Sys.find (Sys.run sysInit (sysOps.take 7)).wls 1005).map (fun w =>
      (w.start - cvT0, w.end_ - cvT0, WlMembers.keys w.members, Sys.storedLimit w (cvT0 + 50) 21 none, Sys.stagePrice w (cvT0 + 50))) =
    some (40, 90, [21], some 1, some ⟨0, 500⟩) := by decide

/-- a flex minter (code id 3 = `vending-minter-wl-flex`) and `tiered-whitelist-flex` with touching stages `[T0+40, T0+60]` (price 500,
21 may mint twice) and `[T0+60, T0+90]` (price 600, 21 and 22 once each, at most ONE mint in the stage) -/
def sysInitFlex : Sys.State := Sys.init cvT0 ⟨[1, 2, 3, 4, 5, 6], [16, 17, 18, 19]⟩ 1000 { cvParams with codeId := 3 }

def sysTfMsg : WF.InstMsg :=
  { admins := [11], adminsMutable := true, start := 0, end_ := 0, mintPrice := ⟨0, 0⟩, perAddr := 0, memberLimit := 10,
    whaleCap := none, members := [],
    stages := [⟨1, cvT0 + 40, cvT0 + 60, 0, 500, 0, none⟩, ⟨2, cvT0 + 60, cvT0 + 90, 0, 600, 0, some 1⟩],
    stageMembers := [[(21, 2)], [(21, 1), (22, 1)]], roots := [], uriOk := true, uris := none, discountBps := none }

def sysCreate5 : VF.Op :=
  .create 10 [⟨0, 1000⟩]
    { collCode := 16, creator := 10, trading := none, uriOk := true, paymentAddress := some 12, startTime := cvT0 + 100,
      numTokens := 5, mintPrice := ⟨0, 1000⟩, perAddressLimit := 2, whitelist := some 1005, whitelistValid := true, collOk := true }
    { minterAddr := 1001, collAddr := 1002, perm := [2, 3, 1, 5, 4] }

/-- the hand-over: at T0+60 (both closed windows contain it) the mint is booked under stage 1 at 500; one ns later stage 1's price
is refused, 21 mints under stage 2 at 600, her second stage-2 mint exceeds the stored `mint_count` 1, and 22 is refused because the
stage's `mint_count_limit` 1 is used up -/
def sysOpsTf : List Sys.Op :=
  [.minter (.fund 10 ⟨0, 5000⟩), .minter (.fund 11 ⟨0, 100000000⟩), .minter (.fund 21 ⟨0, 5000⟩), .minter (.fund 22 ⟨0, 5000⟩),
   .wlInst WF.Variant.tieredFlex 11 [⟨0, 100000000⟩] 1005 sysTfMsg,
   .minter sysCreate5,
   .minter (.setTime (cvT0 + 60)),
   .mint 21 [⟨0, 500⟩] none none none 1,
   .minter (.setTime (cvT0 + 61)),
   .mint 21 [⟨0, 500⟩] none none none 2,
   .mint 21 [⟨0, 600⟩] none none none 2,
   .mint 21 [⟨0, 600⟩] none none none 3,
   .mint 22 [⟨0, 600⟩] none none none 3]

example : Sys.verdicts sysInitFlex sysOpsTf =
    [true, true, true, true, true, true, true, true, true, false, true, false, false] := by decide

example : (Sys.run sysInitFlex sysOpsTf).minter.map (fun m => (m.stg 1 21, m.stg 2 21, m.stg 2 22, m.tot 1, m.tot 2, m.wlc 21)) =
    some (1, 1, 0, 1, 1, 0) := by decide

/-- the stored grants at the two instants: stage 1's `mint_count` 2 for 21, then stage 2's 1; 22 only in stage 2 -/
example : (Sys.find (Sys.run sysInitFlex (sysOpsTf.take 6)).wls 1005).map (fun w =>
      (Sys.storedLimit w (cvT0 + 60) 21 none, Sys.storedLimit w (cvT0 + 61) 21 none, Sys.storedLimit w (cvT0 + 60) 22 none,
       Sys.storedLimit w (cvT0 + 61) 22 none, Sys.stagePrice w (cvT0 + 60), Sys.stagePrice w (cvT0 + 61))) =
    some (some 2, some 1, none, some 1, some ⟨0, 500⟩, some ⟨0, 600⟩) := by rfl

end LP
