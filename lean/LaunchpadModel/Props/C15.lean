import LaunchpadModel.Lemmas.Splits
/-!
# C15 — Splits pay members in exact proportion and never more than is held

Model: `LP.Splits` (`Model/Splits.lean`) = sg-splits `execute_distribute` + cw4-group + the bank, executed by
`drv_c15` against the real contracts. Helper lemmas: `Lemmas/Splits.lean`.

Vocabulary used below
* `s : State` — splits contract `s.self`, its `admin`, the cw4 group (`members` in address order, stored `total`),
  and the bank. `SWF s` = the group invariant cw4-group maintains (addresses strictly ascending, hence unique, and
  `total = Σ weights`); it is *proved* for every reachable state (`C15_history_wf`), never assumed of the code.
* `distribute s sender funds denoms order = .ok (s', msgs)` — one accepted `Distribute { denom_list: denoms }`
  transaction with `funds` attached: `b1` = bank after the attached funds arrived, `msgs` = the bank messages of the
  response, `s'` = state after the chain executed them. `order` is the (checked) witness for the order in which
  `query_all_balances` lists the contract's coins; every theorem holds for every order.
* `selected denoms d` — `d` is in the explicit list, or there is no list.
* "the contract is not a paid member" (`hself`): `∀ m ∈ members, 0 < m.2 → m.1 ≠ s.self`. A group admin CAN add the
  splits contract to its own group with a weight (cw4-group accepts any address); in that DEGENERATE SELF-MEMBER
  configuration the contract "pays itself" (a transfer from and to the same account), keeps
  `w_self·floor(B/T) + B mod T ≥ T`, and — if it sorts before the other members — a denom listed twice is paid twice.
  So the balance-level clauses "remainder < total weight" and "each member gets exactly weight × floor(B/T)" are
  false in the degenerate self-member configuration (`C15_remainder_self_member_counterexample`,
  `C15_exact_amount_self_first_counterexample`, replays `corpus/C15/*.json`); the non-degenerate reading (`hself`) holds.
  Classification (coordinator, DESIGN 13.3): recorded as an OBSERVATION, not a finding — the configuration is outside the
  property's intended quantifier. The theorems that need `hself` (or "no denom listed twice") are therefore named
  `…_partial`, with the full clause quoted above them; the statements WITHOUT any side condition are
  `C15_msgs_exact` (messages) and `C15_amounts_general` (balances, with the number of occurrences of a denom).
* `occ denoms d` — how often the call selects denom `d` (1 without a list, else its multiplicity in the list).

What is a mechanism theorem and what is not: `C15_refused_unchanged`, `C15_distribute_conserves`, `C15_raw_refused`,
`C15_migrate_noop` restate how `step'` / the model's bank are DEFINED (a failed transaction changes nothing, the bank
only moves coins, the model has no other message); on the real code those clauses are carried by the harness
monitors (`failed-but-changed`, `supply`, `frame-*`, `outflow`), not by these theorems.
-/
namespace LP
open LP.Splits

/-! ## constants of the code the statements depend on (regenerated from /repo each run) -/

/-- "too many members (more than 25)": the bound in the code is 25, it is strictly below the page size asked for,
and that page size does not exceed what cw4-group serves (30) — this is what makes "every member is listed" true. -/
theorem C15_constants :
    Gen.sg_splits_MAX_GROUP_SIZE = 25 ∧ Gen.sg_splits_MAX_GROUP_SIZE < Gen.sg_splits_PAGINATION_LIMIT ∧
    Gen.sg_splits_PAGINATION_LIMIT ≤ CW4_MAX_LIMIT := by decide

/-- A listing that passes the size check is the whole group, so every member is paid and `Σ listed weights = total`. -/
theorem C15_all_listed (g : Group) (h : (listed g).length ≤ Gen.sg_splits_MAX_GROUP_SIZE) :
    listed g = g.members ∧ (GWF g.members g.total → sumW (listed g) = g.total) := by
  refine ⟨listed_all h, fun hw => ?_⟩
  rw [listed_all h]; exact hw.2.symm

/-! ## "A distribution pays each group member weight x floor(balance / total_weight) of every distributed denom
and nothing to zero-weight members" -/

/-- Message level, no side conditions: an accepted call emits exactly one `BankMsg::Send` per (member with weight > 0,
selected coin whose balance reaches the total weight), of `weight × floor(balance / total_weight)`, and nothing else. -/
theorem C15_msgs_exact {s : State} {sender : Addr} {denoms : Option (List Denom)} {order : List Denom} {msgs : List Pay}
    (h : distributeMsgs s sender denoms order = .ok msgs) :
    ∃ funds, selectFunds s.bank s.self denoms order = .ok funds ∧
      (∀ c ∈ funds, selected denoms c.denom ∧ c.amount = bal s.bank s.self c.denom ∧ c.amount ≠ 0) ∧
      ∀ p, p ∈ msgs ↔ ∃ m ∈ s.group.members, ∃ c ∈ funds, 0 < m.2 ∧ 0 < c.amount / s.group.total ∧
        p = ⟨m.1, c.denom, m.2 * (c.amount / s.group.total)⟩ := by
  obtain ⟨_, _, _, hlen, funds, hf, _, hmsgs, _⟩ := distributeMsgs_ok h
  rw [listed_all hlen] at hmsgs
  obtain ⟨L, hfL, hL, _⟩ := selectFunds_spec hf
  refine ⟨funds, hf, ?_, fun p => by rw [hmsgs]; exact mem_payMsgs⟩
  intro c hc
  rw [hfL] at hc
  obtain ⟨d, hd, rfl⟩ := List.mem_map.mp hc
  exact ⟨((hL d).mp hd).1, rfl, ((hL d).mp hd).2⟩

/-- "nothing to zero-weight members": no message is addressed to a member whose weight is 0. -/
theorem C15_zero_weight_no_msg {s : State} (hwf : SWF s) {sender : Addr} {denoms : Option (List Denom)} {order : List Denom}
    {msgs : List Pay} (h : distributeMsgs s sender denoms order = .ok msgs) {a : Addr} (ha : (a, 0) ∈ s.group.members) :
    ∀ p ∈ msgs, p.to ≠ a := by
  obtain ⟨funds, _, _, hmem⟩ := C15_msgs_exact h
  intro p hp hpa
  obtain ⟨m, hm, c, _, hpos, _, rfl⟩ := (hmem p).mp hp
  simp only at hpa
  have h1 := mem_lookupM hwf.1 ha
  have h2 := mem_lookupM hwf.1 (show (m.1, m.2) ∈ s.group.members from hm)
  rw [hpa, h1] at h2
  simp at h2; omega

/-- **Exact amounts, no side condition** (the contract may be a member of its own group, a denom may be listed several
times): after an accepted distribution every account other than the contract holds what it held when the call
arrived plus `weight × occurrences × floor(balance / total_weight)` of every denom, and the contract has lost exactly
what the others gained, `(total_weight − own weight) × occurrences × floor(balance / total_weight)` — in particular
never more than it held, nobody else loses anything, and zero-weight members and strangers gain nothing. -/
theorem C15_amounts_general {s s' : State} (hwf : SWF s)
    {sender : Addr} {funds : List Coin} {denoms : Option (List Denom)} {order : List Denom} {msgs : List Pay}
    (h : distribute s sender funds denoms order = .ok (s', msgs)) :
    ∃ b1, attachFunds s.bank sender s.self funds = some b1 ∧
      (∀ a d, a ≠ s.self → bal s'.bank a d = bal b1 a d +
        (lookupM s.group.members a).getD 0 * (occ denoms d * (bal b1 s.self d / s.group.total))) ∧
      (∀ d, bal s'.bank s.self d + (s.group.total - (lookupM s.group.members s.self).getD 0) *
        (occ denoms d * (bal b1 s.self d / s.group.total)) = bal b1 s.self d) ∧
      (∀ d, bal s'.bank s.self d ≤ bal b1 s.self d) := by
  obtain ⟨b1, hb1, hm, he, _⟩ := distribute_ok h
  obtain ⟨g1, g2⟩ := distribute_general (s := { s with bank := b1 }) hwf hm he
  exact ⟨b1, hb1, g1, g2, fun d => by have := g2 d; simp only [] at this; omega⟩

/-- FULL CLAUSE (false in the degenerate self-member configuration, see `C15_exact_amount_self_first_counterexample`;
observation, DESIGN 13.3): "a distribution pays each
group member weight × floor(balance / total_weight) of every distributed denom" — for every accepted call.
PROVED (partial): the clause when the contract is not a paid member of its own group. What is missing: the contract
rejecting (or cw4-group never containing) its own address, or `denom_list` being de-duplicated.

**Exact amounts** (balances): after an accepted distribution every account other than the contract holds what it
held when the call arrived plus `weight × floor(balance / total_weight)` of every selected denom, where `weight` is
its weight in the group — 0 for zero-weight members and for non-members, so those receive nothing. -/
theorem C15_amounts_partial {s s' : State} (hwf : SWF s) (hself : ∀ m ∈ s.group.members, 0 < m.2 → m.1 ≠ s.self)
    {sender : Addr} {funds : List Coin} {denoms : Option (List Denom)} {order : List Denom} {msgs : List Pay}
    (h : distribute s sender funds denoms order = .ok (s', msgs)) :
    ∃ b1, attachFunds s.bank sender s.self funds = some b1 ∧
      ∀ a d, a ≠ s.self → bal s'.bank a d = bal b1 a d +
        (if selected denoms d then (lookupM s.group.members a).getD 0 * (bal b1 s.self d / s.group.total) else 0) := by
  obtain ⟨b1, hb1, hm, he, _⟩ := distribute_ok h
  exact ⟨b1, hb1, (distribute_exact (s := { s with bank := b1 }) hwf hself hm he).2⟩

/-- each member `(a, w)` of the group receives exactly `w × floor(balance / total_weight)` of every selected denom -/
theorem C15_member_paid_partial {s s' : State} (hwf : SWF s) (hself : ∀ m ∈ s.group.members, 0 < m.2 → m.1 ≠ s.self)
    {sender : Addr} {funds : List Coin} {denoms : Option (List Denom)} {order : List Denom} {msgs : List Pay}
    (h : distribute s sender funds denoms order = .ok (s', msgs)) :
    ∃ b1, attachFunds s.bank sender s.self funds = some b1 ∧
      ∀ a w, (a, w) ∈ s.group.members → a ≠ s.self → ∀ d,
        bal s'.bank a d = bal b1 a d + (if selected denoms d then w * (bal b1 s.self d / s.group.total) else 0) := by
  obtain ⟨b1, hb1, hall⟩ := C15_amounts_partial hwf hself h
  refine ⟨b1, hb1, fun a w haw ha d => ?_⟩
  rw [hall a d ha, mem_lookupM hwf.1 haw]; rfl

/-- zero-weight members and non-members keep exactly what they had — no side condition (also when the contract is
its own member, also with a denom listed twice) -/
theorem C15_zero_weight_and_strangers_unpaid {s s' : State} (hwf : SWF s)
    {sender : Addr} {funds : List Coin} {denoms : Option (List Denom)} {order : List Denom} {msgs : List Pay}
    (h : distribute s sender funds denoms order = .ok (s', msgs)) :
    ∃ b1, attachFunds s.bank sender s.self funds = some b1 ∧
      ∀ a, a ≠ s.self → ((a, 0) ∈ s.group.members ∨ ∀ w, (a, w) ∉ s.group.members) → ∀ d, bal s'.bank a d = bal b1 a d := by
  obtain ⟨b1, hb1, hall, _⟩ := C15_amounts_general hwf h
  refine ⟨b1, hb1, fun a ha hcase d => ?_⟩
  rw [hall a d ha]
  rcases hcase with h0 | hno
  · rw [mem_lookupM hwf.1 h0]; simp
  · have : lookupM s.group.members a = none := by
      cases hl : lookupM s.group.members a with
      | none => rfl
      | some w => exact absurd (lookupM_mem hl) (hno w)
    rw [this]; simp

/-! ## "so the total paid never exceeds the balance and the undistributed remainder of each denom is smaller than
the total weight" -/

/-- the arithmetic: `T × floor(B/T) ≤ B`, and what is left is `B mod T < T` -/
theorem C15_bound_arith (B T : Nat) (hT : 0 < T) :
    T * (B / T) ≤ B ∧ B - T * (B / T) = B % T ∧ B % T < T :=
  ⟨Nat.mul_div_le B T, (Nat.mod_def B T).symm, Nat.mod_lt B hT⟩

/-- FULL CLAUSE (false in the degenerate self-member configuration, see `C15_remainder_self_member_counterexample`;
observation, DESIGN 13.3): "the undistributed remainder
of each denom is smaller than the total weight" — after every accepted call.
PROVED (partial): the clause when the contract is not a paid member of its own group. Without that the contract keeps
`own weight × floor(B/T) + B mod T` (`C15_amounts_general`), and "the total paid never exceeds the balance" still
holds in the form "the contract never ends with more, nor anybody else with less" (`C15_amounts_general`, last two parts).

**Remainder**: after an accepted distribution the contract keeps, of every selected denom, exactly
`balance mod total_weight` (< total weight); unselected denoms are untouched; the total paid of a denom is
`total_weight × floor(balance / total_weight) ≤ balance`. -/
theorem C15_remainder_partial {s s' : State} (hwf : SWF s) (hself : ∀ m ∈ s.group.members, 0 < m.2 → m.1 ≠ s.self)
    {sender : Addr} {funds : List Coin} {denoms : Option (List Denom)} {order : List Denom} {msgs : List Pay}
    (h : distribute s sender funds denoms order = .ok (s', msgs)) :
    ∃ b1, attachFunds s.bank sender s.self funds = some b1 ∧ 0 < s.group.total ∧
      (∀ d, selected denoms d →
        bal s'.bank s.self d = bal b1 s.self d % s.group.total ∧ bal s'.bank s.self d < s.group.total ∧
        sumDen d msgs = s.group.total * (bal b1 s.self d / s.group.total) ∧ sumDen d msgs ≤ bal b1 s.self d) ∧
      (∀ d, ¬ selected denoms d → bal s'.bank s.self d = bal b1 s.self d ∧ sumDen d msgs = 0) := by
  obtain ⟨b1, hb1, hm, he, _⟩ := distribute_ok h
  have hT : 0 < s.group.total := Nat.pos_of_ne_zero (distributeMsgs_ok hm).2.1
  have hex := (distribute_exact (s := { s with bank := b1 }) hwf hself hm he).1
  -- the contract's balance drops by exactly the per-denom total of the messages
  have hns : ∀ p ∈ msgs, p.to ≠ s.self := by
    obtain ⟨funds', _, _, hmem⟩ := C15_msgs_exact hm
    intro p hp
    obtain ⟨m, hmm, c, _, hpos, _, rfl⟩ := (hmem p).mp hp
    exact hself m hmm hpos
  have hacc := (execPays_noself hns he).1
  refine ⟨b1, hb1, hT, fun d hsel => ?_, fun d hsel => ?_⟩
  · have e1 := hex d; simp only [hsel, if_true] at e1
    have e2 := hacc d
    have := C15_bound_arith (bal b1 s.self d) s.group.total hT
    refine ⟨e1, by rw [e1]; exact this.2.2, ?_, by omega⟩
    have := Nat.div_add_mod (bal b1 s.self d) s.group.total
    omega
  · have e1 := hex d; simp only [hsel, if_false] at e1
    have e2 := hacc d
    exact ⟨e1, by omega⟩

/-- **Never more than is held**, without any hypothesis about who is a member: the HEAD message is covered by the
contract's balance at the moment it executes (the bank refuses it otherwise and the transaction aborts) — the statement
for EVERY message of the list, each against the bank as it is when that message executes, is `C15_every_msg_covered`
right below — and when the contract is not itself a recipient the per-denom total of all messages is covered by the
balance it started with. -/
theorem C15_never_more_than_held {b b' : Bank} {self : Addr} {msgs : List Pay} (he : execPays b self msgs = some b') :
    (∀ p ps, msgs = p :: ps → p.amount ≤ bal b self p.denom) ∧
    ((∀ p ∈ msgs, p.to ≠ self) → ∀ d, sumDen d msgs ≤ bal b self d ∧ bal b' self d + sumDen d msgs = bal b self d) := by
  refine ⟨fun p ps hps => ?_, fun hns d => ?_⟩
  · subst hps
    simp only [execPays] at he
    split at he
    · simp at he
    · next b1 hd => exact (debit_some hd).1
  · have := (execPays_noself hns he).1 d; omega

/-- **Never more than is held, every message** (added by the round-4 statement audit): if the bank executed the whole
list, then EACH message `p` — wherever it stands, `msgs = pre ++ p :: post` — was covered by the contract's balance in
the bank `b1` reached after the messages before it (`pre`), i.e. at the moment it executed. No hypothesis about who is
a member or recipient. -/
theorem C15_every_msg_covered {self : Addr} {msgs : List Pay} {b b' : Bank} (he : execPays b self msgs = some b') :
    ∀ pre p post, msgs = pre ++ p :: post →
      ∃ b1, execPays b self pre = some b1 ∧ p.amount ≤ bal b1 self p.denom := by
  induction msgs generalizing b with
  | nil => intro pre p post h; simp at h
  | cons q qs ih =>
    intro pre p post h
    cases hd : debit b self q.denom q.amount with
    | none => simp [execPays, hd] at he
    | some bq =>
      simp only [execPays, hd] at he
      cases pre with
      | nil =>
        simp only [List.nil_append, List.cons.injEq] at h
        obtain ⟨rfl, _⟩ := h
        exact ⟨b, rfl, (debit_some hd).1⟩
      | cons r pre' =>
        simp only [List.cons_append, List.cons.injEq] at h
        obtain ⟨rfl, h2⟩ := h
        obtain ⟨b1, h1, hle⟩ := ih he pre' p post h2
        exact ⟨b1, by simp only [execPays, hd]; exact h1, hle⟩

/-! ## "It is refused when the caller is not entitled, the group has no weight, no or too many members (more than
25), or there is nothing to distribute" — and a refused call changes nothing -/

/-- a refused `Distribute` leaves the whole state (balances, group, admins) unchanged -/
theorem C15_refused_unchanged {s : State} {sender : Addr} {funds : List Coin} {denoms : Option (List Denom)} {order : List Denom}
    (h : ∃ e, distribute s sender funds denoms order = .error e) :
    step' s (.distribute sender funds denoms order) = s := by
  obtain ⟨e, he⟩ := h
  simp [step', step, he]

theorem C15_refused_of_msgs {s : State} {sender : Addr} {funds : List Coin} {denoms : Option (List Denom)} {order : List Denom}
    (h : ∀ b1, attachFunds s.bank sender s.self funds = some b1 → ∀ msgs, distributeMsgs { s with bank := b1 } sender denoms order ≠ .ok msgs) :
    ∃ e, distribute s sender funds denoms order = .error e := by
  apply not_ok_error
  rintro ⟨s', msgs⟩ hok
  obtain ⟨b1, hb1, hm, _, _⟩ := distribute_ok hok
  exact h b1 hb1 msgs hm

/-- entitlement is exactly: with an admin set, the admin and nobody else (not even members); with no admin, the
members of the group (any weight, including 0) -/
theorem C15_entitled_iff (admin : Option Addr) (g : Group) (sender : Addr) :
    canDistribute admin g sender = true ↔
      match admin with
      | some a => a = sender
      | none => ∃ w, (sender, w) ∈ g.members :=
  canDistribute_iff admin g sender

theorem C15_refused_not_entitled {s : State} {sender : Addr} (funds : List Coin) (denoms : Option (List Denom)) (order : List Denom)
    (h : match s.admin with
         | some a => a ≠ sender
         | none => ∀ w, (sender, w) ∉ s.group.members) :
    ∃ e, distribute s sender funds denoms order = .error e := by
  apply C15_refused_of_msgs
  intro b1 _ msgs hm
  have hc := (distributeMsgs_ok hm).1
  rw [canDistribute_iff] at hc
  simp only at hc
  cases ha : s.admin with
  | some a => rw [ha] at h hc; exact h hc
  | none => rw [ha] at h hc; obtain ⟨w, hw⟩ := hc; exact h w hw

theorem C15_refused_no_weight {s : State} (sender : Addr) (funds : List Coin) (denoms : Option (List Denom)) (order : List Denom)
    (h : s.group.total = 0) : ∃ e, distribute s sender funds denoms order = .error e := by
  apply C15_refused_of_msgs
  intro b1 _ msgs hm
  exact (distributeMsgs_ok hm).2.1 h

theorem C15_refused_no_members {s : State} (sender : Addr) (funds : List Coin) (denoms : Option (List Denom)) (order : List Denom)
    (h : s.group.members = []) : ∃ e, distribute s sender funds denoms order = .error e := by
  apply C15_refused_of_msgs
  intro b1 _ msgs hm
  have := (distributeMsgs_ok hm).2.2.1
  have hl := listed_length_le s.group
  rw [h] at hl
  simp at hl
  exact this (by simpa using hl)

/-- "too many members (more than 25)" — any number above 25, also above the page size of 30 -/
theorem C15_refused_too_many {s : State} (sender : Addr) (funds : List Coin) (denoms : Option (List Denom)) (order : List Denom)
    (h : 25 < s.group.members.length) : ∃ e, distribute s sender funds denoms order = .error e := by
  apply C15_refused_of_msgs
  intro b1 _ msgs hm
  have h1 := (distributeMsgs_ok hm).2.2.2.1
  have h25 : Gen.sg_splits_MAX_GROUP_SIZE = 25 := by decide
  have : (listed s.group).length = min 30 s.group.members.length := by rw [listed_eq, List.length_take]
  simp only [] at h1
  omega

/-- "nothing to distribute": no selected denom reaches the total weight (in particular: empty list, unknown denoms,
zero balances, or only the remainders of an earlier distribution are left) -/
theorem C15_refused_nothing {s : State} (sender : Addr) (funds : List Coin) (denoms : Option (List Denom)) (order : List Denom)
    (h : ∀ b1, attachFunds s.bank sender s.self funds = some b1 → ∀ d, selected denoms d → bal b1 s.self d < s.group.total) :
    ∃ e, distribute s sender funds denoms order = .error e := by
  apply C15_refused_of_msgs
  intro b1 hb1 msgs hm
  obtain ⟨funds', _, hfunds, hmem⟩ := C15_msgs_exact hm
  have hne := (distributeMsgs_ok hm).2.2.2.2
  obtain ⟨_, _, _, _, hmne⟩ := hne
  obtain ⟨p, hp⟩ := List.exists_mem_of_ne_nil _ hmne
  obtain ⟨m, _, c, hc, _, hq, _⟩ := (hmem p).mp hp
  obtain ⟨hsel, hamt, _⟩ := hfunds c hc
  have := h b1 hb1 c.denom hsel
  simp only at hamt this
  rw [← hamt] at this
  rw [Nat.div_eq_of_lt this] at hq
  omega

/-- the attached funds are not covered ⇒ refused -/
theorem C15_refused_uncovered_funds {s : State} (sender : Addr) (funds : List Coin) (denoms : Option (List Denom)) (order : List Denom)
    (h : attachFunds s.bank sender s.self funds = none) : ∃ e, distribute s sender funds denoms order = .error e := by
  apply C15_refused_of_msgs
  intro b1 hb1; rw [h] at hb1; simp at hb1

/-- FULL CLAUSE: the refusal conditions of the property text are the ONLY ones. False as it stands: a denom listed twice
is refused by the bank (`C15_duplicate_denom_refused_partial`), and with the contract as a paid member the outcome depends on
the payment order. PROVED (partial), under these two side conditions:

**Conversely it is accepted** (no funds attached): entitled caller, total weight > 0, 1..25 members, some selected
denom with balance ≥ total weight, the contract not a paid member of its own group and no denom listed twice. So the
refusal conditions above are, up to these two side conditions, the only ones. -/
theorem C15_accepted_partial {s : State} (hwf : SWF s) (hself : ∀ m ∈ s.group.members, 0 < m.2 → m.1 ≠ s.self)
    {sender : Addr} {denoms : Option (List Denom)} {order : List Denom}
    (hc : canDistribute s.admin s.group sender = true) (hT : s.group.total ≠ 0)
    (hlen : s.group.members.length ≤ 25)
    (hw : denoms = none → validOrder s.bank s.self order = true)
    (hdup : ∀ l, denoms = some l → l.Nodup)
    (hd : ∃ d, selected denoms d ∧ s.group.total ≤ bal s.bank s.self d) :
    ∃ s' msgs, distribute s sender [] denoms order = .ok (s', msgs) := by
  have h25 : Gen.sg_splits_MAX_GROUP_SIZE = 25 := by decide
  obtain ⟨funds, hf, hm⟩ := distributeMsgs_accepts hwf hc hT (by rw [h25]; exact hlen) hw hd
  obtain ⟨b', he⟩ := execPays_accepts hwf hself hf hdup
  refine ⟨{ s with bank := b' }, payMsgs s.group.members funds s.group.total, ?_⟩
  unfold distribute
  simp only [attachFunds, List.isEmpty_nil, if_true]
  have : ({ s with bank := s.bank } : State) = s := rfl
  rw [this, hm]
  simp only [he]

/-! ## "repeated distributions after further deposits or group changes keep the same exactness, and the contract
never creates or loses coins" — all histories -/

/-- the group invariant holds after instantiation … -/
theorem C15_init_wf {mode : Mode} {self gaddr : Addr} {admin gadmin : Option Addr} {ms : List (Addr × Nat)} {s : State}
    (h : instantiate mode self gaddr admin gadmin ms = .ok s) : SWF s :=
  (instantiate_wf h).1

/-- … and after every history of mints, transfers/deposits, member updates, admin changes and distributions
(by arbitrary senders with arbitrary arguments; failed operations change nothing) -/
theorem C15_history_wf {s : State} (h : SWF s) (ops : List Op) : SWF (run s ops) :=
  run_wf ops h

/-- FULL CLAUSE: "repeated distributions after further deposits or group changes keep the same exactness" — for every
history. PROVED (partial): in every reachable state in which the contract is not a paid member of its own group
(a history CAN reach the others: `UpdateMembers` adding the contract's address). The side-condition-free version
is `C15_history_amounts_general`.

**Exactness after any history**: whatever happened before, an accepted distribution pays every account
`weight × floor(balance / total_weight)` of each selected denom (weights as they are NOW) and the contract keeps
`balance mod total_weight`. -/
theorem C15_history_exact_partial {s0 : State} (h0 : SWF s0) (ops : List Op)
    {sender : Addr} {funds : List Coin} {denoms : Option (List Denom)} {order : List Denom} {s' : State} {msgs : List Pay}
    (hself : ∀ m ∈ (run s0 ops).group.members, 0 < m.2 → m.1 ≠ s0.self)
    (h : distribute (run s0 ops) sender funds denoms order = .ok (s', msgs)) :
    let s := run s0 ops
    ∃ b1, attachFunds s.bank sender s.self funds = some b1 ∧
      (∀ a d, a ≠ s.self → bal s'.bank a d = bal b1 a d +
        (if selected denoms d then (lookupM s.group.members a).getD 0 * (bal b1 s.self d / s.group.total) else 0)) ∧
      (∀ d, selected denoms d → bal s'.bank s.self d = bal b1 s.self d % s.group.total ∧ bal s'.bank s.self d < s.group.total) ∧
      (∀ d, ¬ selected denoms d → bal s'.bank s.self d = bal b1 s.self d) := by
  intro s
  have hwf : SWF s := run_wf ops h0
  have hself' : ∀ m ∈ s.group.members, 0 < m.2 → m.1 ≠ s.self := by
    intro m hm hp; rw [show s.self = s0.self from run_self s0 ops]; exact hself m hm hp
  obtain ⟨b1, hb1, hall⟩ := C15_amounts_partial hwf hself' h
  obtain ⟨b1', hb1', _, hsel, hnsel⟩ := C15_remainder_partial hwf hself' h
  rw [hb1] at hb1'; simp at hb1'; subst hb1'
  exact ⟨b1, hb1, hall, fun d hd => ⟨(hsel d hd).1, (hsel d hd).2.1⟩, fun d hd => (hnsel d hd).1⟩

/-- **No coins are created or lost**: over every history the supply of every denom (summed over ALL accounts) changes
only by what the environment minted; deposits, member changes, admin changes and distributions — accepted or
refused, with or without the contract being its own member — conserve it. -/
theorem C15_history_supply (s : State) (ops : List Op) (d : Denom) :
    supply (run s ops).bank d = supply s.bank d + (ops.map (mintedOp d)).sum :=
  supply_run s ops d

/-- in particular one distribution transaction (accepted or not) conserves every supply -/
theorem C15_distribute_conserves (s : State) (sender : Addr) (funds : List Coin) (denoms : Option (List Denom))
    (order : List Denom) (d : Denom) :
    supply (step' s (.distribute sender funds denoms order)).bank d = supply s.bank d := by
  rw [supply_step']; rfl

/-- (partial: `hself`; the message total includes what the contract addresses to itself, which is why the side
condition is needed — the net version without it is `C15_history_amounts_general`)
and in every reachable state the contract's payments are covered: an accepted distribution after any history
takes out of the contract exactly what it sends, denom by denom, never more than it holds -/
theorem C15_history_no_overdraft_partial {s0 : State} (h0 : SWF s0) (ops : List Op)
    {sender : Addr} {funds : List Coin} {denoms : Option (List Denom)} {order : List Denom} {s' : State} {msgs : List Pay}
    (hself : ∀ m ∈ (run s0 ops).group.members, 0 < m.2 → m.1 ≠ s0.self)
    (h : distribute (run s0 ops) sender funds denoms order = .ok (s', msgs)) :
    ∃ b1, attachFunds (run s0 ops).bank sender s0.self funds = some b1 ∧
      ∀ d, sumDen d msgs ≤ bal b1 s0.self d ∧ bal s'.bank s0.self d + sumDen d msgs = bal b1 s0.self d := by
  have hwf : SWF (run s0 ops) := run_wf ops h0
  have hs : (run s0 ops).self = s0.self := run_self s0 ops
  obtain ⟨b1, hb1, hm, he, _⟩ := distribute_ok h
  rw [hs] at hb1 he
  have hns : ∀ p ∈ msgs, p.to ≠ s0.self := by
    obtain ⟨funds', _, _, hmem⟩ := C15_msgs_exact hm
    intro p hp
    obtain ⟨m, hmm, c, _, hpos, _, rfl⟩ := (hmem p).mp hp
    exact hself m hmm hpos
  exact ⟨b1, hb1, (C15_never_more_than_held he).2 hns⟩

/-- PARTIAL (`hself`: the contract is not a weighted member of its own group). Unconditionally "a denom listed twice is
refused" does NOT hold: `C15_exact_amount_self_first_counterexample` is exactly a duplicated denom that is not refused
(the contract pays itself first). Proved:
a denom listed twice whose balance reaches the total weight makes the bank refuse the call (the second round is
not covered) when the contract is not a weighted member of its own group. -/
theorem C15_duplicate_denom_refused_partial {s : State} (hwf : SWF s) (hself : ∀ m ∈ s.group.members, 0 < m.2 → m.1 ≠ s.self)
    (sender : Addr) {l : List Denom} (order : List Denom) {d : Denom}
    (hdup : 2 ≤ l.count d) (hbal : s.group.total ≤ bal s.bank s.self d) :
    ∃ e, distribute s sender [] (some l) order = .error e := by
  apply not_ok_error
  rintro ⟨s', msgs⟩ hok
  obtain ⟨b1, hb1, hm, he, _⟩ := distribute_ok hok
  simp [attachFunds] at hb1; subst hb1
  rw [show ({ s with bank := s.bank } : State) = s from rfl] at hm
  have hT : 0 < s.group.total := Nat.pos_of_ne_zero (distributeMsgs_ok hm).2.1
  obtain ⟨b1', hb1', _, hsel, _⟩ := C15_remainder_partial hwf hself hok
  simp [attachFunds] at hb1'; subst hb1'
  have hd : selected (some l) d := by
    show d ∈ l
    exact List.count_pos_iff.mp (by omega)
  obtain ⟨_, _, hsum, _⟩ := hsel d hd
  -- but the messages of denom d add up to count × T × q
  obtain ⟨_, _, _, hlen, funds, hf, _, hmsgs, _⟩ := distributeMsgs_ok hm
  rw [listed_all hlen] at hmsgs
  have hfunds : funds = (l.filter (fun x => bal s.bank s.self x != 0)).map (fun x => (⟨x, bal s.bank s.self x⟩ : Coin)) := by
    unfold selectFunds at hf; simp at hf; exact hf.symm
  have hcount : (l.filter (fun x => bal s.bank s.self x != 0)).count d = l.count d := by
    apply List.count_filter; simp; omega
  rw [hmsgs, sumDen_payMsgs, hfunds, qsum_map, hcount, ← hwf.2] at hsum
  have hq : 0 < bal s.bank s.self d / s.group.total := Nat.div_pos hbal hT
  dsimp only at hsum
  have := Nat.eq_of_mul_eq_mul_left hT hsum
  have h2 : 2 * (bal s.bank s.self d / s.group.total) ≤ l.count d * (bal s.bank s.self d / s.group.total) :=
    Nat.mul_le_mul_right _ hdup
  omega

/-- alias of `C15_duplicate_denom_refused_partial` (kept because other modules refer to it) -/
theorem C15_duplicate_denom_refused {s : State} (hwf : SWF s) (hself : ∀ m ∈ s.group.members, 0 < m.2 → m.1 ≠ s.self)
    (sender : Addr) {l : List Denom} (order : List Denom) {d : Denom}
    (hdup : 2 ≤ l.count d) (hbal : s.group.total ≤ bal s.bank s.self d) :
    ∃ e, distribute s sender [] (some l) order = .error e :=
  C15_duplicate_denom_refused_partial hwf hself sender order hdup hbal

/-! ## the side-condition-free history statements, and "nothing but a distribution takes coins out of the contract" -/

/-- **Exactness after any history, no side condition**: in every reachable state an accepted distribution gives every
other account `weight × occurrences × floor(balance / total_weight)` (weights as they are NOW), takes exactly that
out of the contract, and never leaves the contract with more than it held. -/
theorem C15_history_amounts_general {s0 : State} (h0 : SWF s0) (ops : List Op)
    {sender : Addr} {funds : List Coin} {denoms : Option (List Denom)} {order : List Denom} {s' : State} {msgs : List Pay}
    (h : distribute (run s0 ops) sender funds denoms order = .ok (s', msgs)) :
    let s := run s0 ops
    ∃ b1, attachFunds s.bank sender s.self funds = some b1 ∧
      (∀ a d, a ≠ s.self → bal s'.bank a d = bal b1 a d +
        (lookupM s.group.members a).getD 0 * (occ denoms d * (bal b1 s.self d / s.group.total))) ∧
      (∀ d, bal s'.bank s.self d + (s.group.total - (lookupM s.group.members s.self).getD 0) *
        (occ denoms d * (bal b1 s.self d / s.group.total)) = bal b1 s.self d) ∧
      (∀ d, bal s'.bank s.self d ≤ bal b1 s.self d) :=
  C15_amounts_general (run_wf ops h0) h

/-- operations that can take coins out of the splits contract: a `Distribute`, and a bank transfer signed by the
contract's own address (which no transaction can carry: a contract has no key) -/
def paysOut (self : Addr) : Op → Bool
  | .distribute _ _ _ _ => true
  | .send src _ _ => src == self
  | _ => false

/-- group changes, admin changes (both contracts), any other execute message, and `migrate` do not touch ANY balance -/
theorem C15_bank_frame_other_ops (s : State) (op : Op)
    (h : match op with
         | .updateMembers _ _ _ | .groupAdmin _ _ | .splitsAdmin _ _ | .raw _ _ | .migrate _ => True
         | _ => False) :
    (step' s op).bank = s.bank := by
  cases op with
  | mint _ _ => exact absurd h (by simp)
  | send _ _ _ => exact absurd h (by simp)
  | distribute _ _ _ _ => exact absurd h (by simp)
  | updateMembers sender add remove => unfold step'; simp only [step]; cases s.group.updateMembers sender add remove <;> rfl
  | groupAdmin sender new => unfold step'; simp only [step]; cases updateAdminOf s.group.admin sender new <;> rfl
  | splitsAdmin sender new => unfold step'; simp only [step]; cases updateAdminOf s.admin sender new <;> rfl
  | raw sender funds => rfl
  | migrate sender => rfl

/-- **"never loses coins", mechanism level**: one transaction that is neither a `Distribute` nor a transfer signed by the
contract never lowers any balance of the contract -/
theorem C15_only_distribute_pays_out (s : State) (op : Op) (d : Denom) (h : paysOut s.self op = false) :
    bal s.bank s.self d ≤ bal (step' s op).bank s.self d := by
  unfold step'
  split
  · next s' hs =>
    cases op with
    | mint to coins =>
      simp only [step] at hs; split at hs
      · simp at hs
      · next b hb => simp at hs; subst hs; exact mintCoins_ge hb _ _
    | send src dst coins =>
      simp only [step] at hs; split at hs
      · simp at hs
      · next b hb =>
        simp at hs; subst hs
        have hne : s.self ≠ src := by
          intro he; simp [paysOut, he] at h
        exact sendCoins_other_ge hb _ _ hne
    | updateMembers sender add remove =>
      simp only [step] at hs; split at hs
      · simp at hs
      · simp at hs; subst hs; exact Nat.le_refl _
    | groupAdmin sender new =>
      simp only [step] at hs; split at hs
      · simp at hs
      · simp at hs; subst hs; exact Nat.le_refl _
    | splitsAdmin sender new =>
      simp only [step] at hs; split at hs
      · simp at hs
      · simp at hs; subst hs; exact Nat.le_refl _
    | distribute sender funds denoms order => simp [paysOut] at h
    | raw sender funds => simp [step] at hs
    | migrate sender => simp [step] at hs; subst hs; exact Nat.le_refl _
  · exact Nat.le_refl _

/-- … and over every history without such operations the contract's balance of every denom only grows -/
theorem C15_history_only_distribute_pays_out (s : State) (ops : List Op) (d : Denom)
    (h : ∀ op ∈ ops, paysOut s.self op = false) :
    bal s.bank s.self d ≤ bal (run s ops).bank s.self d := by
  induction ops generalizing s with
  | nil => exact Nat.le_refl _
  | cons op ops ih =>
    have h1 := C15_only_distribute_pays_out s op d (h op (by simp))
    have h2 := ih (step' s op) (by
      intro o ho; rw [step'_self]; exact h o (by simp [ho]))
    rw [step'_self] at h2
    exact Nat.le_trans h1 h2

/-- (definitional, see the header) an execute message other than `UpdateAdmin` / `Distribute` is refused, whoever sends
it and whatever is attached; (definitional) `migrate` changes nothing the model has -/
theorem C15_raw_refused (s : State) (sender : Addr) (funds : List Coin) : step' s (.raw sender funds) = s := rfl

theorem C15_migrate_noop (s : State) (sender : Addr) : step' s (.migrate sender) = s := rfl

/-! ## non-vacuity and the documented corner -/

/-- three members (weights 1, 2, 0), no admin, 100 of denom 0 and 5 of denom 1 -/
def exC15 : State := ⟨1001, 1000, none, ⟨some 6, [(10, 1), (11, 2), (12, 0)], 3⟩, [((1001, 0), 100), ((1001, 1), 5)]⟩

example : SWF exC15 ∧ ∀ m ∈ exC15.group.members, 0 < m.2 → m.1 ≠ exC15.self := by
  refine ⟨⟨by unfold Sorted; decide, by decide⟩, by decide⟩

/-- the zero-weight member 12 may call; 10 gets 1×33 and 1×1, 11 gets 2×33 and 2×1, 12 nothing; 1 and 2 stay -/
example :
    (match distribute exC15 12 [] none [0, 1] with
     | .ok (s', msgs) => (msgs, bal s'.bank 10 0, bal s'.bank 11 0, bal s'.bank 12 0, bal s'.bank 1001 0, bal s'.bank 1001 1)
     | .error _ => ([], 0, 0, 0, 0, 0)) =
    ([⟨10, 0, 33⟩, ⟨10, 1, 1⟩, ⟨11, 0, 66⟩, ⟨11, 1, 2⟩], 33, 66, 0, 1, 2) := by decide

/-- hypotheses of `C15_accepted_partial` are satisfiable -/
example : ∃ s' msgs, distribute exC15 12 [] (some [0]) [] = .ok (s', msgs) :=
  C15_accepted_partial (s := exC15) ⟨by unfold Sorted; decide, by decide⟩ (by decide) (by decide) (by decide) (by decide)
    (by intro h; cases h) (by intro l h; cases h; decide) ⟨0, by decide, by decide⟩

/-- a stranger is refused and nothing changes -/
example : step' exC15 (.distribute 7 [] none [0, 1]) = exC15 :=
  C15_refused_unchanged (C15_refused_not_entitled [] none [0, 1] (by
    show ∀ w, (7, w) ∉ exC15.group.members
    intro w hw; simp [exC15] at hw))

/-! ## the two literal clauses that fail in the DEGENERATE SELF-MEMBER configuration (contract = weighted member of its
own group; replayed on the real contracts: `corpus/C15/`). Recorded as observations (DESIGN 13.3), not findings: the
non-degenerate reading (`hself`, the `…_partial` theorems) holds. -/

/-- the group of `corpus/C15/self-member-remainder.json`: member 10 (weight 1) and the splits contract itself (1001,
weight 9); admin 5; the contract holds 100 of denom 0 -/
def exSelfMember : State := ⟨1001, 1000, some 5, ⟨some 6, [(10, 1), (1001, 9)], 10⟩, [((1001, 0), 100)]⟩

/-- **"the undistributed remainder of each denom is smaller than the total weight" is false in the degenerate
self-member configuration** (observation, DESIGN 13.3, not a finding; the non-degenerate reading `C15_remainder_partial`
holds): the group admin made the splits contract a weighted member of its own group (cw4-group accepts any address); after an
accepted distribution of 100 with total weight 10 the contract still holds 90 ≥ 10 (its "own share" 9 × 10 never
leaves). The same call can be repeated for ever: 90 → 81 → … -/
theorem C15_remainder_self_member_counterexample :
    ¬ ∀ (s s' : State) (sender : Addr) (funds : List Coin) (denoms : Option (List Denom)) (order : List Denom)
        (msgs : List Pay), SWF s → distribute s sender funds denoms order = .ok (s', msgs) →
        ∀ d, selected denoms d → bal s'.bank s.self d < s.group.total := by
  intro h
  have hwf : SWF exSelfMember := ⟨by unfold Sorted; decide, by decide⟩
  have hd : distribute exSelfMember 5 [] none [0] =
      .ok (⟨1001, 1000, some 5, ⟨some 6, [(10, 1), (1001, 9)], 10⟩, [((1001, 0), 90), ((10, 0), 10)]⟩,
           [⟨10, 0, 10⟩, ⟨1001, 0, 90⟩]) := by rfl
  have := h _ _ _ _ _ _ _ hwf hd 0 trivial
  revert this; decide

/-- the group of `corpus/C15/self-member-first-double-pay.json` (`Cw4Instantiate`: splits = contract0 = 1000 sorts before
the group contract 1001, which is the other member) -/
def exSelfFirst : State := ⟨1000, 1001, some 5, ⟨some 6, [(1000, 9), (1001, 1)], 10⟩, [((1000, 0), 100)]⟩

/-- **"pays each group member weight × floor(balance / total_weight) of every distributed denom" is false in the
degenerate self-member configuration with a duplicated denom** (observation, DESIGN 13.3, not a finding; the
non-degenerate reading `C15_amounts_partial` holds): the contract is a weighted member of its own group and is paid BEFORE the others (address order); with the
denom listed twice its payments to itself are no-ops, so the bank does not stop the duplicate and member 1001
(weight 1 of 10, balance 100) receives 2 × 10 instead of 10. Nobody outside the group loses coins (supply is conserved,
the surplus comes out of the contract's own share). With `hself`, or with the contract paid last, the duplicate is
always refused by the bank (`C15_duplicate_denom_refused_partial`). -/
theorem C15_exact_amount_self_first_counterexample :
    ¬ ∀ (s s' : State) (sender : Addr) (funds : List Coin) (denoms : Option (List Denom)) (order : List Denom)
        (msgs : List Pay), SWF s → distribute s sender funds denoms order = .ok (s', msgs) →
        ∀ a w, (a, w) ∈ s.group.members → a ≠ s.self → ∀ d, selected denoms d →
          bal s'.bank a d = bal s.bank a d + w * (bal s.bank s.self d / s.group.total) := by
  intro h
  have hwf : SWF exSelfFirst := ⟨by unfold Sorted; decide, by decide⟩
  have hd : distribute exSelfFirst 5 [] (some [0, 0]) [] =
      .ok (⟨1000, 1001, some 5, ⟨some 6, [(1000, 9), (1001, 1)], 10⟩, [((1000, 0), 80), ((1001, 0), 20)]⟩,
           [⟨1000, 0, 90⟩, ⟨1000, 0, 90⟩, ⟨1001, 0, 10⟩, ⟨1001, 0, 10⟩]) := by rfl
  have := h _ _ _ _ _ _ _ hwf hd 1001 1 (by decide) (by decide) 0 (by decide)
  revert this; decide

/-- what `C15_amounts_general` says about the second counter-example: 1 × 2 occurrences × floor(100/10) = 20 -/
example : occ (some [0, 0]) 0 = 2 ∧ (lookupM exSelfFirst.group.members 1001).getD 0 * (occ (some [0, 0]) 0 * (100 / 10)) = 20 := by decide

/-- hypotheses of the frame theorems are satisfiable: an `UpdateMembers` by the group admin, a raw message, a migrate -/
example : paysOut exC15.self (.updateMembers 6 [(13, 5)] []) = false ∧ paysOut exC15.self (.raw 7 [⟨0, 5⟩]) = false ∧
    (step' exC15 (.updateMembers 6 [(13, 5)] [])).group.total = 8 := by decide

end LP
