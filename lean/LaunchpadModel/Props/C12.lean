import LaunchpadModel.Model.WlSchedule
/-!
# C12 — Whitelist schedules stay well-formed and cannot be bent once started

"A whitelist's start time is never after its end time and is never before the genesis mint time; it is
created only with a start in the future. Once a whitelist has started its start time cannot change, its end
time can only be brought forward (never extended, never before the start), and members can no longer be
removed. Its activity flags are consistent at every instant: active exactly when start <= now < end, started
when now >= start, ended when now >= end, and the config query reports the same activity."

Quantifier: all sequences of start/end/per-address-limit updates and member removals at arbitrary times
including exact boundary instants, for the plain, flex and Merkle whitelists.

Every theorem is over an arbitrary `v : Variant` (plain / flex / Merkle), arbitrary senders, arbitrary
arguments, arbitrary block times and — for the history statements — arbitrary `List Op` (which also contains
admin-list changes, freezes and the environment's messages: `AddMembers`, `IncreaseMemberLimit`,
`UpdatePerAddressLimit`, `migrate`, and any message variant discovered in the crates' JSON schemas), by induction.
`GENESIS` is `sg_utils::GENESIS_MINT_START_TIME`, regenerated from the source on every run.

What is proved here and what is only validated (round 3, be honest):
* proved for the model, for all inputs: well-formedness, creation, "once started" (start frozen, end only brought
  forward, `RemoveMembers` rejected), frame, flag monotonicity, non-admin histories.
* the **flags clause** (`C12_flags`) says that the four model expressions — written separately, one per Rust query —
  are the expressions the property names. That the Rust queries compute these expressions *on the stored schedule* is
  NOT derived: it is validated by the harness (monitors `query/*` compare every query answer with the schedule read
  from the contract's storage and the harness's own clock, at every line; plus model/implementation correspondence).
* "members can no longer be removed" is proved in the form "the `RemoveMembers` message is rejected" (membership is
  environment in this aspect model). That no *other* entry point removes a member after start is validated by the
  harness only (monitor `member-lost-after-start` over the harness's own member bookkeeping, under every message
  variant found in the crates' schemas and `migrate`).
* `envOk`, `present`, and the outcomes of the environment's messages are witnesses taken from the implementation.
-/
namespace LP
open LP.WlSchedule

/-- the schedule invariant: `genesis ≤ start ≤ end` -/
def WlSInv (s : State) : Prop := GENESIS ≤ s.start ∧ s.start ≤ s.end_

/-- "has started" as a proposition -/
def WlStarted (s : State) : Prop := s.start ≤ s.now

/-! ## Creation -/

/-- instantiate succeeds exactly when the non-schedule checks pass and
`start ≤ end`, `now < start`, `genesis ≤ start`; the created schedule is the requested one. -/
theorem C12_instantiate_iff (v : Variant) (now : Nat) (envOk : Bool) (m : InstMsg) (s : State) :
    instantiate v now envOk m = .ok s ↔
      (envOk = true ∧ m.start ≤ m.end_ ∧ now < m.start ∧ GENESIS ≤ m.start) ∧
      s = { now := now, start := m.start, end_ := m.end_, perAddr := (if v = .flex then 0 else m.perAddr),
            admins := m.admins, adminsMutable := m.adminsMutable } := by
  unfold instantiate
  by_cases h0 : envOk = true
  · by_cases h1 : m.start > m.end_
    · simp [h0, h1]; omega
    · by_cases h2 : now ≥ m.start
      · simp [h0, h1, h2]; omega
      · by_cases h3 : m.start < GENESIS
        · simp [h0, h1, h2, h3]; omega
        · simp only [h0, h1, h2, h3, Bool.not_true, Bool.false_eq_true, if_false, Except.ok.injEq]
          constructor
          · intro h; exact ⟨⟨trivial, by omega, by omega, by omega⟩, h.symm⟩
          · intro h; exact h.2.symm
  · simp [h0]

/-- "it is created only with a start in the future" -/
theorem C12_created_future (v : Variant) (now : Nat) (envOk : Bool) (m : InstMsg) (s : State)
    (h : instantiate v now envOk m = .ok s) : s.now = now ∧ now < s.start := by
  obtain ⟨⟨_, _, h2, _⟩, rfl⟩ := (C12_instantiate_iff v now envOk m s).1 h
  exact ⟨rfl, h2⟩

/-- a freshly created whitelist satisfies `genesis ≤ start ≤ end` and has not started -/
theorem C12_instantiate_wellformed (v : Variant) (now : Nat) (envOk : Bool) (m : InstMsg) (s : State)
    (h : instantiate v now envOk m = .ok s) : WlSInv s ∧ ¬ WlStarted s := by
  obtain ⟨⟨_, h1, h2, h3⟩, rfl⟩ := (C12_instantiate_iff v now envOk m s).1 h
  exact ⟨⟨h3, h1⟩, by unfold WlStarted; simp only []; omega⟩

/-- whatever the non-schedule checks say, a start that is not strictly in the future, is after the end, or is
before genesis is rejected (each of the three time checks is necessary) -/
theorem C12_instantiate_rejects (v : Variant) (now : Nat) (envOk : Bool) (m : InstMsg)
    (h : m.start ≤ now ∨ m.end_ < m.start ∨ m.start < GENESIS) :
    (instantiate v now envOk m).isOk = false := by
  cases hi : instantiate v now envOk m with
  | error e => rfl
  | ok s =>
    obtain ⟨⟨_, h1, h2, h3⟩, _⟩ := (C12_instantiate_iff v now envOk m s).1 hi
    omega

/-! ## Decision logic of the three gated messages (exact: accepted iff …, and what is written) -/

/-- `UpdateStartTime(t)` is accepted iff the sender is an admin, the whitelist has not started and `t ≤ end`;
it stores `max t genesis` and nothing else changes. -/
theorem C12_update_start_iff (v : Variant) (s s' : State) (a : Addr) (t : Nat) :
    step v s (.updateStart a t) = .ok s' ↔
      (isAdmin s a = true ∧ s.now < s.start ∧ t ≤ s.end_) ∧ s' = { s with start := max t GENESIS } := by
  have hmax : (if t < GENESIS then GENESIS else t) = max t GENESIS := by
    by_cases h : t < GENESIS
    · simp [h, Nat.max_eq_right (Nat.le_of_lt h)]
    · simp [h, Nat.max_eq_left (Nat.le_of_not_lt h)]
  unfold step
  by_cases ha : isAdmin s a = true
  · by_cases h1 : s.now ≥ s.start
    · simp [ha, h1]; omega
    · by_cases h2 : t > s.end_
      · simp [ha, h1, h2]; omega
      · simp only [ha, h1, h2, Bool.not_true, Bool.false_eq_true, if_false, Except.ok.injEq, hmax]
        constructor
        · intro h; exact ⟨⟨trivial, by omega, by omega⟩, h.symm⟩
        · intro h; exact h.2.symm
  · simp [ha]

/-- `UpdateEndTime(t)` is accepted iff the sender is an admin, `t ≥ start`, and — once started — `t ≤ end`;
it stores `t` and nothing else changes. -/
theorem C12_update_end_iff (v : Variant) (s s' : State) (a : Addr) (t : Nat) :
    step v s (.updateEnd a t) = .ok s' ↔
      (isAdmin s a = true ∧ s.start ≤ t ∧ (s.now < s.start ∨ t ≤ s.end_)) ∧ s' = { s with end_ := t } := by
  unfold step
  by_cases ha : isAdmin s a = true
  · by_cases h1 : (decide (s.now ≥ s.start) && decide (t > s.end_)) = true
    · simp only [ha, h1, Bool.not_true, Bool.false_eq_true, if_false, if_true, reduceCtorEq, false_iff]
      simp only [Bool.and_eq_true, decide_eq_true_eq] at h1
      omega
    · by_cases h2 : t < s.start
      · simp [ha, h1, h2]; omega
      · simp only [ha, h1, h2, Bool.not_true, Bool.false_eq_true, if_false, Except.ok.injEq]
        simp only [Bool.and_eq_true, decide_eq_true_eq] at h1
        constructor
        · intro h; exact ⟨⟨trivial, by omega, by omega⟩, h.symm⟩
        · intro h; exact h.2.symm
  · simp [ha]

/-- `RemoveMembers` is accepted iff the message exists (plain, flex), the sender is an admin, the whitelist has
not started, and (environment) every listed address is a member; the schedule state is untouched. -/
theorem C12_remove_iff (v : Variant) (s s' : State) (a : Addr) (present : Bool) :
    step v s (.removeMembers a present) = .ok s' ↔
      (v ≠ .merkle ∧ isAdmin s a = true ∧ s.now < s.start ∧ present = true) ∧ s' = s := by
  unfold step
  by_cases hv : v = .merkle
  · simp [hv]
  · by_cases ha : isAdmin s a = true
    · by_cases h1 : s.now ≥ s.start
      · simp [hv, ha, h1]; omega
      · cases present
        · simp [hv, ha, h1]
        · simp only [hv, ha, h1, Bool.not_true, Bool.false_eq_true, if_false, Except.ok.injEq, ne_eq,
            not_false_eq_true, true_and, and_true]
          constructor
          · intro h; exact ⟨by omega, h.symm⟩
          · intro h; exact h.2.symm
    · simp [hv, ha]

/-- a sender who is not on the admin list can change nothing: every signed message of the model is rejected
(`UpdatePerAddressLimit` and the other environment messages carry their outcome as a witness and are outside this
statement; C05 owns their gating) -/
theorem C12_nonadmin_rejected (v : Variant) (s : State) (a : Addr) (h : isAdmin s a = false) (op : Op)
    (hop : (∃ t, op = .updateStart a t) ∨ (∃ t, op = .updateEnd a t) ∨ (∃ p, op = .removeMembers a p) ∨
           (∃ l, op = .updateAdmins a l) ∨ op = .freeze a) :
    (step v s op).isOk = false := by
  rcases hop with ⟨t, rfl⟩ | ⟨t, rfl⟩ | ⟨p, rfl⟩ | ⟨l, rfl⟩ | rfl
  · simp [step, h, Except.isOk, Except.toBool]
  · simp [step, h, Except.isOk, Except.toBool]
  · by_cases hv : v = .merkle <;> simp [step, h, hv, Except.isOk, Except.toBool]
  · simp [step, canModify, h, Except.isOk, Except.toBool]
  · simp [step, canModify, h, Except.isOk, Except.toBool]

/-- frame: only `UpdateStartTime` / `UpdateEndTime` can change the schedule — per-address-limit updates,
admin-list changes, member removals and the environment's messages (`AddMembers`, `IncreaseMemberLimit`, `migrate`,
schema-discovered variants) leave `start` and `end` as they are
(and no message but the chain moves the clock) -/
theorem C12_frame (v : Variant) (s s' : State) (op : Op) (h : step v s op = .ok s')
    (hs : ∀ a t, op ≠ .updateStart a t) (he : ∀ a t, op ≠ .updateEnd a t) :
    s'.start = s.start ∧ s'.end_ = s.end_ ∧ ((∀ t, op ≠ .setTime t) → s'.now = s.now) := by
  cases op with
  | setTime t => simp [step] at h; subst h; simp
  | updateStart a t => exact absurd rfl (hs a t)
  | updateEnd a t => exact absurd rfl (he a t)
  | removeMembers a p =>
    obtain ⟨_, rfl⟩ := (C12_remove_iff v s s' a p).1 h; simp
  | updatePerAddr n ok =>
    cases ok <;> simp [step] at h
    subst h; simp
  | updateAdmins a l =>
    unfold step at h
    by_cases h1 : canModify s a = true
    · simp [h1] at h; subst h; simp
    · simp [h1] at h
  | freeze a =>
    unfold step at h
    by_cases h1 : canModify s a = true
    · simp [h1] at h; subst h; simp
    · simp [h1] at h
  | env ok =>
    cases ok <;> simp [step] at h
    subst h; simp

/-- the three near-copies do not diverge on the schedule: clock, `UpdateStartTime` and `UpdateEndTime` behave
identically in the plain, flex and Merkle whitelist (only which *other* messages exist differs) -/
theorem C12_variant_independent (v w : Variant) (s : State) (op : Op)
    (h : (∃ t, op = .setTime t) ∨ (∃ a t, op = .updateStart a t) ∨ (∃ a t, op = .updateEnd a t) ∨
         (∃ a l, op = .updateAdmins a l) ∨ (∃ a, op = .freeze a)) :
    step v s op = step w s op := by
  rcases h with ⟨t, rfl⟩ | ⟨a, t, rfl⟩ | ⟨a, t, rfl⟩ | ⟨a, l, rfl⟩ | ⟨a, rfl⟩ <;> rfl

/-- … and where the plain and flex whitelists both have `RemoveMembers`, its gate is the same -/
theorem C12_remove_plain_flex (s : State) (a : Addr) (p : Bool) :
    step .plain s (.removeMembers a p) = step .flex s (.removeMembers a p) := by
  simp [step]

/-! ## Well-formedness over all histories -/

/-- one (successful) message preserves `genesis ≤ start ≤ end` -/
theorem C12_step_wellformed (v : Variant) (s s' : State) (op : Op) (hi : WlSInv s)
    (h : step v s op = .ok s') : WlSInv s' := by
  unfold WlSInv at *
  by_cases hs : ∃ a t, op = .updateStart a t
  · obtain ⟨a, t, rfl⟩ := hs
    obtain ⟨⟨_, _, h3⟩, rfl⟩ := (C12_update_start_iff v s s' a t).1 h
    simp only []
    refine ⟨Nat.le_max_right _ _, Nat.max_le.2 ⟨h3, by omega⟩⟩
  · by_cases he : ∃ a t, op = .updateEnd a t
    · obtain ⟨a, t, rfl⟩ := he
      obtain ⟨⟨_, h2, _⟩, rfl⟩ := (C12_update_end_iff v s s' a t).1 h
      simp only []; omega
    · have := C12_frame v s s' op h (fun a t e => hs ⟨a, t, e⟩) (fun a t e => he ⟨a, t, e⟩)
      omega

theorem C12_step'_wellformed (v : Variant) (s : State) (op : Op) (hi : WlSInv s) : WlSInv (step' v s op) := by
  unfold step'
  cases h : step v s op with
  | error e => exact hi
  | ok s' => exact C12_step_wellformed v s s' op hi h

/-- generic lifting of a `step'`-invariant to all operation lists -/
theorem wl_run_induction (v : Variant) (P : State → Prop) (hstep : ∀ s op, P s → P (step' v s op)) :
    ∀ (ops : List Op) (s : State), P s → P (run v s ops) := by
  intro ops
  induction ops with
  | nil => intro s h; exact h
  | cons op ops ih => intro s h; exact ih (step' v s op) (hstep s op h)

/-- "A whitelist's start time is never after its end time and is never before the genesis mint time":
after **every** finite sequence of messages (by anyone, with any arguments, at any block times — the clock
may even jump backwards) following a successful instantiate, `genesis ≤ start ≤ end`. -/
theorem C12_wellformed (v : Variant) (now : Nat) (envOk : Bool) (m : InstMsg) (s0 : State)
    (h : instantiate v now envOk m = .ok s0) (ops : List Op) :
    GENESIS ≤ (run v s0 ops).start ∧ (run v s0 ops).start ≤ (run v s0 ops).end_ :=
  wl_run_induction v WlSInv (fun s op => C12_step'_wellformed v s op) ops s0
    (C12_instantiate_wellformed v now envOk m s0 h).1

/-- the same from any well-formed state (e.g. in the middle of a history) -/
theorem C12_wellformed_from (v : Variant) (s : State) (hi : WlSInv s) (ops : List Op) : WlSInv (run v s ops) :=
  wl_run_induction v WlSInv (fun s op => C12_step'_wellformed v s op) ops s hi

/-! ## Once started: start frozen, end only brought forward, no removals -/

/-- one step from a started, well-formed state whose clock does not go backwards -/
theorem C12_started_frozen_step (v : Variant) (s : State) (op : Op) (hi : WlSInv s) (hst : WlStarted s)
    (hmono : ∀ t, op = .setTime t → s.now ≤ t) :
    let s' := step' v s op
    s'.start = s.start ∧ s'.end_ ≤ s.end_ ∧ s.start ≤ s'.end_ ∧ WlStarted s' ∧
    (∀ a p, op = .removeMembers a p → (step v s op).isOk = false) := by
  unfold WlSInv WlStarted at *
  simp only [step']
  cases h : step v s op with
  | error e => simp [Except.isOk, Except.toBool]; omega
  | ok s' =>
    simp only [Except.isOk, Except.toBool]
    by_cases hs : ∃ a t, op = .updateStart a t
    · obtain ⟨a, t, rfl⟩ := hs
      obtain ⟨⟨_, h2, _⟩, _⟩ := (C12_update_start_iff v s s' a t).1 h
      omega
    · by_cases he : ∃ a t, op = .updateEnd a t
      · obtain ⟨a, t, rfl⟩ := he
        obtain ⟨⟨_, h2, h3⟩, rfl⟩ := (C12_update_end_iff v s s' a t).1 h
        refine ⟨rfl, ?_, h2, hst, ?_⟩
        · show t ≤ s.end_; omega
        · intro a p e; cases e
      · have hf := C12_frame v s s' op h (fun a t e => hs ⟨a, t, e⟩) (fun a t e => he ⟨a, t, e⟩)
        refine ⟨hf.1, by omega, by omega, ?_, ?_⟩
        · by_cases hc : ∃ t, op = .setTime t
          · obtain ⟨t, rfl⟩ := hc
            have := hmono t rfl
            simp [step] at h; subst h; simp only []; omega
          · have := hf.2.2 (fun t e => hc ⟨t, e⟩); omega
        · intro a p e; subst e
          obtain ⟨⟨_, _, h3, _⟩, _⟩ := (C12_remove_iff v s s' a p).1 h
          omega

/-- only the chain moves the clock: after any message the block time is `opTime` -/
theorem wl_step'_now (v : Variant) (s : State) (op : Op) : (step' v s op).now = opTime s.now op := by
  unfold step'
  cases h : step v s op with
  | error e => cases op <;> simp_all [opTime, step]
  | ok s' =>
    simp only []
    by_cases hs : ∃ a t, op = .updateStart a t
    · obtain ⟨a, t, rfl⟩ := hs
      obtain ⟨_, rfl⟩ := (C12_update_start_iff v s s' a t).1 h; rfl
    · by_cases he : ∃ a t, op = .updateEnd a t
      · obtain ⟨a, t, rfl⟩ := he
        obtain ⟨_, rfl⟩ := (C12_update_end_iff v s s' a t).1 h; rfl
      · have hf := C12_frame v s s' op h (fun a t e => hs ⟨a, t, e⟩) (fun a t e => he ⟨a, t, e⟩)
        cases op with
        | setTime t => simp [step] at h; subst h; rfl
        | updateStart a t => exact absurd ⟨a, t, rfl⟩ hs
        | updateEnd a t => exact absurd ⟨a, t, rfl⟩ he
        | removeMembers a p => exact hf.2.2 (fun _ e => by cases e)
        | updatePerAddr n ok => exact hf.2.2 (fun _ e => by cases e)
        | updateAdmins a l => exact hf.2.2 (fun _ e => by cases e)
        | freeze a => exact hf.2.2 (fun _ e => by cases e)
        | env ok => exact hf.2.2 (fun _ e => by cases e)

/-- "Once a whitelist has started its start time cannot change, its end time can only be brought forward
(never extended, never before the start)": from any well-formed state that has started, after **every**
sequence of messages along which the clock does not go backwards, `start` is the same, `end` has not grown
and is still `≥ start`, and the whitelist still counts as started. -/
theorem C12_started_frozen (v : Variant) (ops : List Op) (s : State) (hi : WlSInv s) (hst : WlStarted s)
    (hm : TimeMonotone s.now ops) :
    (run v s ops).start = s.start ∧ (run v s ops).end_ ≤ s.end_ ∧ s.start ≤ (run v s ops).end_ ∧
    WlStarted (run v s ops) := by
  induction ops generalizing s with
  | nil => exact ⟨rfl, Nat.le_refl _, hi.2, hst⟩
  | cons op ops ih =>
    simp only [TimeMonotone] at hm
    have hm1 : ∀ t, op = .setTime t → s.now ≤ t := by
      intro t e; subst e; simpa [opTime] using hm.1
    obtain ⟨h1, h2, h3, h4, _⟩ := C12_started_frozen_step v s op hi hst hm1
    have hi' := C12_step'_wellformed v s op hi
    obtain ⟨g1, g2, g3, g4⟩ := ih (step' v s op) hi' h4 (by rw [wl_step'_now]; exact hm.2)
    simp only [run, List.foldl_cons] at *
    exact ⟨by omega, by omega, by omega, g4⟩

/-- "… and members can no longer be removed": after a whitelist has started, at the end of every
clock-monotone continuation, a `RemoveMembers` by anyone (admins included), for any member list, fails. -/
theorem C12_no_remove_after_start (v : Variant) (ops : List Op) (s : State) (hi : WlSInv s) (hst : WlStarted s)
    (hm : TimeMonotone s.now ops) (a : Addr) (present : Bool) :
    (step v (run v s ops) (.removeMembers a present)).isOk = false := by
  obtain ⟨_, _, _, h4⟩ := C12_started_frozen v ops s hi hst hm
  have hi' := C12_wellformed_from v s hi ops
  exact (C12_started_frozen_step v (run v s ops) (.removeMembers a present) hi' h4
    (fun t e => by cases e)).2.2.2.2 a present rfl

/-- likewise `UpdateStartTime` fails for everyone once started -/
theorem C12_no_start_update_after_start (v : Variant) (ops : List Op) (s : State) (hi : WlSInv s)
    (hst : WlStarted s) (hm : TimeMonotone s.now ops) (a : Addr) (t : Nat) :
    (step v (run v s ops) (.updateStart a t)).isOk = false := by
  obtain ⟨_, _, _, h4⟩ := C12_started_frozen v ops s hi hst hm
  cases h : step v (run v s ops) (.updateStart a t) with
  | error e => rfl
  | ok s' =>
    obtain ⟨⟨_, h2, _⟩, _⟩ := (C12_update_start_iff v _ s' a t).1 h
    unfold WlStarted at h4; omega

theorem wl_timeMonotone_append (v : Variant) (pre post : List Op) (s : State)
    (h : TimeMonotone s.now (pre ++ post)) : TimeMonotone (run v s pre).now post := by
  induction pre generalizing s with
  | nil => exact h
  | cons op pre ih =>
    simp only [List.cons_append, TimeMonotone] at h
    have := ih (step' v s op) (by rw [wl_step'_now]; exact h.2)
    simpa [run] using this

/-- the whole-history form: take **any** history after instantiate (clock never going backwards) and cut it
anywhere; if the whitelist has started at the cut, then from there to the end of the history the start time is
unchanged, the end time only moved forward in time order (never grew, never below start), and at the end a
member removal is still impossible. -/
theorem C12_started_frozen_history (v : Variant) (now : Nat) (envOk : Bool) (m : InstMsg) (s0 : State)
    (h : instantiate v now envOk m = .ok s0) (pre post : List Op) (hm : TimeMonotone s0.now (pre ++ post))
    (hst : WlStarted (run v s0 pre)) :
    let mid := run v s0 pre
    let fin := run v s0 (pre ++ post)
    fin.start = mid.start ∧ fin.end_ ≤ mid.end_ ∧ mid.start ≤ fin.end_ ∧ WlStarted fin ∧
    ∀ a p, (step v fin (.removeMembers a p)).isOk = false := by
  have hi := C12_wellformed_from v s0 (C12_instantiate_wellformed v now envOk m s0 h).1 pre
  have hm2 := wl_timeMonotone_append v pre post s0 hm
  have hrun : run v s0 (pre ++ post) = run v (run v s0 pre) post := by simp [run, List.foldl_append]
  simp only [hrun]
  obtain ⟨g1, g2, g3, g4⟩ := C12_started_frozen v post (run v s0 pre) hi hst hm2
  exact ⟨g1, g2, g3, g4, fun a p => C12_no_remove_after_start v post (run v s0 pre) hi hst hm2 a p⟩

/-- bringing the end forward is always possible for an admin (the property says "can only be brought forward",
this is the positive half): any `t` with `start ≤ t ≤ end` is accepted, started or not -/
theorem C12_end_can_be_brought_forward (v : Variant) (s : State) (a : Addr) (t : Nat)
    (ha : isAdmin s a = true) (h1 : s.start ≤ t) (h2 : t ≤ s.end_) :
    step v s (.updateEnd a t) = .ok { s with end_ := t } :=
  (C12_update_end_iff v s _ a t).2 ⟨⟨ha, h1, Or.inr h2⟩, rfl⟩

/-! ## History-level frame, flag monotonicity, non-admin histories (round 3) -/

/-- history-level frame: a history that contains neither `UpdateStartTime` nor `UpdateEndTime` — however many
per-address-limit updates, removals, admin changes, freezes, clock steps, `AddMembers`, `IncreaseMemberLimit`,
migrations or other environment messages it contains, accepted or not — leaves the schedule exactly as it was -/
theorem C12_frame_history (v : Variant) (ops : List Op) (s : State)
    (h : ∀ op ∈ ops, op.isScheduleUpdate = false) :
    (run v s ops).start = s.start ∧ (run v s ops).end_ = s.end_ := by
  induction ops generalizing s with
  | nil => exact ⟨rfl, rfl⟩
  | cons op ops ih =>
    have h1 : op.isScheduleUpdate = false := h op (by simp)
    obtain ⟨a, b⟩ := ih (step' v s op) (fun o ho => h o (by simp [ho]))
    have hf : (step' v s op).start = s.start ∧ (step' v s op).end_ = s.end_ := by
      unfold step'
      cases hs : step v s op with
      | error e => exact ⟨rfl, rfl⟩
      | ok s' =>
        have := C12_frame v s s' op hs
          (fun a t e => by subst e; simp [Op.isScheduleUpdate] at h1)
          (fun a t e => by subst e; simp [Op.isScheduleUpdate] at h1)
        exact ⟨this.1, this.2.1⟩
    simp only [run, List.foldl_cons] at *
    exact ⟨a.trans hf.1, b.trans hf.2⟩

/-- along a clock-monotone history the block time never decreases -/
theorem wl_run_now_ge (v : Variant) (ops : List Op) (s : State) (hm : TimeMonotone s.now ops) :
    s.now ≤ (run v s ops).now := by
  induction ops generalizing s with
  | nil => exact Nat.le_refl _
  | cons op ops ih =>
    simp only [TimeMonotone] at hm
    have := ih (step' v s op) (by rw [wl_step'_now]; exact hm.2)
    rw [wl_step'_now] at this
    simp only [run, List.foldl_cons] at *
    omega

/-- flag monotonicity, "started": once `HasStarted` answers true it answers true after every clock-monotone
continuation (nobody can un-start a whitelist) -/
theorem C12_started_stays_started (v : Variant) (ops : List Op) (s : State) (hi : WlSInv s)
    (hst : hasStarted s = true) (hm : TimeMonotone s.now ops) : hasStarted (run v s ops) = true := by
  have hst' : WlStarted s := by simpa [hasStarted, WlStarted] using hst
  obtain ⟨_, _, _, h4⟩ := C12_started_frozen v ops s hi hst' hm
  simpa [hasStarted, WlStarted] using h4

/-- flag monotonicity, "ended": once `HasEnded` answers true (on a well-formed schedule this implies started) it
answers true after every clock-monotone continuation — an ended whitelist cannot be re-opened, and `IsActive`
stays false -/
theorem C12_ended_stays_ended (v : Variant) (ops : List Op) (s : State) (hi : WlSInv s)
    (hen : hasEnded s = true) (hm : TimeMonotone s.now ops) :
    hasEnded (run v s ops) = true ∧ isActive (run v s ops) = false := by
  have he : s.end_ ≤ s.now := by simpa [hasEnded] using hen
  have hst' : WlStarted s := by unfold WlStarted; unfold WlSInv at hi; omega
  obtain ⟨_, h2, _, _⟩ := C12_started_frozen v ops s hi hst' hm
  have hn := wl_run_now_ge v ops s hm
  have : (run v s ops).end_ ≤ (run v s ops).now := by omega
  constructor
  · simpa [hasEnded] using this
  · simp only [isActive, Bool.and_eq_false_iff, decide_eq_false_iff_not]
    right; omega

/-- one message signed by a non-admin (or the clock, or an environment message) leaves schedule and admin list alone -/
theorem wl_nonadmin_step (v : Variant) (s : State) (op : Op)
    (h : ∀ a, op.sender? = some a → isAdmin s a = false) :
    (step' v s op).start = s.start ∧ (step' v s op).end_ = s.end_ ∧
    (step' v s op).admins = s.admins ∧ (step' v s op).adminsMutable = s.adminsMutable := by
  cases op with
  | setTime t => simp [step', step]
  | updateStart a t => have := h a rfl; simp [step', step, this]
  | updateEnd a t => have := h a rfl; simp [step', step, this]
  | removeMembers a p => have := h a rfl; by_cases hv : v = .merkle <;> simp [step', step, this, hv]
  | updatePerAddr n ok => cases ok <;> simp [step', step]
  | updateAdmins a l => have := h a rfl; simp [step', step, canModify, this]
  | freeze a => have := h a rfl; simp [step', step, canModify, this]
  | env ok => cases ok <;> simp [step', step]

/-- history-level "non-admin updates fail": whatever strangers send, in whatever order, at whatever times — as long
as none of the signed messages (`UpdateStartTime`, `UpdateEndTime`, `RemoveMembers`, `UpdateAdmins`, `Freeze`) is
signed by an account on the admin list — the schedule and the admin list are at the end what they were at the
beginning (they cannot even make themselves admins first) -/
theorem C12_nonadmin_history (v : Variant) (ops : List Op) (s : State)
    (h : ∀ op ∈ ops, ∀ a, op.sender? = some a → isAdmin s a = false) :
    (run v s ops).start = s.start ∧ (run v s ops).end_ = s.end_ ∧
    (run v s ops).admins = s.admins ∧ (run v s ops).adminsMutable = s.adminsMutable := by
  induction ops generalizing s with
  | nil => exact ⟨rfl, rfl, rfl, rfl⟩
  | cons op ops ih =>
    obtain ⟨a1, a2, a3, a4⟩ := wl_nonadmin_step v s op (h op (by simp))
    have h' : ∀ o ∈ ops, ∀ a, o.sender? = some a → isAdmin (step' v s op) a = false := by
      intro o ho a ha
      have := h o (by simp [ho]) a ha
      simpa [isAdmin, a3] using this
    obtain ⟨b1, b2, b3, b4⟩ := ih (step' v s op) h'
    simp only [run, List.foldl_cons] at *
    exact ⟨b1.trans a1, b2.trans a2, b3.trans a3, b4.trans a4⟩

/-- OBSERVATION (not a violation of the property as worded, which only constrains *creation*): "a start in the
future" is not enforced by `UpdateStartTime`. Before the start an admin may move the start to an instant that is
not after the current block time; the whitelist is then started at once and frozen from that moment. -/
theorem C12_update_start_may_start_immediately :
    ∃ (s : State) (a : Addr) (t : Nat), WlSInv s ∧ ¬ WlStarted s ∧ t ≤ s.now ∧
      WlStarted (step' .plain s (.updateStart a t)) ∧ (step' .plain s (.updateStart a t)).start = t := by
  refine ⟨{ now := GENESIS + 5, start := GENESIS + 10, end_ := GENESIS + 20, perAddr := 1, admins := [10],
            adminsMutable := true }, 10, GENESIS + 3, ?_, ?_, ?_, ?_, ?_⟩ <;>
    simp [WlSInv, WlStarted, step', step, isAdmin, show ¬ (GENESIS + 3 < GENESIS) by omega]

/-- the clock hypothesis of the "once started" theorems is not gratuitous: if block time could go backwards, a started
whitelist could be un-started and its start moved (the chain, not the contract, rules this out; the harness's lattice
section F runs such histories against the real code and the model agrees) -/
theorem C12_started_frozen_needs_monotone_clock :
    ∃ (s : State) (ops : List Op), WlSInv s ∧ WlStarted s ∧ ¬ TimeMonotone s.now ops ∧
      (run .plain s ops).start ≠ s.start := by
  refine ⟨{ now := GENESIS + 10, start := GENESIS + 10, end_ := GENESIS + 20, perAddr := 1, admins := [10],
            adminsMutable := true }, [.setTime (GENESIS + 5), .updateStart 10 (GENESIS + 15)], ?_, ?_, ?_, ?_⟩ <;>
    simp [WlSInv, WlStarted, TimeMonotone, opTime, run, step', step, isAdmin,
      show ¬ (GENESIS + 15 < GENESIS) by omega]

/-! ## Activity flags -/

/-- "active exactly when start <= now < end, started when now >= start, ended when now >= end, and the config
query reports the same activity" — at every instant, in every state.

Honesty note: the four functions are separate transcriptions of the four Rust query bodies, and this theorem says
they are the expressions the property names (two of them are syntactically the same expression, so that conjunct is
`rfl`). It does NOT show that the Rust queries evaluate these expressions on the stored `start_time`/`end_time`;
that part of the clause is *validated* (harness monitors `query/is-active`, `query/has-started`, `query/has-ended`,
`query/config-is-active`, `query/config-ne-stored` against the schedule read from storage and the harness's own
clock), not derived. -/
theorem C12_flags (s : State) :
    (isActive s = true ↔ s.start ≤ s.now ∧ s.now < s.end_) ∧
    (hasStarted s = true ↔ s.now ≥ s.start) ∧
    (hasEnded s = true ↔ s.now ≥ s.end_) ∧
    configIsActive s = isActive s := by
  simp [isActive, hasStarted, hasEnded, configIsActive]

/-- the flags are consistent with each other: active = started and not ended; on a well-formed schedule
ended implies started, so exactly one of "not started", "active", "ended" holds -/
theorem C12_flags_consistent (s : State) (hi : WlSInv s) :
    isActive s = (hasStarted s && !hasEnded s) ∧
    (hasEnded s = true → hasStarted s = true) ∧
    ((hasStarted s = false ∧ isActive s = false ∧ hasEnded s = false) ∨
     (hasStarted s = true ∧ isActive s = true ∧ hasEnded s = false) ∨
     (hasStarted s = true ∧ isActive s = false ∧ hasEnded s = true)) := by
  unfold WlSInv at hi
  simp only [isActive, hasStarted, hasEnded]
  by_cases h1 : s.now ≥ s.start <;> by_cases h2 : s.now ≥ s.end_ <;> simp [h1, h2] <;> omega

/-- the flags after every history (instantiate + any messages) are those of the stored schedule at the current
block time, and the schedule they are computed from is well-formed -/
theorem C12_flags_history (v : Variant) (now : Nat) (envOk : Bool) (m : InstMsg) (s0 : State)
    (h : instantiate v now envOk m = .ok s0) (ops : List Op) :
    let s := run v s0 ops
    (isActive s = true ↔ s.start ≤ s.now ∧ s.now < s.end_) ∧ (hasStarted s = true ↔ s.now ≥ s.start) ∧
    (hasEnded s = true ↔ s.now ≥ s.end_) ∧ configIsActive s = isActive s ∧
    isActive s = (hasStarted s && !hasEnded s) := by
  have hi : WlSInv (run v s0 ops) := C12_wellformed v now envOk m s0 h ops
  obtain ⟨a, b, c, d⟩ := C12_flags (run v s0 ops)
  exact ⟨a, b, c, d, (C12_flags_consistent _ hi).1⟩

/-! ## Non-vacuity and the named interleavings, on concrete data (kernel-evaluated) -/

section examples
def G : Nat := GENESIS
/-- a whitelist created at `G+5` for the window `[G+10, G+20]`, admin 10 -/
def exMsg : InstMsg :=
  { start := G + 10, end_ := G + 20, perAddr := 1, admins := [10], adminsMutable := true }
def exState : State :=
  { now := G + 5, start := G + 10, end_ := G + 20, perAddr := 1, admins := [10], adminsMutable := true }

example : (instantiate .plain (G + 5) true exMsg).toOption = some exState := by decide
example : (instantiate .flex (G + 5) true exMsg).toOption = some { exState with perAddr := 0 } := by decide
example : (instantiate .merkle (G + 5) true exMsg).toOption = some exState := by decide
-- a failing non-schedule check (environment) rejects whatever the schedule
example : (instantiate .merkle (G + 5) false exMsg).isOk = false := by decide
-- start = now is not "in the future"; start = now + 1 is
example : (instantiate .plain (G + 10) true exMsg).isOk = false := by decide
example : (instantiate .plain (G + 9) true exMsg).isOk = true := by decide
-- hypotheses of the frozen theorems are satisfiable: started, well-formed
example : WlSInv { exState with now := G + 10 } ∧ WlStarted { exState with now := G + 10 } := by
  unfold WlSInv WlStarted G GENESIS; decide
-- "update exactly at start": one nanosecond before start the admin may move the start, at the start no more
example : run .plain exState [.setTime (G + 9), .updateStart 10 (G + 15)] = { exState with now := G + 9, start := G + 15 } := by decide
example : run .plain exState [.setTime (G + 10), .updateStart 10 (G + 15)] = { exState with now := G + 10 } := by decide
-- "shorten end, then move start": before start, end := G+12 then start := G+13 is rejected, start := G+12 accepted
example : run .flex exState [.updateEnd 10 (G + 12), .updateStart 10 (G + 13)] = { exState with end_ := G + 12 } := by decide
example : run .flex exState [.updateEnd 10 (G + 12), .updateStart 10 (G + 12)] = { exState with start := G + 12, end_ := G + 12 } := by decide
-- after start: end can be shortened down to start but not extended, not even back to its old value
example : run .merkle exState [.setTime (G + 11), .updateEnd 10 (G + 10), .updateEnd 10 (G + 20)] = { exState with now := G + 11, end_ := G + 10 } := by decide
example : run .merkle exState [.setTime (G + 11), .updateEnd 10 (G + 9)] = { exState with now := G + 11 } := by decide
-- a start below genesis is clamped to genesis
example : run .plain exState [.updateStart 10 5] = { exState with start := G } := by decide
-- a stranger cannot update; removal works before start only
example : run .plain exState [.updateEnd 99 (G + 12), .updateStart 99 (G + 12)] = exState := by decide
example : (step .plain exState (.removeMembers 10 true)).isOk = true := by decide
example : (step .plain { exState with now := G + 10 } (.removeMembers 10 true)).isOk = false := by decide
-- environment messages and per-address-limit updates never move the schedule, accepted or not
example : run .plain exState [.env true, .env false, .updatePerAddr 0 true, .updatePerAddr 31 false] = { exState with perAddr := 0 } := by decide
-- hypotheses of the monotonicity theorems are satisfiable: an ended, well-formed state on a monotone history
example : WlSInv { exState with now := G + 20 } ∧ hasEnded { exState with now := G + 20 } = true ∧
    TimeMonotone (G + 20) [.updateEnd 10 (G + 12), .setTime (G + 21), .updateStart 10 (G + 30)] := by
  unfold WlSInv G GENESIS; simp [hasEnded, TimeMonotone, opTime, exState, G, GENESIS]
end examples

end LP
