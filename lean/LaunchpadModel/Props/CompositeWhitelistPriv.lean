import LaunchpadModel.Lemmas.WhitelistFullPriv
import LaunchpadModel.Props.C05
/-!
# Refinement theorems, part 4: the composite model `LP.WF` refines the whitelist rows of the C05 aspect model (`LP.Priv`)
-/
namespace LP
open LP.WF

namespace WF

def trRun05 : State → List Op → List Priv.Op
  | _, [] => []
  | s, op :: ops => (match s.wl with | some w => tr05 s w op | none => .tick s.now) :: trRun05 (step' s op) ops

theorem run_sim05 (base : Priv.AuthState) (ops : List Op) : ∀ {s : State} {w : Wl}, s.wl = some w → NoInst14 ops →
    ∃ w', (run s ops).wl = some w' ∧ w'.v = w.v ∧
      proj05 base (run s ops).now w' = Priv.run (proj05 base s.now w) (trRun05 s ops) := by
  induction ops with
  | nil => intro s w hw _; exact ⟨w, hw, rfl, rfl⟩
  | cons op ops ih =>
    intro s w hw hni
    obtain ⟨w1, hw1, hv1, hsim⟩ := step_sim05 base hw op (hni op List.mem_cons_self)
    obtain ⟨w2, hw2, hv2, hrun⟩ := ih hw1 (fun o ho => hni o (List.mem_cons_of_mem _ ho))
    refine ⟨w2, by rw [run_cons]; exact hw2, by rw [hv2, hv1], ?_⟩
    rw [run_cons, hrun, hsim]
    simp only [trRun05, hw, Priv.run, List.foldl_cons]

end WF

/-- **C05 refinement (whitelist rows)**: for every authorisation state `base` of the rest of the world and every op list without
a re-instantiate, the composite run projects onto the C05 aspect run of the translated ops -/
theorem C05_full_wl_refines (base : Priv.AuthState) (ops : List Op) {s : State} {w : Wl} (hw : s.wl = some w) (hni : NoInst14 ops) :
    ∃ w', (WF.run s ops).wl = some w' ∧ w'.v = w.v ∧
      proj05 base (WF.run s ops).now w' = Priv.run (proj05 base s.now w) (trRun05 s ops) :=
  run_sim05 base ops hw hni

/-- "whitelist membership, schedule and admin-list changes only for whitelist admins": every message the composite accepts is
authorised by the privilege table of the aspect model; concretely every accepted message except `IncreaseMemberLimit` comes from
an address on the admin list -/
theorem C05_full_wl_admin {s s' : State} {w : Wl} (hw : s.wl = some w) {sender : Addr} {funds : List Coin} {m : ExecMsg}
    (h : WF.step s (.exec sender funds m) = .ok s') (hm : ∀ n, m ≠ .increaseMemberLimit n) : sender ∈ w.admins := by
  obtain ⟨_, hauth⟩ := accepted_auth hw h
  have : isAdmin w sender = true := by
    cases m <;> simp_all [canModify]
  simpa [isAdmin] using this

theorem C05_full_wl_table_authorised (base : Priv.AuthState) {s s' : State} {w : Wl} (hw : s.wl = some w) {sender : Addr}
    {funds : List Coin} {m : ExecMsg} (h : WF.step s (.exec sender funds m) = .ok s') :
    Priv.authorised (proj05 base s.now w) ⟨sender, false⟩
      (Priv.principal (.whitelist (wlKind05 w.v)) (msgKind05 m)) = true :=
  accepted_authorised base hw h

/-- "(and admin-list changes never once frozen)": once `mutable = false`, the admin list and the flag of the observed contract are
constant over every continuation — any callers (admins included), any messages, any funds, any clock -/
theorem C05_full_wl_frozen_admins (ops : List Op) {s : State} {w : Wl} (hw : s.wl = some w) (hf : w.mutable_ = false)
    (hni : NoInst14 ops) : ∃ w', (WF.run s ops).wl = some w' ∧ w'.admins = w.admins ∧ w'.mutable_ = false := by
  let base : Priv.AuthState := ⟨0, 0, none, none, none, 0, false, [], false, none, [], none, [], 0, 0⟩
  obtain ⟨w', hw', _, hsim⟩ := run_sim05 base ops hw hni
  have := C05_frozen_admins (proj05 base s.now w) hf (trRun05 s ops)
  rw [← hsim] at this
  exact ⟨w', hw', this.1, this.2⟩

/-- `Freeze` by an admin of a mutable list does reach that state; `whitelist-immutable` has no admin list to freeze -/
theorem C05_full_wl_freeze_freezes {s s' : State} {w : Wl} (hw : s.wl = some w) {sender : Addr} {funds : List Coin}
    (h : WF.step s (.exec sender funds .freeze) = .ok s') : ∃ w', s'.wl = some w' ∧ w'.mutable_ = false ∧ w'.admins = w.admins := by
  simp only [WF.step] at h
  obtain ⟨w0, b1, w1, msgs, b2, hw0, _, hh, _, rfl⟩ := execute_ok h
  rw [hw] at hw0; cases hw0
  unfold handle at hh
  split at hh; · cases hh
  simp only [] at hh
  split at hh
  · rename_i w2 hf
    simp only [Except.ok.injEq, Prod.mk.injEq] at hh; obtain ⟨rfl, _⟩ := hh
    unfold freeze at hf
    split at hf; · cases hf
    simp only [Except.ok.injEq] at hf; subst hf
    exact ⟨_, rfl, rfl, rfl⟩
  · cases hh

/-! ## Non-vacuity (kernel-evaluated) -/

def exG05 : Nat := Gen.sg_utils_GENESIS_MINT_START_TIME

def exMsg05 : InstMsg :=
  { admins := [10, 11], adminsMutable := true, start := exG05 + 100, end_ := exG05 + 200, mintPrice := ⟨0, 5⟩, perAddr := 2,
    memberLimit := 5, whaleCap := none, members := [(20, 0)], stages := [], stageMembers := [], roots := [],
    uriOk := true, uris := none, discountBps := none }

/-- a stranger's `AddMembers` / `Freeze` / `UpdateAdmins` change nothing; the second admin freezes; afterwards even the first
admin cannot change the list -/
example : ((WF.run (WF.init exG05)
      [.fund 10 ⟨0, 1000000000⟩, .instantiate Variant.plain 10 [⟨0, 100000000⟩] 1000 exMsg05,
       .exec 30 [] (.addMembers 0 [(21, 0)]), .exec 30 [] .freeze, .exec 30 [] (.updateAdmins [30]),
       .exec 10 [] (.updateAdmins [10, 11, 12]), .exec 11 [] .freeze, .exec 10 [] (.updateAdmins [10])]).wl.map
      fun w => (w.admins, w.mutable_, w.numMembers)) = some ([10, 11, 12], false, 1) := by rfl

end LP
