import LaunchpadModel.Lemmas.TokenMergeFull
import LaunchpadModel.Lemmas.TokenMergeFullLedger2
import LaunchpadModel.Lemmas.TokenMergeFullPay
import LaunchpadModel.Props.C01
import LaunchpadModel.Props.C17
import LaunchpadModel.Props.C02
/-!
# Refinement theorems: the composite token-merge model `LP.TMF` (Model/TokenMergeFull.lean) refines the aspect models

Same structure as `Props/CompositeVending.lean`: per aspect a projection, an op translation whose witnesses are computed from the
composite state, the one-step simulation, its lift to runs, and the headline theorems restated for composite runs
(`Cxx_fulltm_*`).  Order: C01 (`Supply.Fixed`), C17 (`TM`, the deposit ledger), C02 (`MintPay`).
-/
namespace LP
open LP.TMF

namespace TMF

/-! ## C01 — supply (`Supply.Fixed`) -/

/-- projection: the supply component (position map, counter, mint log, burned count, collection token table) -/
def supplyOf (s : State) : Option Supply.Fixed := s.minter.map (·.supply)

/-- does crediting one token of collection `c` to recipient `r` complete the requirement (⇒ the deposit mints)? -/
def completes (s : State) (c r : Addr) : Bool :=
  match s.minter with
  | some m => allReceived m.mintTokens (creditLedger m.ledger r c r)
  | none => false

/-- op translation: the gate of every aspect op is the composite's own verdict on the message; a deposit is the aspect `mint`
exactly when it completes the requirement, otherwise it has no supply effect -/
def supplyOp (s : State) (op : Op) : Supply.FOp :=
  let g := accepted s op
  match op with
  | .send caller coll _ _ recipient _ picked =>
    if completes s coll (recipient.getD caller) then .mint g picked (recipient.getD caller) else .noise g
  | .receive caller sender _ recipient _ picked =>
    if completes s caller (recipient.getD sender) then .mint g picked (recipient.getD sender) else .noise g
  | .mintTo _ _ rcpt picked => .mint g picked rcpt
  | .mintFor _ _ id rcpt => .mintFor g id rcpt
  | .shuffle _ _ perm => .shuffle g perm
  | .purge _ _ => .purge g
  | .burnRemaining _ _ => .burnRemaining g
  | .collBurn _ id => .collBurn g id
  | .collTransfer _ id to => .collTransfer g id to
  | _ => .noise g

theorem fixed_step'_of_some {f f' : Supply.Fixed} {op : Supply.FOp} (h : f.step op = some f') : f.step' op = f' := by
  simp [Supply.Fixed.step', h]

theorem fixed_step'_gate_false (f : Supply.Fixed) (op : Supply.FOp)
    (h : match op with
      | .mint g _ _ => g = false | .mintFor g _ _ => g = false | .shuffle g _ => g = false | .purge g => g = false
      | .burnRemaining g => g = false | .collBurn g _ => g = false | .collTransfer g _ _ => g = false
      | .noise g => g = false) : f.step' op = f := by
  cases op <;> simp only at h <;> subst h <;> simp [Supply.Fixed.step', Supply.Fixed.step]

/-- the supply effect of an accepted deposit -/
theorem supply_receive {s s' : State} {m : Minter} {caller sender : Addr} {tokenId : Nat} {recipient : Option Addr}
    {picked : Nat} (h : receiveNft s m caller sender tokenId recipient picked = .ok s') :
    ∃ m', s'.minter = some m' ∧
      m.supply.step (if allReceived m.mintTokens (creditLedger m.ledger (recipient.getD sender) caller (recipient.getD sender))
        then .mint true picked (recipient.getD sender) else .noise true) = some m'.supply := by
  obtain ⟨amt, _, _, _, _, hcase⟩ := receiveNft_ok h
  rcases hcase with ⟨hall, m1, hd, hb⟩ | ⟨hall, hb⟩
  · obtain ⟨sup, _, _, _, htake, rfl⟩ := deliver_ok hd
    obtain ⟨x, _, rfl⟩ := burnDeposit_ok hb
    exact ⟨_, rfl, by simpa [hall, Supply.Fixed.step, VF.takeToken] using htake⟩
  · obtain ⟨x, _, rfl⟩ := burnDeposit_ok hb
    exact ⟨_, rfl, by simp [hall, Supply.Fixed.step]⟩

/-- a successful composite step acts on the supply component exactly as the translated aspect op -/
theorem supply_step_ok {s s' : State} {m : Minter} {op : Op} (hm : s.minter = some m) (h : step s op = .ok s') :
    ∃ m', s'.minter = some m' ∧ m.supply.step (supplyOp s op) = some m'.supply := by
  have hacc := accepted_of_ok h
  cases op with
  | setTime t =>
    simp only [step] at h; split at h <;> cases h
    exact ⟨m, hm, by simp [supplyOp, hacc, Supply.Fixed.step]⟩
  | fund a c =>
    simp only [step] at h; cases h
    exact ⟨m, hm, by simp [supplyOp, hacc, Supply.Fixed.step]⟩
  | srcNew c =>
    simp only [step] at h; cases h
    exact ⟨m, hm, by simp [supplyOp, hacc, Supply.Fixed.step]⟩
  | srcGive c id to =>
    simp only [step] at h
    obtain ⟨x, _, rfl⟩ := onSrcs_ok h
    exact ⟨m, hm, by simp [supplyOp, hacc, Supply.Fixed.step]⟩
  | srcTransfer caller c id to =>
    simp only [step] at h
    obtain ⟨x, _, rfl⟩ := onSrcs_ok h
    exact ⟨m, hm, by simp [supplyOp, hacc, Supply.Fixed.step]⟩
  | send caller coll id contract recipient msgOk picked =>
    simp only [step] at h
    obtain ⟨x, m0, _, hm0, _, _, hr⟩ := sendNft_ok h
    rw [hm] at hm0; cases hm0
    obtain ⟨m', hm', hstep⟩ := supply_receive hr
    refine ⟨m', hm', ?_⟩
    simp only [supplyOp, hacc, completes, hm]
    split <;> simp_all
  | receive caller sender id recipient msgOk picked =>
    simp only [step] at h
    obtain ⟨m0, hm0, h⟩ := withMinterS_ok h
    rw [hm] at hm0; cases hm0
    obtain ⟨_, hr⟩ := receiveDirect_ok h
    obtain ⟨m', hm', hstep⟩ := supply_receive hr
    refine ⟨m', hm', ?_⟩
    simp only [supplyOp, hacc, completes, hm]
    split <;> simp_all
  | create sender funds msg w =>
    simp only [step] at h
    obtain ⟨_, _, _, _, hnone, _⟩ := createMinter_ok h
    rw [hm] at hnone; cases hnone
  | instantiateDirect sender => simp [step] at h
  | mintTo sender funds rcpt picked =>
    simp only [step] at h
    obtain ⟨m0, hm0, h⟩ := withMinterS_ok h
    rw [hm] at hm0; cases hm0
    obtain ⟨b1, ms, m1, b2, _, _, _, _, hd, _, rfl⟩ := mintAdmin_ok h
    obtain ⟨sup, _, _, _, htake, rfl⟩ := deliver_ok hd
    exact ⟨_, rfl, by simpa [supplyOp, hacc, Supply.Fixed.step, VF.takeToken] using htake⟩
  | mintFor sender funds id rcpt =>
    simp only [step] at h
    obtain ⟨m0, hm0, h⟩ := withMinterS_ok h
    rw [hm] at hm0; cases hm0
    obtain ⟨b1, ms, m1, b2, _, _, _, _, hd, _, rfl⟩ := mintAdmin_ok h
    obtain ⟨sup, _, _, _, htake, rfl⟩ := deliver_ok hd
    exact ⟨_, rfl, by simpa [supplyOp, hacc, Supply.Fixed.step, VF.takeToken] using htake⟩
  | purge sender funds =>
    simp only [step] at h
    obtain ⟨m0, m', hm0, hf, rfl⟩ := withMinter_ok h
    rw [hm] at hm0; cases hm0
    obtain ⟨_, hz, rfl⟩ := purge_ok hf
    exact ⟨_, rfl, by simp [supplyOp, hacc, Supply.Fixed.step, Supply.Fixed.purge, hz]⟩
  | updateStartTime sender funds t =>
    simp only [step] at h
    obtain ⟨m0, m', hm0, hf, rfl⟩ := withMinter_ok h
    rw [hm] at hm0; cases hm0
    obtain ⟨_, _, _, _, _, rfl⟩ := updateStartTime_ok hf
    exact ⟨_, rfl, by simp [supplyOp, hacc, Supply.Fixed.step]⟩
  | updateStartTradingTime sender funds t =>
    simp only [step] at h
    obtain ⟨m0, m', hm0, hf, rfl⟩ := withMinter_ok h
    rw [hm] at hm0; cases hm0
    obtain ⟨_, _, _, _, _, rfl⟩ := updateStartTradingTime_ok hf
    exact ⟨_, rfl, by simp [supplyOp, hacc, Supply.Fixed.step]⟩
  | updatePerAddressLimit sender funds n =>
    simp only [step] at h
    obtain ⟨m0, m', hm0, hf, rfl⟩ := withMinter_ok h
    rw [hm] at hm0; cases hm0
    obtain ⟨_, _, _, _, _, rfl⟩ := updatePerAddressLimit_ok hf
    exact ⟨_, rfl, by simp [supplyOp, hacc, Supply.Fixed.step]⟩
  | shuffle sender funds perm =>
    simp only [step] at h
    obtain ⟨m0, hm0, h⟩ := withMinterS_ok h
    rw [hm] at hm0; cases hm0
    obtain ⟨b1, ms, sup, b2, _, _, hsh, _, rfl⟩ := shuffle_ok h
    exact ⟨_, rfl, by simpa [supplyOp, hacc, Supply.Fixed.step] using hsh⟩
  | burnRemaining sender funds =>
    simp only [step] at h
    obtain ⟨m0, m', hm0, hf, rfl⟩ := withMinter_ok h
    rw [hm] at hm0; cases hm0
    obtain ⟨sup, _, _, hb, rfl⟩ := burnRemaining_ok hf
    exact ⟨_, rfl, by simpa [supplyOp, hacc, Supply.Fixed.step] using hb⟩
  | sudoStatus v b e =>
    simp only [step] at h
    obtain ⟨m0, m', hm0, hf, rfl⟩ := withMinter_ok h
    rw [hm] at hm0; cases hm0
    cases hf
    exact ⟨_, rfl, by simp [supplyOp, hacc, Supply.Fixed.step]⟩
  | sudoParams u =>
    simp only [step] at h
    split at h <;> cases h
    exact ⟨m, hm, by simp [supplyOp, hacc, Supply.Fixed.step]⟩
  | collTransfer sender id to =>
    simp only [step] at h
    obtain ⟨m0, m', hm0, hf, rfl⟩ := withMinter_ok h
    rw [hm] at hm0; cases hm0
    obtain ⟨c, _, _, hc, rfl⟩ := collTransfer_ok hf
    exact ⟨_, rfl, by simp [supplyOp, hacc, Supply.Fixed.step, hc]⟩
  | collBurn sender id =>
    simp only [step] at h
    obtain ⟨m0, m', hm0, hf, rfl⟩ := withMinter_ok h
    rw [hm] at hm0; cases hm0
    obtain ⟨c, _, hc, rfl⟩ := collBurn_ok hf
    exact ⟨_, rfl, by simp [supplyOp, hacc, Supply.Fixed.step, hc]⟩
  | collTrading sender t =>
    simp only [step] at h
    obtain ⟨m0, c, hm0, _, rfl⟩ := onColl_ok h
    rw [hm] at hm0; cases hm0
    exact ⟨_, rfl, by simp [supplyOp, hacc, Supply.Fixed.step]⟩
  | collCreator sender new =>
    simp only [step] at h
    obtain ⟨m0, c, hm0, _, rfl⟩ := onColl_ok h
    rw [hm] at hm0; cases hm0
    exact ⟨_, rfl, by simp [supplyOp, hacc, Supply.Fixed.step]⟩
  | collFreeze sender =>
    simp only [step] at h
    obtain ⟨m0, c, hm0, _, rfl⟩ := onColl_ok h
    rw [hm] at hm0; cases hm0
    exact ⟨_, rfl, by simp [supplyOp, hacc, Supply.Fixed.step]⟩
  | collOwn sender a =>
    simp only [step] at h
    obtain ⟨m0, c, hm0, _, rfl⟩ := onColl_ok h
    rw [hm] at hm0; cases hm0
    exact ⟨_, rfl, by simp [supplyOp, hacc, Supply.Fixed.step]⟩

/-- **simulation** (all states with a minter, all ops):
`proj (Composite.step' s op) = Aspect.step' (proj s) (tr s op)` -/
theorem supply_sim (s : State) (m : Minter) (hm : s.minter = some m) (op : Op) :
    supplyOf (step' s op) = some (m.supply.step' (supplyOp s op)) := by
  rcases step'_cases s op with ⟨s', hok, hs'⟩ | ⟨⟨e, herr⟩, hs'⟩
  · obtain ⟨m', hm', hstep⟩ := supply_step_ok hm hok
    rw [hs', fixed_step'_of_some hstep]; simp [supplyOf, hm']
  · have hacc : accepted s op = false := by simp [accepted, herr]
    rw [hs']
    have : m.supply.step' (supplyOp s op) = m.supply := by
      cases op <;> simp only [supplyOp, hacc] <;> (try split) <;> simp [Supply.Fixed.step', Supply.Fixed.step]
    rw [this]; simp [supplyOf, hm]

/-- before the minter exists a step either leaves it absent or is the `CreateMinter` that initialises the supply
component with `Supply.Fixed.init num_tokens perm` for the permutation witness of the message -/
theorem supply_create (s : State) (hm : s.minter = none) (op : Op) :
    (step' s op).minter = none ∨
    ∃ m n perm, (step' s op).minter = some m ∧ Supply.Fixed.init n perm = some m.supply := by
  rcases step'_cases s op with ⟨s', hok, hs'⟩ | ⟨_, hs'⟩
  · rw [hs']
    cases op with
    | setTime t => simp only [step] at hok; split at hok <;> cases hok; exact Or.inl hm
    | fund a c => simp only [step] at hok; cases hok; exact Or.inl hm
    | srcNew c => simp only [step] at hok; cases hok; exact Or.inl hm
    | srcGive c id to => simp only [step] at hok; obtain ⟨x, _, rfl⟩ := onSrcs_ok hok; exact Or.inl hm
    | srcTransfer caller c id to => simp only [step] at hok; obtain ⟨x, _, rfl⟩ := onSrcs_ok hok; exact Or.inl hm
    | send _ _ _ _ _ _ _ =>
      simp only [step] at hok; obtain ⟨_, m, _, h, _⟩ := sendNft_ok hok; rw [hm] at h; cases h
    | receive _ _ _ _ _ _ => simp only [step] at hok; obtain ⟨m, h, _⟩ := withMinterS_ok hok; rw [hm] at h; cases h
    | sudoParams u => simp only [step] at hok; split at hok <;> cases hok; exact Or.inl hm
    | instantiateDirect sender => simp [step] at hok
    | create sender funds msg w =>
      simp only [step] at hok
      obtain ⟨b1, ms, b2, m, _, _, _, _, _, hinst, rfl⟩ := createMinter_ok hok
      obtain ⟨trading, sup, ck, _, _, _, _, _, hsup, _, _, rfl⟩ := instantiateMinter_ok hinst
      exact Or.inr ⟨_, msg.numTokens, w.perm, rfl, hsup⟩
    | mintTo _ _ _ _ => simp only [step] at hok; obtain ⟨m, h, _⟩ := withMinterS_ok hok; rw [hm] at h; cases h
    | mintFor _ _ _ _ => simp only [step] at hok; obtain ⟨m, h, _⟩ := withMinterS_ok hok; rw [hm] at h; cases h
    | shuffle _ _ _ => simp only [step] at hok; obtain ⟨m, h, _⟩ := withMinterS_ok hok; rw [hm] at h; cases h
    | purge _ _ => simp only [step] at hok; obtain ⟨m, _, h, _⟩ := withMinter_ok hok; rw [hm] at h; cases h
    | updateStartTime _ _ _ => simp only [step] at hok; obtain ⟨m, _, h, _⟩ := withMinter_ok hok; rw [hm] at h; cases h
    | updateStartTradingTime _ _ _ => simp only [step] at hok; obtain ⟨m, _, h, _⟩ := withMinter_ok hok; rw [hm] at h; cases h
    | updatePerAddressLimit _ _ _ => simp only [step] at hok; obtain ⟨m, _, h, _⟩ := withMinter_ok hok; rw [hm] at h; cases h
    | burnRemaining _ _ => simp only [step] at hok; obtain ⟨m, _, h, _⟩ := withMinter_ok hok; rw [hm] at h; cases h
    | sudoStatus _ _ _ => simp only [step] at hok; obtain ⟨m, _, h, _⟩ := withMinter_ok hok; rw [hm] at h; cases h
    | collTransfer _ _ _ => simp only [step] at hok; obtain ⟨m, _, h, _⟩ := withMinter_ok hok; rw [hm] at h; cases h
    | collBurn _ _ => simp only [step] at hok; obtain ⟨m, _, h, _⟩ := withMinter_ok hok; rw [hm] at h; cases h
    | collTrading _ _ => simp only [step] at hok; obtain ⟨m, _, h, _⟩ := onColl_ok hok; rw [hm] at h; cases h
    | collCreator _ _ => simp only [step] at hok; obtain ⟨m, _, h, _⟩ := onColl_ok hok; rw [hm] at h; cases h
    | collFreeze _ => simp only [step] at hok; obtain ⟨m, _, h, _⟩ := onColl_ok hok; rw [hm] at h; cases h
    | collOwn _ _ => simp only [step] at hok; obtain ⟨m, _, h, _⟩ := onColl_ok hok; rw [hm] at h; cases h
  · rw [hs']; exact Or.inl hm

/-- "the supply component of this state is an aspect-model run from `Fixed.init`" -/
def SupplyReach (s : State) : Prop :=
  s.minter = none ∨
  ∃ m n perm sup0 fops, s.minter = some m ∧ Supply.Fixed.init n perm = some sup0 ∧ m.supply = sup0.run fops

theorem fixed_run_snoc (f : Supply.Fixed) (ops : List Supply.FOp) (op : Supply.FOp) :
    f.run (ops ++ [op]) = (f.run ops).step' op := by
  simp [Supply.Fixed.run, List.foldl_append]

theorem supplyReach_step (s : State) (op : Op) (h : SupplyReach s) : SupplyReach (step' s op) := by
  rcases h with hnone | ⟨m, n, perm, sup0, fops, hm, hinit, hrun⟩
  · rcases supply_create s hnone op with h | ⟨m, n, perm, hm, hinit⟩
    · exact Or.inl h
    · exact Or.inr ⟨m, n, perm, m.supply, [], hm, hinit, rfl⟩
  · have hsim := supply_sim s m hm op
    unfold supplyOf at hsim
    cases hm' : (step' s op).minter with
    | none => rw [hm'] at hsim; cases hsim
    | some m' =>
      rw [hm'] at hsim
      simp only [Option.map_some, Option.some.injEq] at hsim
      exact Or.inr ⟨m', n, perm, sup0, fops ++ [supplyOp s op], hm', hinit, by rw [fixed_run_snoc, ← hrun, hsim]⟩

/-- **lift to runs**: along ANY composite run that starts without a minter, the supply component is a `Supply.Fixed`
run from `Fixed.init num_tokens perm` -/
theorem supply_run (s0 : State) (h0 : s0.minter = none) (ops : List Op) : SupplyReach (run s0 ops) :=
  run_inv SupplyReach supplyReach_step s0 (Or.inl h0) ops

end TMF

/-! ### C01 headline theorems, inherited by composite runs -/

/-- the C01 simulation itself: one composite step = one aspect step on the projection -/
theorem C01_fulltm_refines (s : TMF.State) (m : TMF.Minter) (hm : s.minter = some m) (op : TMF.Op) :
    TMF.supplyOf (TMF.step' s op) = some (m.supply.step' (TMF.supplyOp s op)) :=
  TMF.supply_sim s m hm op

/-- "no minter over-mints, re-mints a token id, or miscounts remaining supply", for every composite history (all gates
computed by the model itself, deposits included): the supply invariant `FInv` holds of the minter whenever it exists -/
theorem C01_fulltm_inv (s0 : TMF.State) (h0 : s0.minter = none) (ops : List TMF.Op) (m : TMF.Minter)
    (hm : (TMF.run s0 ops).minter = some m) : Supply.FInv m.supply := by
  rcases TMF.supply_run s0 h0 ops with hnone | ⟨m', n, perm, sup0, fops, hm', hinit, hrun⟩
  · rw [hm] at hnone; cases hnone
  · rw [hm] at hm'; cases hm'
    rw [hrun]; exact (C01_inv n perm sup0 hinit fops).1

/-- every minted token id lies in `1..=num_tokens` and is minted at most once -/
theorem C01_fulltm_minted_in_range_at_most_once (s0 : TMF.State) (h0 : s0.minter = none) (ops : List TMF.Op) (m : TMF.Minter)
    (hm : (TMF.run s0 ops).minter = some m) :
    m.supply.minted.Nodup ∧ ∀ id ∈ m.supply.minted, 1 ≤ id ∧ id ≤ m.supply.n := by
  have hi := C01_fulltm_inv s0 h0 ops m hm
  exact ⟨hi.mnodup, fun id hid => hi.mrange id hid⟩

/-- the `MintableNumTokens` answer always equals `num_tokens − minted − burned` and the true number of remaining positions -/
theorem C01_fulltm_mintable_query (s0 : TMF.State) (h0 : s0.minter = none) (ops : List TMF.Op) (m : TMF.Minter)
    (hm : (TMF.run s0 ops).minter = some m) :
    TMF.queryMintable m = m.supply.n - m.supply.minted.length - m.supply.burned ∧
    TMF.queryMintable m = m.supply.pos.length ∧ m.supply.minted.length + m.supply.burned ≤ m.supply.n := by
  have hi := C01_fulltm_inv s0 h0 ops m hm
  have := hi.count; have := hi.total
  unfold TMF.queryMintable
  omega

/-- collection side: every existing token was minted by this minter, ids are unique, `NumTokens` is exact, and a minted
id is never mintable again -/
theorem C01_fulltm_collection (s0 : TMF.State) (h0 : s0.minter = none) (ops : List TMF.Op) (m : TMF.Minter)
    (hm : (TMF.run s0 ops).minter = some m) :
    (∀ id ∈ m.supply.coll.ids, id ∈ m.supply.minted ∧ 1 ≤ id ∧ id ≤ m.supply.n) ∧ m.supply.coll.ids.Nodup ∧
      m.supply.coll.count = m.supply.coll.toks.length ∧ (∀ id ∈ m.supply.minted, id ∉ m.supply.ids) := by
  have hi := C01_fulltm_inv s0 h0 ops m hm
  exact ⟨fun id hid => ⟨hi.csub id hid, hi.mrange id (hi.csub id hid)⟩, hi.cinv.nodup, hi.cinv.count,
    fun id hid hmem => hi.fresh id hmem hid⟩

/-- a composite mint (airdrop or completing deposit) at a zero counter fails, whatever else holds -/
theorem C01_fulltm_no_mint_at_zero (s : TMF.State) (m : TMF.Minter) (hm : s.minter = some m) (hz : m.supply.mintable = 0)
    (op : TMF.Op) (hmint : (TMF.supplyOp s op).isMint = true) : TMF.step' s op = s := by
  rcases TMF.step'_cases s op with ⟨s', hok, _⟩ | ⟨_, hs'⟩
  · obtain ⟨m', _, hstep⟩ := TMF.supply_step_ok hm hok
    rw [C01_no_mint_at_zero m.supply _ hz hmint] at hstep; cases hstep
  · exact hs'

/-- once the counter is zero it stays zero and nothing is minted again, in any continuation of the composite -/
theorem C01_fulltm_zero_is_final (s : TMF.State) (m : TMF.Minter) (hm : s.minter = some m) (hz : m.supply.mintable = 0)
    (ops : List TMF.Op) :
    ∃ m', (TMF.run s ops).minter = some m' ∧ m'.supply.mintable = 0 ∧ m'.supply.minted = m.supply.minted := by
  induction ops generalizing s m with
  | nil => exact ⟨m, hm, hz, rfl⟩
  | cons op ops ih =>
    rw [TMF.run_cons]
    have hsim := TMF.supply_sim s m hm op
    unfold TMF.supplyOf at hsim
    cases hm' : (TMF.step' s op).minter with
    | none => rw [hm'] at hsim; cases hsim
    | some m1 =>
      rw [hm'] at hsim
      simp only [Option.map_some, Option.some.injEq] at hsim
      have hfin := C01_zero_is_final m.supply hz [TMF.supplyOp s op]
      simp only [Supply.Fixed.run, List.foldl_cons, List.foldl_nil] at hfin
      rw [← hsim] at hfin
      obtain ⟨m', h1, h2, h3⟩ := ih (TMF.step' s op) m1 hm' hfin.1
      exact ⟨m', h1, h2, h3.trans hfin.2⟩

/-! ## C17 — the deposit ledger (`LP.TM`, extended operations `TM.OpX`)

Projection `TMF.tmOf` (Lemmas/TokenMergeFullLedger.lean): minter address, admin, the source contracts and their owner tables,
`mint_tokens`, start, limits, the mintable ids in position order, `MINTER_ADDRS`, `RECEIVED_TOKENS`, the minter's own collection as
an owner map, the two factory parameters the aspect state carries; source-collection approvals / operators are empty (the
composite sends by owners).  Translation `TMF.tmOps : List TM.OpX`: forward simulation with stuttering; every accepted composite
message is ZERO or ONE aspect op (`tm_sim_step`): the core ops wrapped in `.core`, `Shuffle` ↦ `.shuffle true perm`, holder
`TransferNft` / `Burn` in the minter's own collection ↦ `.tgtTransfer` / `.tgtBurn`, `sudo UpdateParams` ↦ `.govern`; the aspect
`picked` witness is the id the composite's position witness stands for, every aspect `w` flag is `true`.  Hypotheses: the supply
invariant `FInv` (a theorem for every history from creation: `C01_fulltm_inv`; preserved by every step) and `TmQuiet` = "no NEW
source contract appears" (`TM.State.colls` is fixed — the only message kind left without an aspect counterpart). -/

namespace TMF

theorem finv_step (s : State) (m : Minter) (hm : s.minter = some m) (hi : Supply.FInv m.supply) (op : Op) :
    ∃ m', (step' s op).minter = some m' ∧ Supply.FInv m'.supply := by
  have hsim := supply_sim s m hm op
  unfold supplyOf at hsim
  cases hm' : (step' s op).minter with
  | none => rw [hm'] at hsim; cases hsim
  | some m' =>
    rw [hm'] at hsim
    simp only [Option.map_some, Option.some.injEq] at hsim
    exact ⟨m', rfl, by rw [hsim]; exact (Supply.Fixed.step'_inv _ hi).1⟩

/-- one-step simulation, both outcomes -/
theorem tm_sim (s : State) (m : Minter) (hm : s.minter = some m) (hi : Supply.FInv m.supply) (op : Op) (hq : TmQuiet s op) :
    ∃ m', (step' s op).minter = some m' ∧ TM.runX (tmOf s m) (tmOps s m op) = tmOf (step' s op) m' := by
  rcases step'_cases s op with ⟨s', hok, hs'⟩ | ⟨⟨e, herr⟩, hs'⟩
  · rw [hs']; exact tm_sim_ok hm hok hi hq
  · rw [hs']
    exact ⟨m, hm, by simp [tmOps, accepted_of_err herr, TM.runX]⟩

def tmRunOps (s : State) : List Op → List TM.OpX
  | [] => []
  | op :: rest =>
    (match s.minter with
     | some m => tmOps s m op
     | none => []) ++ tmRunOps (step' s op) rest

/-- no new source contract appears along the history -/
def QuietRun (s : State) : List Op → Prop
  | [] => True
  | op :: rest => TmQuiet s op ∧ QuietRun (step' s op) rest

theorem tm_run_append (w : TM.State) (a b : List TM.OpX) : TM.runX w (a ++ b) = TM.runX (TM.runX w a) b := by
  simp [TM.runX, List.foldl_append]

/-- **lift to runs** -/
theorem tm_run (s : State) (m : Minter) (hm : s.minter = some m) (hi : Supply.FInv m.supply) (ops : List Op)
    (hq : QuietRun s ops) :
    ∃ m', (run s ops).minter = some m' ∧ Supply.FInv m'.supply ∧
      TM.runX (tmOf s m) (tmRunOps s ops) = tmOf (run s ops) m' := by
  induction ops generalizing s m with
  | nil => exact ⟨m, hm, hi, rfl⟩
  | cons op ops ih =>
    obtain ⟨hq1, hq2⟩ := hq
    obtain ⟨m1, hm1, heq⟩ := tm_sim s m hm hi op hq1
    obtain ⟨m1', hm1', hi1⟩ := finv_step s m hm hi op
    rw [hm1] at hm1'; cases hm1'
    obtain ⟨m', hm', hi', hrun⟩ := ih (step' s op) m1 hm1 hi1 hq2
    refine ⟨m', by rw [run_cons]; exact hm', hi', ?_⟩
    simp only [tmRunOps, hm]
    rw [tm_run_append, heq, hrun, run_cons]

/-- an accepted composite `SendNft` deposit is the accepted aspect `send` -/
theorem tm_send_step {s s' : State} {m : Minter} {caller coll : Addr} {id : Nat} {contract : Addr} {recipient : Option Addr}
    {msgOk : Bool} {picked : Nat} (hm : s.minter = some m) (hi : Supply.FInv m.supply)
    (h : step s (.send caller coll id contract recipient msgOk picked) = .ok s') :
    ∃ m', s'.minter = some m' ∧
      TM.step (tmOf s m) (.send caller coll id contract recipient msgOk (pickedId m picked)) = .ok (tmOf s' m') := by
  obtain ⟨m', hm', hcase⟩ := tm_sim_step hm h hi trivial
  refine ⟨m', hm', ?_⟩
  have hacc := accepted_of_ok h
  rcases hcase with ⟨h0, _⟩ | ⟨aop, h1, hstep⟩
  · rw [tmOps, if_pos hacc] at h0; cases h0
  · rw [tmOps, if_pos hacc] at h1
    simp only [tmCore, List.cons.injEq, and_true] at h1
    rw [← h1] at hstep; exact hstep

/-- with no approvals and no operators, "may send" is "is the owner" -/
theorem canSend_owner {s : State} {m : Minter} {c : Addr} {id : Nat} {who : Addr}
    (h : TM.canSend (tmOf s m) c id who = true) : s.srcs.owner c id = some who := by
  unfold TM.canSend at h
  simp only [tmOf] at h
  cases ho : s.srcs.owner c id with
  | none => rw [ho] at h; cases h
  | some o =>
    rw [ho] at h
    simp [TM.liveIn] at h
    rw [h]

end TMF

/-- the C17 simulation: one composite step = the translated aspect ops (zero or one) on the projection -/
theorem C17_fulltm_refines (s : TMF.State) (m : TMF.Minter) (hm : s.minter = some m) (hi : Supply.FInv m.supply) (op : TMF.Op)
    (hq : TMF.TmQuiet s op) :
    ∃ m', (TMF.step' s op).minter = some m' ∧
      TM.runX (TMF.tmOf s m) (TMF.tmOps s m op) = TMF.tmOf (TMF.step' s op) m' :=
  TMF.tm_sim s m hm hi op hq

/-- "strictly after the start time … only a required collection contract can credit a deposit … a recipient at its per-address
limit cannot deposit further": an accepted composite `SendNft` deposit happened strictly after the start, to the minter, by the
token's owner, from a collection that is required and whose credit for the recipient was still below the required amount, for a
recipient below the per-address limit -/
theorem C17_fulltm_deposit_guards (s s' : TMF.State) (m : TMF.Minter) (hm : s.minter = some m) (hi : Supply.FInv m.supply)
    (caller coll : Addr) (id : Nat) (contract : Addr) (recipient : Option Addr) (msgOk : Bool) (picked : Nat)
    (h : TMF.step s (.send caller coll id contract recipient msgOk picked) = .ok s') :
    m.startTime < s.now ∧ contract = m.addr ∧ s.srcs.owner coll id = some caller ∧
    (∃ amt, TMF.requiredOf m.mintTokens coll = some amt ∧ m.ledger (recipient.getD caller) coll < amt) ∧
    m.mintCount (recipient.getD caller) < m.perAddressLimit := by
  obtain ⟨m', _, hstep⟩ := TMF.tm_send_step hm hi h
  obtain ⟨h1, h2, h3, ⟨amt, h4, h5⟩, h6⟩ := C17_deposit_guards_send hstep
  exact ⟨h1, h2, TMF.canSend_owner h3, ⟨amt, by rw [← TMF.requiredOf_eq]; exact h4, h5⟩, h6⟩

/-- "mints a new token to a recipient exactly when that recipient has been credited the required number of tokens from every
required collection": after an accepted composite deposit the minter's collection has one more token iff, counting this deposit,
the requirement is fulfilled — then the token goes to the recipient, whose mint count goes up by one; otherwise nothing is minted
and exactly one credit is added -/
theorem C17_fulltm_mint_iff (s s' : TMF.State) (m : TMF.Minter) (hm : s.minter = some m) (hi : Supply.FInv m.supply)
    (caller coll : Addr) (id : Nat) (contract : Addr) (recipient : Option Addr) (msgOk : Bool) (picked : Nat)
    (h : TMF.step s (.send caller coll id contract recipient msgOk picked) = .ok s') :
    ∃ m', s'.minter = some m' ∧
      (m'.supply.coll.count = m.supply.coll.count + 1 ↔ Fulfilled (TMF.tmOf s m) (recipient.getD caller) coll) ∧
      (Fulfilled (TMF.tmOf s m) (recipient.getD caller) coll →
        ∃ tok, tok ∈ m.supply.ids ∧ m.supply.coll.ownerOf tok = none ∧
          m'.supply.coll.ownerOf tok = some (recipient.getD caller) ∧
          m'.mintCount (recipient.getD caller) = m.mintCount (recipient.getD caller) + 1 ∧
          m'.supply.ids.length + 1 = m.supply.ids.length) ∧
      (¬ Fulfilled (TMF.tmOf s m) (recipient.getD caller) coll →
        m'.supply.coll.count = m.supply.coll.count ∧ m'.mintCount = m.mintCount ∧ m'.supply.ids = m.supply.ids ∧
        m'.ledger (recipient.getD caller) coll = m.ledger (recipient.getD caller) coll + 1) := by
  obtain ⟨m', hm', hstep⟩ := TMF.tm_send_step hm hi h
  obtain ⟨h1, h2, h3⟩ := C17_send_mint_iff hstep
  refine ⟨m', hm', h1, ?_, ?_⟩
  · intro hf
    obtain ⟨tok, a1, a2, a3, _, a5, a6⟩ := h2 hf
    exact ⟨tok, a1, a2, a3, a5, a6⟩
  · intro hf
    obtain ⟨b1, _, b3, b4, b5⟩ := h3 hf
    exact ⟨b1, b3, b4, b5⟩

/-- "each deposited token is burned": after an accepted composite deposit the token no longer exists in its source collection
and that collection's token count went down by one -/
theorem C17_fulltm_burn_each (s s' : TMF.State) (m : TMF.Minter) (hm : s.minter = some m) (hi : Supply.FInv m.supply)
    (caller coll : Addr) (id : Nat) (contract : Addr) (recipient : Option Addr) (msgOk : Bool) (picked : Nat)
    (h : TMF.step s (.send caller coll id contract recipient msgOk picked) = .ok s') :
    s'.srcs.owner coll id = none ∧ s'.srcs.num coll = s.srcs.num coll - 1 := by
  obtain ⟨m', _, hstep⟩ := TMF.tm_send_step hm hi h
  obtain ⟨h1, h2, _⟩ := C17_burn_each_send hstep
  exact ⟨h1, h2⟩

/-- "a user calling the receive hook directly is rejected": whoever is not a source collection contract cannot make the hook
succeed, whatever sender, token id and recipient it claims — even when its address is listed in `mint_tokens` -/
theorem C17_fulltm_direct_receive_rejected (s : TMF.State) (m : TMF.Minter) (hm : s.minter = some m) (hi : Supply.FInv m.supply)
    (caller sender : Addr) (id : Nat) (recipient : Option Addr) (msgOk : Bool) (picked : Nat)
    (huser : caller ∉ s.srcs.colls) :
    ∃ e, TMF.step s (.receive caller sender id recipient msgOk picked) = .error e := by
  cases h : TMF.step s (.receive caller sender id recipient msgOk picked) with
  | error e => exact ⟨e, rfl⟩
  | ok s' =>
    exfalso
    obtain ⟨m', _, hcase⟩ := TMF.tm_sim_step hm h hi trivial
    have hacc := TMF.accepted_of_ok h
    rcases hcase with ⟨h0, _⟩ | ⟨aop, h1, hstep⟩
    · rw [TMF.tmOps, if_pos hacc] at h0; cases h0
    · rw [TMF.tmOps, if_pos hacc] at h1
      simp only [TMF.tmCore, List.cons.injEq, and_true] at h1
      rw [← h1] at hstep
      obtain ⟨e, he⟩ := C17_direct_receive_rejected (s := TMF.tmOf s m) (caller := caller) (sender := sender) (id := id)
        (rcp := recipient) (msgOk := msgOk) (picked := TMF.pickedId m picked) huser
      have hstep' : TM.step (TMF.tmOf s m) (.receive caller sender id recipient msgOk (TMF.pickedId m picked)) =
          .ok (TMF.tmOf s' m') := hstep
      rw [he] at hstep'; cases hstep' 

/-- the ledger invariant over composite histories: from any state whose ledger is bounded (e.g. right after `CreateMinter`),
after ANY history (every message kind; no new source contract) nobody is credited more than `mint_tokens` asks from a collection, and nothing at all
for a collection that is not listed -/
theorem C17_fulltm_ledger_bounded (s : TMF.State) (m : TMF.Minter) (hm : s.minter = some m) (hi : Supply.FInv m.supply)
    (h0 : ∀ r c, m.ledger r c ≤ (TMF.requiredOf m.mintTokens c).getD 0) (ops : List TMF.Op) (hq : TMF.QuietRun s ops)
    (r c : Addr) :
    ∃ m', (TMF.run s ops).minter = some m' ∧ m'.ledger r c ≤ (TMF.requiredOf m.mintTokens c).getD 0 := by
  obtain ⟨m', hm', _, heq⟩ := TMF.tm_run s m hm hi ops hq
  have hb : LedgerBounded (TMF.tmOf s m) := by
    intro r c
    show m.ledger r c ≤ (TM.requiredOf m.mintTokens c).getD 0
    rw [TMF.requiredOf_eq]; exact h0 r c
  have := C17_x_ledger_bounded (TMF.tmOf s m) hb (TMF.tmRunOps s ops) r c
  rw [heq] at this
  refine ⟨m', hm', ?_⟩
  have h2 : (TM.requiredOf (TMF.tmOf s m).required c).getD 0 = (TMF.requiredOf m.mintTokens c).getD 0 := by
    show (TM.requiredOf m.mintTokens c).getD 0 = _
    rw [TMF.requiredOf_eq]
  rw [h2] at this
  exact this

/-- "the recipient's deposit ledger is reset after each mint" (deposit-triggered mints): when an accepted composite deposit
mints, the recipient's whole ledger row is zero afterwards -/
theorem C17_fulltm_reset (s s' : TMF.State) (m : TMF.Minter) (hm : s.minter = some m) (hi : Supply.FInv m.supply)
    (h0 : ∀ r c, m.ledger r c ≤ (TMF.requiredOf m.mintTokens c).getD 0)
    (caller coll : Addr) (id : Nat) (contract : Addr) (recipient : Option Addr) (msgOk : Bool) (picked : Nat)
    (h : TMF.step s (.send caller coll id contract recipient msgOk picked) = .ok s') :
    ∃ m', s'.minter = some m' ∧
      (m'.supply.coll.count = m.supply.coll.count + 1 → ∀ c, m'.ledger (recipient.getD caller) c = 0) := by
  obtain ⟨m', hm', hstep⟩ := TMF.tm_send_step hm hi h
  refine ⟨m', hm', fun hminted c => ?_⟩
  have hb : LedgerBounded (TMF.tmOf s m) := by
    intro r c
    show m.ledger r c ≤ (TM.requiredOf m.mintTokens c).getD 0
    rw [TMF.requiredOf_eq]; exact h0 r c
  exact C17_reset (TMF.tmOf s m) hb [] (s' := TMF.tmOf s' m') hstep hminted c

/-- "mints … exactly when", the other direction: a composite message after which the minter's collection has MORE tokens is a
deposit or an airdrop by the admin; nothing else, by anybody, mints (a holder's transfer moves an existing token, a holder's burn
removes one, `Shuffle` and governance do not touch the collection) -/
theorem C17_fulltm_mint_only_via_deposit_or_admin (s s' : TMF.State) (m m' : TMF.Minter) (hm : s.minter = some m)
    (hi : Supply.FInv m.supply) (op : TMF.Op) (hq : TMF.TmQuiet s op) (h : TMF.step s op = .ok s')
    (hm' : s'.minter = some m') (hchg : m.supply.coll.count < m'.supply.coll.count) :
    (∃ caller coll id contract rcp msgOk picked, op = .send caller coll id contract rcp msgOk picked) ∨
    (∃ caller sender id rcp msgOk picked, op = .receive caller sender id rcp msgOk picked) ∨
    (∃ funds rcpt picked, op = .mintTo m.admin funds rcpt picked) ∨
    (∃ funds id rcpt, op = .mintFor m.admin funds id rcpt) := by
  obtain ⟨m1, hm1, hcase⟩ := TMF.tm_sim_step hm h hi hq
  rw [hm'] at hm1; cases hm1
  have hacc := TMF.accepted_of_ok h
  rcases hcase with ⟨_, heq⟩ | ⟨aop, h1, hstep⟩
  · exfalso
    have : m'.supply.coll.count = m.supply.coll.count := congrArg TM.State.tgtNum heq
    omega
  · have hnew : (TMF.tmOf s m).tgtNum < (TMF.tmOf s' m').tgtNum ∨
        ∃ id, (TMF.tmOf s m).tgtOwner id = none ∧ (TMF.tmOf s' m').tgtOwner id ≠ none := Or.inl hchg
    rw [TMF.tmOps, if_pos hacc] at h1
    obtain ⟨o, rfl, ho⟩ := C17_x_mint_only_via_deposit_or_admin hstep hnew
    rcases ho with ⟨a1, a2, a3, a4, a5, a6, a7, rfl, _⟩ | ⟨a1, a2, a3, a4, a5, a6, rfl, _⟩ | ⟨a1, a2, a3, rfl⟩ | ⟨a1, a2, a3, rfl⟩
    · cases op <;> simp [TMF.tmCore] at h1
      · exact Or.inl ⟨_, _, _, _, _, _, _, rfl⟩
      · split at h1 <;> simp at h1
    · cases op <;> simp [TMF.tmCore] at h1
      · exact Or.inr (Or.inl ⟨_, _, _, _, _, _, rfl⟩)
      · split at h1 <;> simp at h1
    · cases op <;> simp [TMF.tmCore] at h1
      · obtain ⟨rfl, _⟩ := h1
        exact Or.inr (Or.inr (Or.inl ⟨_, _, _, rfl⟩))
      · split at h1 <;> simp at h1
    · cases op <;> simp [TMF.tmCore] at h1
      · obtain ⟨rfl, _⟩ := h1
        exact Or.inr (Or.inr (Or.inr ⟨_, _, _, rfl⟩))
      · split at h1 <;> simp at h1

/-! ## C02 — an airdrop charges exactly the airdrop price and disburses all of it; a deposit moves no coins

Projection `TMF.payOf` (family `tokenMerge`, the factory's airdrop price / fee, the admin, the bank, the clock); translation
`TMF.payOps`: `MintTo` / `MintFor` ↦ the aspect `mint … isAdmin = true`, a deposit (`SendNft` or a direct hook call) ↦ the aspect
token-merge deposit `mint (hook caller) false []` (no payment check, no bank message), `sudo UpdateParams` ↦ `sudoParams`;
one-step simulation `TMF.pay_sim_ok/_err` (Lemmas/TokenMergeFullPay.lean) for every message except `Shuffle` (the aspect model has
no operation for the shuffle fee).  Composite deposits carry no funds (a cw721 `send_nft` forwards none). -/

namespace TMF

def NoShuffle (ops : List Op) : Prop := ∀ op ∈ ops, ∀ sender funds perm, op ≠ .shuffle sender funds perm

/-- the composite history as an aspect-model history -/
def payRunOps (s : State) : List Op → List MintPay.Op
  | [] => []
  | op :: rest => payOps s op ++ payRunOps (step' s op) rest

theorem pay_sim (s : State) (m : Minter) (hm : s.minter = some m) (op : Op)
    (hop : ∀ sender funds perm, op ≠ .shuffle sender funds perm) :
    ∃ m', (step' s op).minter = some m' ∧ payOf (step' s op) m' = MintPay.run (payOf s m) (payOps s op) := by
  rcases step'_cases s op with ⟨s', hok, hs'⟩ | ⟨⟨e, herr⟩, hs'⟩
  · obtain ⟨m', hm', heq⟩ := pay_sim_ok hm hok hop
    rw [hs']; exact ⟨m', hm', heq⟩
  · rw [hs']; exact ⟨m, hm, (pay_sim_err herr).symm⟩

theorem pay_run (s : State) (m : Minter) (hm : s.minter = some m) (ops : List Op) (hns : NoShuffle ops) :
    ∃ m', (run s ops).minter = some m' ∧ payOf (run s ops) m' = MintPay.run (payOf s m) (payRunOps s ops) := by
  induction ops generalizing s m with
  | nil => exact ⟨m, hm, rfl⟩
  | cons op ops ih =>
    obtain ⟨m1, hm1, heq⟩ := pay_sim s m hm op (hns op (List.mem_cons_self ..))
    obtain ⟨m', hm', hrun⟩ := ih (step' s op) m1 hm1 (fun o ho => hns o (List.mem_cons_of_mem _ ho))
    refine ⟨m', by rw [run_cons]; exact hm', ?_⟩
    rw [run_cons, hrun, heq]
    simp only [payRunOps]
    rw [pay_run_append]

/-- an accepted `MintTo` / `MintFor`, as the aspect model's admin `mint` on the projected world -/
theorem mint_is_pay_mint {s s' : State} {m : Minter} {op : Op} (hm : s.minter = some m) (h : step s op = .ok s')
    (sender : Addr) (funds : List Coin)
    (hop : (∃ r p, op = .mintTo sender funds r p) ∨ (∃ id r, op = .mintFor sender funds id r)) :
    MintPay.mint (payOf s m) sender true funds true = .ok { payOf s m with bank := s'.bank } := by
  rcases hop with ⟨r, p, rfl⟩ | ⟨id, r, rfl⟩
  · simp only [step] at h
    obtain ⟨m0, hm0, h⟩ := withMinterS_ok h
    rw [hm] at hm0; cases hm0
    exact mintAdmin_pay h
  · simp only [step] at h
    obtain ⟨m0, hm0, h⟩ := withMinterS_ok h
    rw [hm] at hm0; cases hm0
    exact mintAdmin_pay h

/-- who a composite op moves money for, as far as the minter's own balance is concerned (the hook is never called from the
minter's own address) -/
def PayAway (mi : Addr) : Op → Prop
  | .fund a _ => a ≠ mi
  | .mintTo sender _ _ _ => sender ≠ mi
  | .mintFor sender _ _ _ => sender ≠ mi
  | .send _ coll _ _ _ _ _ => coll ≠ mi
  | .receive caller _ _ _ _ _ => caller ≠ mi
  | _ => True

theorem payOps_away (s : State) (op : Op) (mi : Addr) (h : PayAway mi op) (hdao : LAUNCHPAD_DAO ≠ mi) :
    ∀ o ∈ payOps s op, LP.OpAway mi payVariant o := by
  intro o ho
  cases op <;> simp only [payOps] at ho
  case setTime t => split at ho <;> simp at ho; subst ho; trivial
  case fund a c => simp at ho; subst ho; exact h
  case send caller coll id contract recipient msgOk picked => simp at ho; subst ho; exact ⟨h, Or.inr rfl⟩
  case receive caller sender id recipient msgOk picked => simp at ho; subst ho; exact ⟨h, Or.inr rfl⟩
  case mintTo sender funds r p => simp at ho; subst ho; exact ⟨h, Or.inl (by simp)⟩
  case mintFor sender funds id r => simp at ho; subst ho; exact ⟨h, Or.inl (by simp)⟩
  case sudoParams u => split at ho <;> simp at ho; subst ho; exact hdao
  all_goals simp at ho

theorem payRunOps_away (s : State) (ops : List Op) (mi : Addr) (h : ∀ op ∈ ops, PayAway mi op) (hdao : LAUNCHPAD_DAO ≠ mi) :
    ∀ o ∈ payRunOps s ops, LP.OpAway mi payVariant o := by
  induction ops generalizing s with
  | nil => intro o ho; simp [payRunOps] at ho
  | cons op ops ih =>
    intro o ho
    simp only [payRunOps, List.mem_append] at ho
    rcases ho with ho | ho
    · exact payOps_away s op mi (h op (List.mem_cons_self ..)) hdao o ho
    · exact ih (step' s op) (fun x hx => h x (List.mem_cons_of_mem _ hx)) o ho

end TMF

/-- the C02 simulation: one composite step (any message but `Shuffle`) = the translated aspect ops on the projection -/
theorem C02_fulltm_refines (s : TMF.State) (m : TMF.Minter) (hm : s.minter = some m) (op : TMF.Op)
    (hop : ∀ sender funds perm, op ≠ .shuffle sender funds perm) :
    ∃ m', (TMF.step' s op).minter = some m' ∧
      TMF.payOf (TMF.step' s op) m' = MintPay.run (TMF.payOf s m) (TMF.payOps s op) :=
  TMF.pay_sim s m hm op hop

/-- "A mint … succeeds only if the caller attaches exactly the price currently in force for that kind of mint": every accepted
composite `MintTo` / `MintFor` carried exactly the factory's airdrop price (nothing when it is zero) -/
theorem C02_fulltm_exact_payment (s s' : TMF.State) (m : TMF.Minter) (op : TMF.Op) (hm : s.minter = some m)
    (h : TMF.step s op = .ok s') (sender : Addr) (funds : List Coin)
    (hop : (∃ r p, op = .mintTo sender funds r p) ∨ (∃ id r, op = .mintFor sender funds id r)) :
    funds = LP.exactFunds s.params.airdropMintPrice := by
  have hmint := TMF.mint_is_pay_mint hm h sender funds hop
  obtain ⟨price', hsel, hf⟩ :=
    C02_exact_payment (TMF.payOf s m) _ sender true funds true (Or.inr (Or.inr ⟨rfl, rfl⟩)) hmint
  have : MintPay.selectPrice (TMF.payOf s m).v (TMF.payOf s m).f (TMF.payOf s m).m (TMF.payOf s m).now true =
      .ok s.params.airdropMintPrice := by
    unfold MintPay.selectPrice
    simp [TMF.payOf, TMF.payVariant, TMF.payFactory]
  rw [this] at hsel
  cases hsel
  exact hf

/-- "the network fee is paid to the protocol fee recipients according to the fee schedule, the rest goes to … the creator": the
composite's bank after an accepted airdrop is the bank after (1) the funds reach the minter, (2)
`distribute_mint_fees(fee, false, None)`, (3) one send of `price − fee` to the ADMIN — nothing else -/
theorem C02_fulltm_fee_routing (s s' : TMF.State) (m : TMF.Minter) (op : TMF.Op) (hm : s.minter = some m)
    (h : TMF.step s op = .ok s') (sender : Addr) (funds : List Coin)
    (hop : (∃ r p, op = .mintTo sender funds r p) ∨ (∃ id r, op = .mintFor sender funds id r)) :
    ∃ b1, s.bank.sendFunds sender m.addr (LP.exactFunds s.params.airdropMintPrice) = some b1 ∧
      TMF.networkFee s.params ≤ s.params.airdropMintPrice.amount ∧
      MintPay.applyMsgs m.addr b1
        ((if TMF.networkFee s.params = 0 then []
          else Sg1.distributeMintFees ⟨s.params.airdropMintPrice.denom, TMF.networkFee s.params⟩ false none) ++
         (if s.params.airdropMintPrice.amount - TMF.networkFee s.params = 0 then []
          else [Msg.send m.admin ⟨s.params.airdropMintPrice.denom,
            s.params.airdropMintPrice.amount - TMF.networkFee s.params⟩])) = some s'.bank := by
  have hmint := TMF.mint_is_pay_mint hm h sender funds hop
  obtain ⟨price', b1, hsel, hb1, hle, happ⟩ :=
    C02_fee_routing (TMF.payOf s m) _ sender true funds true (Or.inr (Or.inr ⟨rfl, rfl⟩)) hmint
  have : MintPay.selectPrice (TMF.payOf s m).v (TMF.payOf s m).f (TMF.payOf s m).m (TMF.payOf s m).now true =
      .ok s.params.airdropMintPrice := by
    unfold MintPay.selectPrice
    simp [TMF.payOf, TMF.payVariant, TMF.payFactory]
  rw [this] at hsel
  cases hsel
  exact ⟨b1, hb1, hle, happ⟩

/-- "the minter contract's own balance is unchanged, so no coins are stranded" — every accepted composite airdrop whose payer is
not the minter itself, every denom -/
theorem C02_fulltm_minter_balance_unchanged (s s' : TMF.State) (m : TMF.Minter) (op : TMF.Op) (hm : s.minter = some m)
    (h : TMF.step s op = .ok s') (sender : Addr) (funds : List Coin)
    (hop : (∃ r p, op = .mintTo sender funds r p) ∨ (∃ id r, op = .mintFor sender funds id r))
    (hsm : sender ≠ m.addr)
    (hrec : m.addr ∉ MintPay.recipients TMF.payVariant (TMF.payFactory s.params) (TMF.payMinter m)) (d : Denom) :
    s'.bank.bal m.addr d = s.bank.bal m.addr d := by
  have hmint := TMF.mint_is_pay_mint hm h sender funds hop
  exact C02_minter_balance_unchanged (TMF.payOf s m) _ sender true funds true hmint (Or.inl (by simp)) hsm hrec d

/-- "no coins are created, lost or stranded" by an accepted composite airdrop -/
theorem C02_fulltm_conservation (s s' : TMF.State) (m : TMF.Minter) (op : TMF.Op) (hm : s.minter = some m)
    (h : TMF.step s op = .ok s') (sender : Addr) (funds : List Coin)
    (hop : (∃ r p, op = .mintTo sender funds r p) ∨ (∃ id r, op = .mintFor sender funds id r))
    (accts : List Addr) (hn : accts.Nodup) (hsnd : sender ∈ accts) (hmin : m.addr ∈ accts)
    (hrec : ∀ a ∈ MintPay.recipients TMF.payVariant (TMF.payFactory s.params) (TMF.payMinter m), a ∈ accts) (d : Denom) :
    s'.bank.total accts d + s'.bank.burned d = s.bank.total accts d + s.bank.burned d ∧
    s'.bank.minted d = s.bank.minted d ∧ s'.bank.burned d = s.bank.burned d := by
  have hmint := TMF.mint_is_pay_mint hm h sender funds hop
  obtain ⟨h1, h2, h3⟩ := C02_conservation (TMF.payOf s m) _ sender true funds true accts hn hsnd hmin hrec hmint d
  exact ⟨h1, h2, h3 (by simp [TMF.payOf, TMF.payVariant])⟩

/-- an accepted composite deposit (`SendNft` to the minter or a hook call) moves no coins at all -/
theorem C02_fulltm_deposit_moves_no_coins (s s' : TMF.State) (m : TMF.Minter) (op : TMF.Op) (hm : s.minter = some m)
    (h : TMF.step s op = .ok s')
    (hop : (∃ caller coll id ct r mk p, op = .send caller coll id ct r mk p) ∨
           (∃ caller sender id r mk p, op = .receive caller sender id r mk p)) : s'.bank = s.bank := by
  have hns : ∀ sender funds perm, op ≠ .shuffle sender funds perm := by
    rcases hop with ⟨_, _, _, _, _, _, _, rfl⟩ | ⟨_, _, _, _, _, _, rfl⟩ <;> intro _ _ _ hx <;> cases hx
  obtain ⟨m', _, heq⟩ := TMF.pay_sim_ok hm h hns
  have hacc := TMF.accepted_of_ok h
  rcases hop with ⟨caller, coll, id, ct, r, mk, p, rfl⟩ | ⟨caller, sender, id, r, mk, p, rfl⟩
  · simp only [TMF.payOps, hacc, TMF.pay_run_one] at heq
    rw [TMF.pay_step'_ok (show MintPay.step (TMF.payOf s m) (.mint coll false [] true) = _ from TMF.deposit_pay s m coll)] at heq
    exact congrArg MintPay.World.bank heq
  · simp only [TMF.payOps, hacc, TMF.pay_run_one] at heq
    rw [TMF.pay_step'_ok (show MintPay.step (TMF.payOf s m) (.mint caller false [] true) = _ from TMF.deposit_pay s m caller)] at heq
    exact congrArg MintPay.World.bank heq

/-- "the minter contract's own balance is unchanged" after ANY composite history without `Shuffle` (airdrops with any funds,
accepted or not, deposits, governance changes, clock steps, collection messages), as long as nobody funds the minter directly and
the minter is not its own payer or payee -/
theorem C02_fulltm_history_minter_never_holds (s : TMF.State) (m : TMF.Minter) (hm : s.minter = some m) (ops : List TMF.Op)
    (hns : TMF.NoShuffle ops) (haway : ∀ op ∈ ops, TMF.PayAway m.addr op)
    (hrec : m.addr ∉ MintPay.recipients TMF.payVariant (TMF.payFactory s.params) (TMF.payMinter m)) (d : Denom) :
    (TMF.run s ops).bank.bal m.addr d = s.bank.bal m.addr d := by
  obtain ⟨m', _, heq⟩ := TMF.pay_run s m hm ops hns
  have hdao : LAUNCHPAD_DAO ≠ m.addr := by
    intro hx; apply hrec; rw [← hx]; simp [MintPay.recipients]
  have := C02_history_minter_never_holds (TMF.payOf s m) (TMF.payRunOps s ops) hrec
    (TMF.payRunOps_away s ops m.addr haway hdao) d
  rw [← heq] at this
  exact this

/-! ## Non-vacuity: a concrete composite history (kernel-evaluated) in which the hypotheses above hold and both kinds of mint succeed -/

def ctParams : TMF.Params :=
  { codeId := 9, allowed := [16], frozen := false, creationFee := ⟨0, 1000⟩, maxTradingOffsetSecs := 3600, maxTokenLimit := 100,
    maxPerAddressLimit := 5, airdropMintPrice := ⟨0, 100⟩, airdropMintFeeBps := 10000, shuffleFee := ⟨0, 10⟩ }

def ctT0 : Nat := 1647032400000000000

/-- a fresh token-merge factory; code id 9 = `token-merge-minter`, 16 = `sg721-base` -/
def ctInit : TMF.State := TMF.init ctT0 ⟨[9], [16, 17, 18, 19]⟩ 1000 ctParams

/-- a source collection 2001 with three tokens owned by 20; a merge minter (3 tokens) asking for TWO tokens of 2001; after the
start 20 deposits token 1 (credit only), then token 2 (completes: burned, id 3 minted to 20, ledger reset); the admin airdrops one;
a direct call of the hook by 20 is refused -/
def ctOps : List TMF.Op :=
  [.fund 10 ⟨0, 5000⟩, .srcNew 2001, .srcGive 2001 1 20, .srcGive 2001 2 20, .srcGive 2001 3 20,
   .create 10 [⟨0, 1000⟩]
     { collCode := 16, creator := 10, trading := none, uriOk := true, startTime := ctT0 + 100, numTokens := 3,
       mintTokens := [(2001, 2)], perAddressLimit := 2, collOk := true }
     { minterAddr := 1001, collAddr := 1002, perm := [2, 3, 1] },
   .setTime (ctT0 + 101),
   .send 20 2001 1 1001 none true 2, .send 20 2001 2 1001 none true 2, .mintTo 10 [⟨0, 100⟩] 30 1,
   .receive 20 20 3 none true 3]

example : ctInit.minter.isNone = true := by decide

example : (TMF.run ctInit ctOps).minter.map
    (fun m => (m.supply.minted, m.supply.mintable, m.supply.coll.toks)) = some ([2, 3], 1, [(2, 30), (3, 20)]) := by decide

example : (TMF.run ctInit ctOps).minter.map (fun m => (m.mintCount 20, m.mintCount 30, m.ledger 20 2001)) = some (1, 1, 0) := by
  decide

/-- both deposited tokens are burned, the third is still 20's; the airdrop cost the admin its price; the minter holds nothing -/
example : ((TMF.run ctInit ctOps).srcs.num 2001, (TMF.run ctInit ctOps).srcs.owner 2001 3,
    (TMF.run ctInit ctOps).bank.bal 10 0, (TMF.run ctInit ctOps).bank.bal 1001 0) = (1, some 20, 3900, 0) := by decide

end LP
