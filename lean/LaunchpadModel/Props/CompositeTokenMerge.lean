import LaunchpadModel.Lemmas.TokenMergeFull
import LaunchpadModel.Props.C01
/-!
# Refinement theorems: the composite token-merge model `LP.TMF` (Model/TokenMergeFull.lean) refines the aspect models

Same structure as `Props/CompositeVending.lean`: per aspect a projection, an op translation whose witnesses are computed from the
composite state, the one-step simulation, its lift to runs, and the headline theorems restated for composite runs
(`Cxx_fulltm_*`).  Order: C01 (`Supply.Fixed`), C17 (`TM`, the deposit ledger), C02 (`MintPay`).
-/
namespace LP
open LP.TMF

namespace TMF

/-! ## C01 — supply (`Supply.Fixed`) -/

/-- projection: the supply component (position map, counter, mint log, burned count, collection token table) -/
def supplyOf (s : State) : Option Supply.Fixed := s.minter.map (·.supply)

/-- does crediting one token of collection `c` to recipient `r` complete the requirement (⇒ the deposit mints)? -/
def completes (s : State) (c r : Addr) : Bool :=
  match s.minter with
  | some m => allReceived m.mintTokens (creditLedger m.ledger r c r)
  | none => false

/-- op translation: the gate of every aspect op is the composite's own verdict on the message; a deposit is the aspect `mint`
exactly when it completes the requirement, otherwise it has no supply effect -/
def supplyOp (s : State) (op : Op) : Supply.FOp :=
  let g := accepted s op
  match op with
  | .send caller coll _ _ recipient _ picked =>
    if completes s coll (recipient.getD caller) then .mint g picked (recipient.getD caller) else .noise g
  | .receive caller sender _ recipient _ picked =>
    if completes s caller (recipient.getD sender) then .mint g picked (recipient.getD sender) else .noise g
  | .mintTo _ _ rcpt picked => .mint g picked rcpt
  | .mintFor _ _ id rcpt => .mintFor g id rcpt
  | .shuffle _ _ perm => .shuffle g perm
  | .purge _ _ => .purge g
  | .burnRemaining _ _ => .burnRemaining g
  | .collBurn _ id => .collBurn g id
  | .collTransfer _ id to => .collTransfer g id to
  | _ => .noise g

theorem fixed_step'_of_some {f f' : Supply.Fixed} {op : Supply.FOp} (h : f.step op = some f') : f.step' op = f' := by
  simp [Supply.Fixed.step', h]

theorem fixed_step'_gate_false (f : Supply.Fixed) (op : Supply.FOp)
    (h : match op with
      | .mint g _ _ => g = false | .mintFor g _ _ => g = false | .shuffle g _ => g = false | .purge g => g = false
      | .burnRemaining g => g = false | .collBurn g _ => g = false | .collTransfer g _ _ => g = false
      | .noise g => g = false) : f.step' op = f := by
  cases op <;> simp only at h <;> subst h <;> simp [Supply.Fixed.step', Supply.Fixed.step]

/-- the supply effect of an accepted deposit -/
theorem supply_receive {s s' : State} {m : Minter} {caller sender : Addr} {tokenId : Nat} {recipient : Option Addr}
    {picked : Nat} (h : receiveNft s m caller sender tokenId recipient picked = .ok s') :
    ∃ m', s'.minter = some m' ∧
      m.supply.step (if allReceived m.mintTokens (creditLedger m.ledger (recipient.getD sender) caller (recipient.getD sender))
        then .mint true picked (recipient.getD sender) else .noise true) = some m'.supply := by
  obtain ⟨amt, _, _, _, _, hcase⟩ := receiveNft_ok h
  rcases hcase with ⟨hall, m1, hd, hb⟩ | ⟨hall, hb⟩
  · obtain ⟨sup, _, _, _, htake, rfl⟩ := deliver_ok hd
    obtain ⟨x, _, rfl⟩ := burnDeposit_ok hb
    exact ⟨_, rfl, by simpa [hall, Supply.Fixed.step, VF.takeToken] using htake⟩
  · obtain ⟨x, _, rfl⟩ := burnDeposit_ok hb
    exact ⟨_, rfl, by simp [hall, Supply.Fixed.step]⟩

/-- a successful composite step acts on the supply component exactly as the translated aspect op -/
theorem supply_step_ok {s s' : State} {m : Minter} {op : Op} (hm : s.minter = some m) (h : step s op = .ok s') :
    ∃ m', s'.minter = some m' ∧ m.supply.step (supplyOp s op) = some m'.supply := by
  have hacc := accepted_of_ok h
  cases op with
  | setTime t =>
    simp only [step] at h; split at h <;> cases h
    exact ⟨m, hm, by simp [supplyOp, hacc, Supply.Fixed.step]⟩
  | fund a c =>
    simp only [step] at h; cases h
    exact ⟨m, hm, by simp [supplyOp, hacc, Supply.Fixed.step]⟩
  | srcNew c =>
    simp only [step] at h; cases h
    exact ⟨m, hm, by simp [supplyOp, hacc, Supply.Fixed.step]⟩
  | srcGive c id to =>
    simp only [step] at h
    obtain ⟨x, _, rfl⟩ := onSrcs_ok h
    exact ⟨m, hm, by simp [supplyOp, hacc, Supply.Fixed.step]⟩
  | srcTransfer caller c id to =>
    simp only [step] at h
    obtain ⟨x, _, rfl⟩ := onSrcs_ok h
    exact ⟨m, hm, by simp [supplyOp, hacc, Supply.Fixed.step]⟩
  | send caller coll id contract recipient msgOk picked =>
    simp only [step] at h
    obtain ⟨x, m0, _, hm0, _, _, hr⟩ := sendNft_ok h
    rw [hm] at hm0; cases hm0
    obtain ⟨m', hm', hstep⟩ := supply_receive hr
    refine ⟨m', hm', ?_⟩
    simp only [supplyOp, hacc, completes, hm]
    split <;> simp_all
  | receive caller sender id recipient msgOk picked =>
    simp only [step] at h
    obtain ⟨m0, hm0, h⟩ := withMinterS_ok h
    rw [hm] at hm0; cases hm0
    obtain ⟨_, hr⟩ := receiveDirect_ok h
    obtain ⟨m', hm', hstep⟩ := supply_receive hr
    refine ⟨m', hm', ?_⟩
    simp only [supplyOp, hacc, completes, hm]
    split <;> simp_all
  | create sender funds msg w =>
    simp only [step] at h
    obtain ⟨_, _, _, _, hnone, _⟩ := createMinter_ok h
    rw [hm] at hnone; cases hnone
  | instantiateDirect sender => simp [step] at h
  | mintTo sender funds rcpt picked =>
    simp only [step] at h
    obtain ⟨m0, hm0, h⟩ := withMinterS_ok h
    rw [hm] at hm0; cases hm0
    obtain ⟨b1, ms, m1, b2, _, _, _, _, hd, _, rfl⟩ := mintAdmin_ok h
    obtain ⟨sup, _, _, _, htake, rfl⟩ := deliver_ok hd
    exact ⟨_, rfl, by simpa [supplyOp, hacc, Supply.Fixed.step, VF.takeToken] using htake⟩
  | mintFor sender funds id rcpt =>
    simp only [step] at h
    obtain ⟨m0, hm0, h⟩ := withMinterS_ok h
    rw [hm] at hm0; cases hm0
    obtain ⟨b1, ms, m1, b2, _, _, _, _, hd, _, rfl⟩ := mintAdmin_ok h
    obtain ⟨sup, _, _, _, htake, rfl⟩ := deliver_ok hd
    exact ⟨_, rfl, by simpa [supplyOp, hacc, Supply.Fixed.step, VF.takeToken] using htake⟩
  | purge sender funds =>
    simp only [step] at h
    obtain ⟨m0, m', hm0, hf, rfl⟩ := withMinter_ok h
    rw [hm] at hm0; cases hm0
    obtain ⟨_, hz, rfl⟩ := purge_ok hf
    exact ⟨_, rfl, by simp [supplyOp, hacc, Supply.Fixed.step, Supply.Fixed.purge, hz]⟩
  | updateStartTime sender funds t =>
    simp only [step] at h
    obtain ⟨m0, m', hm0, hf, rfl⟩ := withMinter_ok h
    rw [hm] at hm0; cases hm0
    obtain ⟨_, _, _, _, _, rfl⟩ := updateStartTime_ok hf
    exact ⟨_, rfl, by simp [supplyOp, hacc, Supply.Fixed.step]⟩
  | updateStartTradingTime sender funds t =>
    simp only [step] at h
    obtain ⟨m0, m', hm0, hf, rfl⟩ := withMinter_ok h
    rw [hm] at hm0; cases hm0
    obtain ⟨_, _, _, _, _, rfl⟩ := updateStartTradingTime_ok hf
    exact ⟨_, rfl, by simp [supplyOp, hacc, Supply.Fixed.step]⟩
  | updatePerAddressLimit sender funds n =>
    simp only [step] at h
    obtain ⟨m0, m', hm0, hf, rfl⟩ := withMinter_ok h
    rw [hm] at hm0; cases hm0
    obtain ⟨_, _, _, _, _, rfl⟩ := updatePerAddressLimit_ok hf
    exact ⟨_, rfl, by simp [supplyOp, hacc, Supply.Fixed.step]⟩
  | shuffle sender funds perm =>
    simp only [step] at h
    obtain ⟨m0, hm0, h⟩ := withMinterS_ok h
    rw [hm] at hm0; cases hm0
    obtain ⟨b1, ms, sup, b2, _, _, hsh, _, rfl⟩ := shuffle_ok h
    exact ⟨_, rfl, by simpa [supplyOp, hacc, Supply.Fixed.step] using hsh⟩
  | burnRemaining sender funds =>
    simp only [step] at h
    obtain ⟨m0, m', hm0, hf, rfl⟩ := withMinter_ok h
    rw [hm] at hm0; cases hm0
    obtain ⟨sup, _, _, hb, rfl⟩ := burnRemaining_ok hf
    exact ⟨_, rfl, by simpa [supplyOp, hacc, Supply.Fixed.step] using hb⟩
  | sudoStatus v b e =>
    simp only [step] at h
    obtain ⟨m0, m', hm0, hf, rfl⟩ := withMinter_ok h
    rw [hm] at hm0; cases hm0
    cases hf
    exact ⟨_, rfl, by simp [supplyOp, hacc, Supply.Fixed.step]⟩
  | sudoParams u =>
    simp only [step] at h
    split at h <;> cases h
    exact ⟨m, hm, by simp [supplyOp, hacc, Supply.Fixed.step]⟩
  | collTransfer sender id to =>
    simp only [step] at h
    obtain ⟨m0, m', hm0, hf, rfl⟩ := withMinter_ok h
    rw [hm] at hm0; cases hm0
    obtain ⟨c, _, _, hc, rfl⟩ := collTransfer_ok hf
    exact ⟨_, rfl, by simp [supplyOp, hacc, Supply.Fixed.step, hc]⟩
  | collBurn sender id =>
    simp only [step] at h
    obtain ⟨m0, m', hm0, hf, rfl⟩ := withMinter_ok h
    rw [hm] at hm0; cases hm0
    obtain ⟨c, _, hc, rfl⟩ := collBurn_ok hf
    exact ⟨_, rfl, by simp [supplyOp, hacc, Supply.Fixed.step, hc]⟩
  | collTrading sender t =>
    simp only [step] at h
    obtain ⟨m0, c, hm0, _, rfl⟩ := onColl_ok h
    rw [hm] at hm0; cases hm0
    exact ⟨_, rfl, by simp [supplyOp, hacc, Supply.Fixed.step]⟩
  | collCreator sender new =>
    simp only [step] at h
    obtain ⟨m0, c, hm0, _, rfl⟩ := onColl_ok h
    rw [hm] at hm0; cases hm0
    exact ⟨_, rfl, by simp [supplyOp, hacc, Supply.Fixed.step]⟩
  | collFreeze sender =>
    simp only [step] at h
    obtain ⟨m0, c, hm0, _, rfl⟩ := onColl_ok h
    rw [hm] at hm0; cases hm0
    exact ⟨_, rfl, by simp [supplyOp, hacc, Supply.Fixed.step]⟩
  | collOwn sender a =>
    simp only [step] at h
    obtain ⟨m0, c, hm0, _, rfl⟩ := onColl_ok h
    rw [hm] at hm0; cases hm0
    exact ⟨_, rfl, by simp [supplyOp, hacc, Supply.Fixed.step]⟩

/-- **simulation** (all states with a minter, all ops):
`proj (Composite.step' s op) = Aspect.step' (proj s) (tr s op)` -/
theorem supply_sim (s : State) (m : Minter) (hm : s.minter = some m) (op : Op) :
    supplyOf (step' s op) = some (m.supply.step' (supplyOp s op)) := by
  rcases step'_cases s op with ⟨s', hok, hs'⟩ | ⟨⟨e, herr⟩, hs'⟩
  · obtain ⟨m', hm', hstep⟩ := supply_step_ok hm hok
    rw [hs', fixed_step'_of_some hstep]; simp [supplyOf, hm']
  · have hacc : accepted s op = false := by simp [accepted, herr]
    rw [hs']
    have : m.supply.step' (supplyOp s op) = m.supply := by
      cases op <;> simp only [supplyOp, hacc] <;> (try split) <;> simp [Supply.Fixed.step', Supply.Fixed.step]
    rw [this]; simp [supplyOf, hm]

/-- before the minter exists a step either leaves it absent or is the `CreateMinter` that initialises the supply
component with `Supply.Fixed.init num_tokens perm` for the permutation witness of the message -/
theorem supply_create (s : State) (hm : s.minter = none) (op : Op) :
    (step' s op).minter = none ∨
    ∃ m n perm, (step' s op).minter = some m ∧ Supply.Fixed.init n perm = some m.supply := by
  rcases step'_cases s op with ⟨s', hok, hs'⟩ | ⟨_, hs'⟩
  · rw [hs']
    cases op with
    | setTime t => simp only [step] at hok; split at hok <;> cases hok; exact Or.inl hm
    | fund a c => simp only [step] at hok; cases hok; exact Or.inl hm
    | srcNew c => simp only [step] at hok; cases hok; exact Or.inl hm
    | srcGive c id to => simp only [step] at hok; obtain ⟨x, _, rfl⟩ := onSrcs_ok hok; exact Or.inl hm
    | srcTransfer caller c id to => simp only [step] at hok; obtain ⟨x, _, rfl⟩ := onSrcs_ok hok; exact Or.inl hm
    | send _ _ _ _ _ _ _ =>
      simp only [step] at hok; obtain ⟨_, m, _, h, _⟩ := sendNft_ok hok; rw [hm] at h; cases h
    | receive _ _ _ _ _ _ => simp only [step] at hok; obtain ⟨m, h, _⟩ := withMinterS_ok hok; rw [hm] at h; cases h
    | sudoParams u => simp only [step] at hok; split at hok <;> cases hok; exact Or.inl hm
    | instantiateDirect sender => simp [step] at hok
    | create sender funds msg w =>
      simp only [step] at hok
      obtain ⟨b1, ms, b2, m, _, _, _, _, _, hinst, rfl⟩ := createMinter_ok hok
      obtain ⟨trading, sup, ck, _, _, _, _, _, hsup, _, _, rfl⟩ := instantiateMinter_ok hinst
      exact Or.inr ⟨_, msg.numTokens, w.perm, rfl, hsup⟩
    | mintTo _ _ _ _ => simp only [step] at hok; obtain ⟨m, h, _⟩ := withMinterS_ok hok; rw [hm] at h; cases h
    | mintFor _ _ _ _ => simp only [step] at hok; obtain ⟨m, h, _⟩ := withMinterS_ok hok; rw [hm] at h; cases h
    | shuffle _ _ _ => simp only [step] at hok; obtain ⟨m, h, _⟩ := withMinterS_ok hok; rw [hm] at h; cases h
    | purge _ _ => simp only [step] at hok; obtain ⟨m, _, h, _⟩ := withMinter_ok hok; rw [hm] at h; cases h
    | updateStartTime _ _ _ => simp only [step] at hok; obtain ⟨m, _, h, _⟩ := withMinter_ok hok; rw [hm] at h; cases h
    | updateStartTradingTime _ _ _ => simp only [step] at hok; obtain ⟨m, _, h, _⟩ := withMinter_ok hok; rw [hm] at h; cases h
    | updatePerAddressLimit _ _ _ => simp only [step] at hok; obtain ⟨m, _, h, _⟩ := withMinter_ok hok; rw [hm] at h; cases h
    | burnRemaining _ _ => simp only [step] at hok; obtain ⟨m, _, h, _⟩ := withMinter_ok hok; rw [hm] at h; cases h
    | sudoStatus _ _ _ => simp only [step] at hok; obtain ⟨m, _, h, _⟩ := withMinter_ok hok; rw [hm] at h; cases h
    | collTransfer _ _ _ => simp only [step] at hok; obtain ⟨m, _, h, _⟩ := withMinter_ok hok; rw [hm] at h; cases h
    | collBurn _ _ => simp only [step] at hok; obtain ⟨m, _, h, _⟩ := withMinter_ok hok; rw [hm] at h; cases h
    | collTrading _ _ => simp only [step] at hok; obtain ⟨m, _, h, _⟩ := onColl_ok hok; rw [hm] at h; cases h
    | collCreator _ _ => simp only [step] at hok; obtain ⟨m, _, h, _⟩ := onColl_ok hok; rw [hm] at h; cases h
    | collFreeze _ => simp only [step] at hok; obtain ⟨m, _, h, _⟩ := onColl_ok hok; rw [hm] at h; cases h
    | collOwn _ _ => simp only [step] at hok; obtain ⟨m, _, h, _⟩ := onColl_ok hok; rw [hm] at h; cases h
  · rw [hs']; exact Or.inl hm

/-- "the supply component of this state is an aspect-model run from `Fixed.init`" -/
def SupplyReach (s : State) : Prop :=
  s.minter = none ∨
  ∃ m n perm sup0 fops, s.minter = some m ∧ Supply.Fixed.init n perm = some sup0 ∧ m.supply = sup0.run fops

theorem fixed_run_snoc (f : Supply.Fixed) (ops : List Supply.FOp) (op : Supply.FOp) :
    f.run (ops ++ [op]) = (f.run ops).step' op := by
  simp [Supply.Fixed.run, List.foldl_append]

theorem supplyReach_step (s : State) (op : Op) (h : SupplyReach s) : SupplyReach (step' s op) := by
  rcases h with hnone | ⟨m, n, perm, sup0, fops, hm, hinit, hrun⟩
  · rcases supply_create s hnone op with h | ⟨m, n, perm, hm, hinit⟩
    · exact Or.inl h
    · exact Or.inr ⟨m, n, perm, m.supply, [], hm, hinit, rfl⟩
  · have hsim := supply_sim s m hm op
    unfold supplyOf at hsim
    cases hm' : (step' s op).minter with
    | none => rw [hm'] at hsim; cases hsim
    | some m' =>
      rw [hm'] at hsim
      simp only [Option.map_some, Option.some.injEq] at hsim
      exact Or.inr ⟨m', n, perm, sup0, fops ++ [supplyOp s op], hm', hinit, by rw [fixed_run_snoc, ← hrun, hsim]⟩

/-- **lift to runs**: along ANY composite run that starts without a minter, the supply component is a `Supply.Fixed`
run from `Fixed.init num_tokens perm` -/
theorem supply_run (s0 : State) (h0 : s0.minter = none) (ops : List Op) : SupplyReach (run s0 ops) :=
  run_inv SupplyReach supplyReach_step s0 (Or.inl h0) ops

end TMF

/-! ### C01 headline theorems, inherited by composite runs -/

/-- the C01 simulation itself: one composite step = one aspect step on the projection -/
theorem C01_fulltm_refines (s : TMF.State) (m : TMF.Minter) (hm : s.minter = some m) (op : TMF.Op) :
    TMF.supplyOf (TMF.step' s op) = some (m.supply.step' (TMF.supplyOp s op)) :=
  TMF.supply_sim s m hm op

/-- "no minter over-mints, re-mints a token id, or miscounts remaining supply", for every composite history (all gates
computed by the model itself, deposits included): the supply invariant `FInv` holds of the minter whenever it exists -/
theorem C01_fulltm_inv (s0 : TMF.State) (h0 : s0.minter = none) (ops : List TMF.Op) (m : TMF.Minter)
    (hm : (TMF.run s0 ops).minter = some m) : Supply.FInv m.supply := by
  rcases TMF.supply_run s0 h0 ops with hnone | ⟨m', n, perm, sup0, fops, hm', hinit, hrun⟩
  · rw [hm] at hnone; cases hnone
  · rw [hm] at hm'; cases hm'
    rw [hrun]; exact (C01_inv n perm sup0 hinit fops).1

/-- every minted token id lies in `1..=num_tokens` and is minted at most once -/
theorem C01_fulltm_minted_in_range_at_most_once (s0 : TMF.State) (h0 : s0.minter = none) (ops : List TMF.Op) (m : TMF.Minter)
    (hm : (TMF.run s0 ops).minter = some m) :
    m.supply.minted.Nodup ∧ ∀ id ∈ m.supply.minted, 1 ≤ id ∧ id ≤ m.supply.n := by
  have hi := C01_fulltm_inv s0 h0 ops m hm
  exact ⟨hi.mnodup, fun id hid => hi.mrange id hid⟩

/-- the `MintableNumTokens` answer always equals `num_tokens − minted − burned` and the true number of remaining positions -/
theorem C01_fulltm_mintable_query (s0 : TMF.State) (h0 : s0.minter = none) (ops : List TMF.Op) (m : TMF.Minter)
    (hm : (TMF.run s0 ops).minter = some m) :
    TMF.queryMintable m = m.supply.n - m.supply.minted.length - m.supply.burned ∧
    TMF.queryMintable m = m.supply.pos.length ∧ m.supply.minted.length + m.supply.burned ≤ m.supply.n := by
  have hi := C01_fulltm_inv s0 h0 ops m hm
  have := hi.count; have := hi.total
  unfold TMF.queryMintable
  omega

/-- collection side: every existing token was minted by this minter, ids are unique, `NumTokens` is exact, and a minted
id is never mintable again -/
theorem C01_fulltm_collection (s0 : TMF.State) (h0 : s0.minter = none) (ops : List TMF.Op) (m : TMF.Minter)
    (hm : (TMF.run s0 ops).minter = some m) :
    (∀ id ∈ m.supply.coll.ids, id ∈ m.supply.minted ∧ 1 ≤ id ∧ id ≤ m.supply.n) ∧ m.supply.coll.ids.Nodup ∧
      m.supply.coll.count = m.supply.coll.toks.length ∧ (∀ id ∈ m.supply.minted, id ∉ m.supply.ids) := by
  have hi := C01_fulltm_inv s0 h0 ops m hm
  exact ⟨fun id hid => ⟨hi.csub id hid, hi.mrange id (hi.csub id hid)⟩, hi.cinv.nodup, hi.cinv.count,
    fun id hid hmem => hi.fresh id hmem hid⟩

/-- a composite mint (airdrop or completing deposit) at a zero counter fails, whatever else holds -/
theorem C01_fulltm_no_mint_at_zero (s : TMF.State) (m : TMF.Minter) (hm : s.minter = some m) (hz : m.supply.mintable = 0)
    (op : TMF.Op) (hmint : (TMF.supplyOp s op).isMint = true) : TMF.step' s op = s := by
  rcases TMF.step'_cases s op with ⟨s', hok, _⟩ | ⟨_, hs'⟩
  · obtain ⟨m', _, hstep⟩ := TMF.supply_step_ok hm hok
    rw [C01_no_mint_at_zero m.supply _ hz hmint] at hstep; cases hstep
  · exact hs'

/-- once the counter is zero it stays zero and nothing is minted again, in any continuation of the composite -/
theorem C01_fulltm_zero_is_final (s : TMF.State) (m : TMF.Minter) (hm : s.minter = some m) (hz : m.supply.mintable = 0)
    (ops : List TMF.Op) :
    ∃ m', (TMF.run s ops).minter = some m' ∧ m'.supply.mintable = 0 ∧ m'.supply.minted = m.supply.minted := by
  induction ops generalizing s m with
  | nil => exact ⟨m, hm, hz, rfl⟩
  | cons op ops ih =>
    rw [TMF.run_cons]
    have hsim := TMF.supply_sim s m hm op
    unfold TMF.supplyOf at hsim
    cases hm' : (TMF.step' s op).minter with
    | none => rw [hm'] at hsim; cases hsim
    | some m1 =>
      rw [hm'] at hsim
      simp only [Option.map_some, Option.some.injEq] at hsim
      have hfin := C01_zero_is_final m.supply hz [TMF.supplyOp s op]
      simp only [Supply.Fixed.run, List.foldl_cons, List.foldl_nil] at hfin
      rw [← hsim] at hfin
      obtain ⟨m', h1, h2, h3⟩ := ih (TMF.step' s op) m1 hm' hfin.1
      exact ⟨m', h1, h2, h3.trans hfin.2⟩

end LP
