import LaunchpadModel.Model.PriceRules
/-!
# C07 — Price rules: floor, no post-launch increase, discount rules, honest price query

Model: `LP.PriceRules` (`Model/PriceRules.lean`), one parametrised model for the 6 vending and 3 open-edition minters
and their factories. All theorems are about `step` / `run` — the functions the driver executes against the real
contracts — and quantify over every `World` (hence every reachable one), every variant, every sender, amount and time.
History theorems are inductions over arbitrary `List Op`.
-/
namespace LP
open LP.PriceRules

/-! ## What each successful message did (characterisation lemmas used below) -/

theorem create_ok {w : World} {c : Addr} {price : Coin} {start : Nat} {stop : Option Nat} {cap : Bool}
    {wl : Option Nat} {w' : World} (h : createMinter w c price start stop cap wl = .ok w') :
    w.m = none ∧ w.fac.minPrice.denom = price.denom ∧ w.fac.minPrice.amount ≤ price.amount ∧
      (w.v.oe = false → H12 ≤ w.now ∧ w.now ≤ start) ∧ (w.v.oe = true → w.now < start) ∧
      w' = setMinter w (freshMinter w c price start stop cap wl) := by
  unfold createMinter at h
  split at h
  · rename_i hc
    simp only [Except.ok.injEq] at h
    simp only [createOk, Bool.and_eq_true, decide_eq_true_eq, Option.isNone_iff_eq_none] at hc
    obtain ⟨⟨⟨⟨h1, h2⟩, h3⟩, h4⟩, _⟩ := hc
    refine ⟨h1, h2, h3, ?_, ?_, h.symm⟩
    · intro hv; simp [hv] at h4; omega
    · intro hv; simp [hv] at h4; omega
  · simp at h

theorem ump_ok {w : World} {s : Addr} {paid : Bool} {p : Nat} {w' : World}
    (h : updateMintPrice w s paid p = .ok w') :
    ∃ m, w.m = some m ∧ adminOk m s paid = true ∧ (m.start ≤ w.now → p < m.price.amount) ∧
      w.fac.minPrice.amount ≤ p ∧
      w' = setMinter w { m with price := ⟨m.price.denom, p⟩, discount := keepDiscount m.discount p } := by
  unfold updateMintPrice at h
  split at h
  · simp at h
  · rename_i m hm
    refine ⟨m, hm, ?_⟩
    repeat' (split at h)
    all_goals simp_all
    all_goals omega

theorem udp_ok {w : World} {s : Addr} {paid : Bool} {p : Nat} {w' : World}
    (h : updateDiscount w s paid p = .ok w') :
    ∃ m, w.m = some m ∧ w.v.oe = false ∧ adminOk m s paid = true ∧ m.start ≤ w.now ∧
      m.lastDiscount + H12 ≤ w.now ∧ p ≤ m.price.amount ∧ w.fac.minPrice.amount ≤ p ∧
      w' = setMinter w { m with discount := some ⟨m.price.denom, p⟩, lastDiscount := w.now } := by
  unfold updateDiscount at h
  split at h
  · simp at h
  · rename_i m hm
    refine ⟨m, hm, ?_⟩
    repeat' (split at h)
    all_goals simp_all
    all_goals omega

theorem rdp_ok {w : World} {s : Addr} {paid : Bool} {w' : World}
    (h : removeDiscount w s paid = .ok w') :
    ∃ m, w.m = some m ∧ w.v.oe = false ∧ adminOk m s paid = true ∧ m.lastDiscount + HOUR ≤ w.now ∧
      w' = setMinter w { m with discount := none, lastDiscount := w.now } := by
  unfold removeDiscount at h
  split at h
  · simp at h
  · rename_i m hm
    refine ⟨m, hm, ?_⟩
    repeat' (split at h)
    all_goals simp_all
    all_goals omega

theorem swl_ok {w : World} {s : Addr} {paid : Bool} {k : Nat} {w' : World}
    (h : setWhitelist w s paid k = .ok w') :
    ∃ m x, w.m = some m ∧ w.wls[k]? = some x ∧ adminOk m s paid = true ∧ w.now < m.start ∧
      x.active w.now = false ∧ (w.v.checkCfgDenom = true → x.price.denom = m.price.denom) ∧
      w.fac.minPrice.amount ≤ x.price.amount ∧ w.fac.minPrice.denom = x.price.denom ∧
      w' = setMinter w { m with wl := some k } := by
  unfold setWhitelist at h
  split at h
  · simp at h
  · rename_i m hm
    repeat' (split at h)
    all_goals (try (simp at h; done))
    rename_i x hx _ _ _ _
    refine ⟨m, x, hm, hx, ?_⟩
    simp_all

theorem ust_ok {w : World} {s : Addr} {paid : Bool} {t : Nat} {w' : World}
    (h : updateStart w s paid t = .ok w') :
    ∃ m, w.m = some m ∧ adminOk m s paid = true ∧ w.now < m.start ∧ w.now ≤ t ∧
      w' = setMinter w { m with start := t } := by
  unfold updateStart at h
  split at h
  · simp at h
  · rename_i m hm
    refine ⟨m, hm, ?_⟩
    repeat' (split at h)
    all_goals simp_all
    all_goals omega

theorem uet_ok {w : World} {s : Addr} {paid : Bool} {t : Nat} {w' : World}
    (h : updateEnd w s paid t = .ok w') :
    ∃ m e, w.m = some m ∧ w.v.oe = true ∧ adminOk m s paid = true ∧ m.stop = some e ∧ w.now < e ∧ w.now ≤ t ∧
      m.start ≤ t ∧ w' = setMinter w { m with stop := some t } := by
  unfold updateEnd at h
  split at h
  · simp at h
  · rename_i m hm
    split at h
    · simp at h
    · split at h
      · simp at h
      · split at h
        · simp at h
        · rename_i e he
          refine ⟨m, e, hm, ?_⟩
          repeat' (split at h)
          all_goals simp_all
          all_goals omega

theorem newWl_ok {w : World} {p : Coin} {s e : Nat} {w' : World} (h : newWl w p s e = .ok w') :
    w' = { w with wls := w.wls ++ [⟨p, s, e⟩] } := by
  unfold newWl at h
  repeat' (split at h)
  all_goals simp_all

theorem sudoMin_ok {w : World} {c : Coin} {w' : World} (h : sudoMin w c = .ok w') :
    c.denom = NATIVE ∧ w' = { w with fac := { w.fac with minPrice := c } } := by
  unfold sudoMin at h
  split at h <;> simp_all

theorem sudoAirdrop_ok {w : World} {c : Coin} {w' : World} (h : sudoAirdrop w c = .ok w') :
    w' = { w with fac := { w.fac with airdrop := c } } := by
  unfold sudoAirdrop at h
  split at h <;> simp_all

theorem mintOp_ok {w : World} {f : List Coin} {w' : World} (h : mintOp w f = .ok w') :
    w' = w ∧ ∃ m, w.m = some m ∧ mintCheck w m f = .ok () := by
  unfold mintOp at h
  split at h
  · simp at h
  · rename_i m hm
    split at h
    · rename_i u hu
      simp at h
      exact ⟨h.symm, m, hm, by cases u; exact hu⟩
    · simp at h

/-! ## Clause 1 — the floor

"No price-setting operation (minter creation, mint-price update, discount update, attaching a whitelist to an
existing minter) succeeds with a price below the factory minimum in force at that moment or in a different denom" -/

/-- the price a price-setting operation sets (in the state it is applied to); `none` for every other operation -/
def setsPrice (w : World) : Op → Option Coin
  | .create _ price _ _ _ _ => some price
  | .updateMintPrice _ _ p => w.m.map (fun m => ⟨m.price.denom, p⟩)
  | .updateDiscount _ _ p => w.m.map (fun m => ⟨m.price.denom, p⟩)
  | .setWhitelist _ _ k => (w.wls[k]?).map (·.price)
  | _ => none

/-- amount: every successful price-setting operation sets a price ≥ the factory minimum read at that step —
in EVERY state `w`, in particular in every state reachable by any history (next theorem).

PARTIAL. The full clause reads "no price-setting operation (minter creation, …) succeeds with a price below the factory
minimum in force": for `create`, `setsPrice` is the PUBLIC price only. The unchanged code (factory `execute_create_minter`
+ minter `instantiate`) never compares the whitelist NAMED IN `CreateMinter` with the floor or its denom — only
`SetWhitelist` does — so creation can put a whitelist price below the minimum in force:
`C07_create_whitelist_unchecked_counterexample` (replayed on the real contracts, corpus/C07/create-whitelist-below-floor.json).
What is missing for the full clause: `createWlOk` would have to contain the two comparisons `setWhitelist` makes. -/
theorem C07_floor_partial (w w' : World) (op : Op) (c : Coin)
    (hok : step w op = .ok w') (hset : setsPrice w op = some c) :
    w.fac.minPrice.amount ≤ c.amount := by
  cases op <;> simp only [setsPrice, step] at hset hok <;> try (simp at hset; done)
  · obtain ⟨_, _, h, _⟩ := create_ok hok
    simp at hset; subst hset; exact h
  · obtain ⟨m, hm, _, _, h, _⟩ := ump_ok hok
    simp [hm] at hset; subst hset; exact h
  · obtain ⟨m, hm, _, _, _, _, _, h, _⟩ := udp_ok hok
    simp [hm] at hset; subst hset; exact h
  · obtain ⟨m, x, _, hx, _, _, _, _, h, _⟩ := swl_ok hok
    simp [hx] at hset; subst hset; exact h

/-- alias of `C07_floor_partial` (kept because other modules refer to it: `Props/CompositeVending.lean`, `Props/CompositeOpenEdition.lean`).
PARTIAL exactly as `C07_floor_partial`: for `create` it speaks about the PUBLIC price only. -/
theorem C07_floor (w w' : World) (op : Op) (c : Coin)
    (hok : step w op = .ok w') (hset : setsPrice w op = some c) :
    w.fac.minPrice.amount ≤ c.amount :=
  C07_floor_partial w w' op c hok hset

/-- The creation gap, on the model of the unchanged code (vending-minter, minimum 5000 ustars): a whitelist priced 1000
is instantiated, `CreateMinter` names it — accepted —, the whitelist opens, and the price a (whitelisted) buyer is
charged and the `MintPrice` query advertises is 1000 < 5000 = the minimum in force; the mint at 1000 is accepted. -/
theorem C07_create_whitelist_unchecked_counterexample :
    let t0 := GENESIS + 100 * HOUR
    let w := run (init (variantOf 0) t0 { minPrice := ⟨0, 5000⟩, airdrop := ⟨0, 0⟩, feeBps := 1000 })
      [.newWl ⟨0, 1000⟩ (t0 + HOUR) (t0 + 2 * HOUR), .create 10 ⟨0, 100000⟩ (t0 + 24 * HOUR) none true (some 0),
       .setTime (t0 + HOUR)]
    (w.m.map (fun m => (m.wl, currentPrice w m, (queryMintPrice w m).currentPrice))) = some (some 0, ⟨0, 1000⟩, ⟨0, 1000⟩) ∧
    w.fac.minPrice = ⟨0, 5000⟩ ∧
    (step w (.mint [⟨0, 1000⟩])).toOption.isSome = true := by
  decide

/-- … and its denom: the whitelist named at creation may be priced in a denom different from the factory minimum (and
from the minter's own price): whitelisted buyers then pay 7000 `denom1` while minimum and public price are in ustars -/
theorem C07_create_whitelist_denom_counterexample :
    let t0 := GENESIS + 100 * HOUR
    let w := run (init (variantOf 0) t0 { minPrice := ⟨0, 5000⟩, airdrop := ⟨0, 0⟩, feeBps := 1000 })
      [.newWl ⟨1, 7000⟩ (t0 + HOUR) (t0 + 2 * HOUR), .create 10 ⟨0, 100000⟩ (t0 + 24 * HOUR) none true (some 0),
       .setTime (t0 + HOUR)]
    (w.m.map (fun m => currentPrice w m)) = some ⟨1, 7000⟩ ∧ w.fac.minPrice.denom = 0 ∧
    (step w (.mint [⟨1, 7000⟩])).toOption.isSome = true := by
  decide

/-- the same over histories: after ANY sequence of operations (arbitrary senders, amounts, times, governance
changes of the minimum in between) the next successful price-setting operation respects the minimum in force then.
PARTIAL exactly as `C07_floor_partial` (`setsPrice` of `create` is the public price only; the whitelist named at creation and the
later stages of a tiered whitelist are recorded findings, see the `_counterexample` theorems). -/
theorem C07_floor_history_partial (w0 : World) (ops : List Op) (op : Op) (w' : World) (c : Coin)
    (hok : step (run w0 ops) op = .ok w') (hset : setsPrice (run w0 ops) op = some c) :
    (run w0 ops).fac.minPrice.amount ≤ c.amount :=
  C07_floor_partial _ _ _ _ hok hset

/-- alias of `C07_floor_history_partial` (kept because other modules refer to it) -/
theorem C07_floor_history (w0 : World) (ops : List Op) (op : Op) (w' : World) (c : Coin)
    (hok : step (run w0 ops) op = .ok w') (hset : setsPrice (run w0 ops) op = some c) :
    (run w0 ops).fac.minPrice.amount ≤ c.amount :=
  C07_floor_history_partial w0 ops op w' c hok hset

/-- the stored result really is that price -/
theorem C07_floor_effect (w w' : World) (op : Op) (hok : step w op = .ok w') :
    (∀ cr p s e cap wl, op = .create cr p s e cap wl → ∃ m', w'.m = some m' ∧ m'.price = p ∧ m'.discount = none) ∧
    (∀ s pd p, op = .updateMintPrice s pd p → ∃ m m', w.m = some m ∧ w'.m = some m' ∧ m'.price = ⟨m.price.denom, p⟩) ∧
    (∀ s pd p, op = .updateDiscount s pd p →
        ∃ m m', w.m = some m ∧ w'.m = some m' ∧ m'.discount = some ⟨m.price.denom, p⟩ ∧ m'.price = m.price) ∧
    (∀ s pd k, op = .setWhitelist s pd k → ∃ m', w'.m = some m' ∧ m'.wl = some k) := by
  refine ⟨?_, ?_, ?_, ?_⟩
  · rintro cr p s e cap wl rfl
    obtain ⟨_, _, _, _, _, h⟩ := create_ok hok
    subst h; exact ⟨_, rfl, rfl, rfl⟩
  · rintro s pd p rfl
    obtain ⟨m, hm, _, _, _, h⟩ := ump_ok hok
    subst h; exact ⟨m, _, hm, rfl, rfl⟩
  · rintro s pd p rfl
    obtain ⟨m, hm, _, _, _, _, _, _, h⟩ := udp_ok hok
    subst h; exact ⟨m, _, hm, rfl, rfl, rfl⟩
  · rintro s pd k rfl
    obtain ⟨m, x, _, _, _, _, _, _, _, _, h⟩ := swl_ok hok
    subst h; exact ⟨_, rfl, rfl⟩

/-! ### denom

Creation and `SetWhitelist` compare the denom with the factory minimum directly. `UpdateMintPrice` /
`UpdateDiscountPrice` keep the denom fixed at creation, so they are "in the factory's denom" as long as the minter's
denom and the factory's agree — an invariant of every history in which governance does not move the minimum to
another denom. `sudo UpdateParams` only accepts the native denom, so for a factory whose minimum is native this is
every history (`C07_floor_denom_native_partial`); for a factory created with a non-native minimum any accepted governance
change of the minimum breaks it (`C07_denom_switch_counterexample`, reported).

All three denom theorems are PARTIAL with respect to the clause "… or in a different denom": `setsPrice` of `create` is the
PUBLIC price only. A whitelist NAMED AT CREATION is compared with no denom at all, on ANY factory — native minimum included
(`C07_create_whitelist_denom_counterexample` runs on a native-minimum factory; recorded finding
`*/create/whitelist-denom-differs-from-factory-min`). What they do cover: the public price at creation, `UpdateMintPrice`,
`UpdateDiscountPrice`, and the price a whitelist REPORTS at `SetWhitelist`. -/

/-- the minter's prices are in the denom of the factory minimum -/
def DenomInv (w : World) : Prop :=
  ∀ m, w.m = some m → m.price.denom = w.fac.minPrice.denom ∧ ∀ d, m.discount = some d → d.denom = m.price.denom

/-- governance never moves the minimum to a different denom along the history -/
def keepsDenom (w : World) : Op → Prop
  | .sudoMin c => c.denom = w.fac.minPrice.denom
  | _ => True

def GovKeepsDenom : World → List Op → Prop
  | _, [] => True
  | w, op :: ops => keepsDenom w op ∧ GovKeepsDenom (step' w op) ops

theorem keepDiscount_some {d : Option Coin} {p : Nat} {c : Coin} (h : keepDiscount d p = some c) :
    d = some c ∧ c.amount ≤ p := by
  unfold keepDiscount at h
  split at h
  · split at h <;> simp_all
  · simp at h

theorem denomInv_step (w w' : World) (op : Op) (hinv : DenomInv w) (hok : step w op = .ok w')
    (hgov : keepsDenom w op) : DenomInv w' := by
  intro m' hm'
  cases op <;> simp only [step] at hok
  · -- setTime
    simp at hok; subst hok; exact hinv m' hm'
  · have := newWl_ok hok; subst this; exact hinv m' hm'
  · obtain ⟨_, hd, _, _, _, h⟩ := create_ok hok
    subst h; simp [setMinter] at hm'; subst hm'
    exact ⟨hd.symm, by simp [freshMinter]⟩
  · obtain ⟨m, hm, _, _, _, h⟩ := ump_ok hok
    subst h; simp [setMinter] at hm'; subst hm'
    obtain ⟨h1, h2⟩ := hinv m hm
    refine ⟨h1, ?_⟩
    intro d hd
    exact h2 d (keepDiscount_some hd).1
  · obtain ⟨m, hm, _, _, _, _, _, _, h⟩ := udp_ok hok
    subst h; simp [setMinter] at hm'; subst hm'
    obtain ⟨h1, _⟩ := hinv m hm
    refine ⟨h1, ?_⟩
    intro d hd; simp at hd; subst hd; rfl
  · obtain ⟨m, hm, _, _, _, h⟩ := rdp_ok hok
    subst h; simp [setMinter] at hm'; subst hm'
    exact ⟨(hinv m hm).1, by simp⟩
  · obtain ⟨m, x, hm, _, _, _, _, _, _, _, h⟩ := swl_ok hok
    subst h; simp [setMinter] at hm'; subst hm'
    exact hinv m hm
  · obtain ⟨m, hm, _, _, _, h⟩ := ust_ok hok
    subst h; simp [setMinter] at hm'; subst hm'
    exact hinv m hm
  · obtain ⟨_, h⟩ := sudoMin_ok hok
    subst h; simp [keepsDenom] at hgov hm' ⊢
    obtain ⟨h1, h2⟩ := hinv m' hm'
    exact ⟨by rw [h1, hgov], h2⟩
  · have h := sudoAirdrop_ok hok
    subst h; exact hinv m' hm'
  · obtain ⟨h, _⟩ := mintOp_ok hok
    subst h; exact hinv m' hm'
  · obtain ⟨m, _, hm, _, _, _, _, _, _, h⟩ := uet_ok hok
    subst h; simp [setMinter] at hm'; subst hm'
    exact hinv m hm

theorem step'_eq_of_ok {w w' : World} {op : Op} (h : step w op = .ok w') : step' w op = w' := by
  simp [step', h]

theorem step'_cases (w : World) (op : Op) : (∃ w', step w op = .ok w' ∧ step' w op = w') ∨ step' w op = w := by
  unfold step'
  cases step w op with
  | ok w' => exact Or.inl ⟨w', rfl, rfl⟩
  | error e => exact Or.inr rfl

theorem denomInv_run (w : World) (ops : List Op) (hinv : DenomInv w) (hgov : GovKeepsDenom w ops) :
    DenomInv (run w ops) := by
  induction ops generalizing w with
  | nil => exact hinv
  | cons op ops ih =>
    simp only [run, List.foldl_cons]
    obtain ⟨hg1, hg2⟩ := hgov
    apply ih _ _ hg2
    rcases step'_cases w op with ⟨w', hok, he⟩ | he
    · rw [he]; exact denomInv_step w w' op hinv hok hg1
    · rw [he]; exact hinv

/-- denom, per step: in a state whose minter is in the factory's denom, every successful price-setting operation
sets a price in the denom of the factory minimum in force. PARTIAL (section header): public price only at creation. -/
theorem C07_floor_denom_partial (w w' : World) (op : Op) (c : Coin) (hinv : DenomInv w)
    (hok : step w op = .ok w') (hset : setsPrice w op = some c) :
    c.denom = w.fac.minPrice.denom := by
  cases op <;> simp only [setsPrice, step] at hset hok <;> try (simp at hset; done)
  · obtain ⟨_, h, _⟩ := create_ok hok
    simp at hset; subst hset; exact h.symm
  · obtain ⟨m, hm, _⟩ := ump_ok hok
    simp [hm] at hset; subst hset; exact (hinv m hm).1
  · obtain ⟨m, hm, _⟩ := udp_ok hok
    simp [hm] at hset; subst hset; exact (hinv m hm).1
  · obtain ⟨m, x, _, hx, _, _, _, _, _, h, _⟩ := swl_ok hok
    simp [hx] at hset; subst hset; exact h.symm

/-- alias of `C07_floor_denom_partial` (kept because other modules refer to it) -/
theorem C07_floor_denom (w w' : World) (op : Op) (c : Coin) (hinv : DenomInv w)
    (hok : step w op = .ok w') (hset : setsPrice w op = some c) :
    c.denom = w.fac.minPrice.denom :=
  C07_floor_denom_partial w w' op c hinv hok hset

/-- denom, all histories from a fresh factory in which governance changes only the AMOUNT of the minimum:
every successful price-setting operation is in the denom of the factory minimum in force.
PARTIAL (section header): public price only at creation. -/
theorem C07_floor_denom_history_partial (v : Variant) (now : Nat) (fac : Factory) (ops : List Op) (op : Op) (w' : World)
    (c : Coin) (hgov : GovKeepsDenom (init v now fac) ops)
    (hok : step (run (init v now fac) ops) op = .ok w') (hset : setsPrice (run (init v now fac) ops) op = some c) :
    c.denom = (run (init v now fac) ops).fac.minPrice.denom := by
  apply C07_floor_denom_partial _ _ _ _ _ hok hset
  apply denomInv_run _ _ _ hgov
  intro m hm; simp [init] at hm

/-- alias of `C07_floor_denom_history_partial` (kept because other modules refer to it) -/
theorem C07_floor_denom_history (v : Variant) (now : Nat) (fac : Factory) (ops : List Op) (op : Op) (w' : World)
    (c : Coin) (hgov : GovKeepsDenom (init v now fac) ops)
    (hok : step (run (init v now fac) ops) op = .ok w') (hset : setsPrice (run (init v now fac) ops) op = some c) :
    c.denom = (run (init v now fac) ops).fac.minPrice.denom :=
  C07_floor_denom_history_partial v now fac ops op w' c hgov hok hset

/-- a factory whose minimum is in the native denom: `sudo` only accepts the native denom, so NO hypothesis on the
history is needed. PARTIAL (section header): public price only at creation — the whitelist named at creation is not
denom-checked on a native-minimum factory either (`C07_create_whitelist_denom_counterexample`). -/
theorem C07_floor_denom_native_partial (v : Variant) (now : Nat) (fac : Factory) (hnat : fac.minPrice.denom = NATIVE)
    (ops : List Op) (op : Op) (w' : World) (c : Coin)
    (hok : step (run (init v now fac) ops) op = .ok w') (hset : setsPrice (run (init v now fac) ops) op = some c) :
    c.denom = NATIVE ∧ (run (init v now fac) ops).fac.minPrice.denom = NATIVE := by
  have key : ∀ (w : World) (ops : List Op), DenomInv w → w.fac.minPrice.denom = NATIVE →
      DenomInv (run w ops) ∧ (run w ops).fac.minPrice.denom = NATIVE := by
    intro w ops
    induction ops generalizing w with
    | nil => intro h1 h2; exact ⟨h1, h2⟩
    | cons o os ih =>
      intro h1 h2
      simp only [run, List.foldl_cons]
      rcases step'_cases w o with ⟨w1, hok1, he⟩ | he
      · rw [he]
        have hg : keepsDenom w o := by
          cases o <;> simp [keepsDenom]
          rename_i c
          simp only [step] at hok1
          rw [(sudoMin_ok hok1).1, h2]
        refine ih w1 (denomInv_step w w1 o h1 hok1 hg) ?_
        cases o <;> simp only [step] at hok1
        · simp at hok1; subst hok1; exact h2
        · have := newWl_ok hok1; subst this; exact h2
        · obtain ⟨_, _, _, _, _, h⟩ := create_ok hok1; subst h; exact h2
        · obtain ⟨_, _, _, _, _, h⟩ := ump_ok hok1; subst h; exact h2
        · obtain ⟨_, _, _, _, _, _, _, _, h⟩ := udp_ok hok1; subst h; exact h2
        · obtain ⟨_, _, _, _, _, h⟩ := rdp_ok hok1; subst h; exact h2
        · obtain ⟨_, _, _, _, _, _, _, _, _, _, h⟩ := swl_ok hok1; subst h; exact h2
        · obtain ⟨_, _, _, _, _, h⟩ := ust_ok hok1; subst h; exact h2
        · obtain ⟨hd, h⟩ := sudoMin_ok hok1; subst h; exact hd
        · have h := sudoAirdrop_ok hok1; subst h; exact h2
        · obtain ⟨h, _⟩ := mintOp_ok hok1; subst h; exact h2
        · obtain ⟨_, _, _, _, _, _, _, _, _, h⟩ := uet_ok hok1; subst h; exact h2
      · rw [he]; exact ih w h1 h2
  have h0 : DenomInv (init v now fac) := by intro m hm; simp [init] at hm
  obtain ⟨hI, hN⟩ := key (init v now fac) ops h0 (by simpa [init] using hnat)
  exact ⟨by rw [C07_floor_denom_partial _ _ _ _ hI hok hset, hN], hN⟩

/-- alias of `C07_floor_denom_native_partial` (kept because other modules refer to it) -/
theorem C07_floor_denom_native (v : Variant) (now : Nat) (fac : Factory) (hnat : fac.minPrice.denom = NATIVE)
    (ops : List Op) (op : Op) (w' : World) (c : Coin)
    (hok : step (run (init v now fac) ops) op = .ok w') (hset : setsPrice (run (init v now fac) ops) op = some c) :
    c.denom = NATIVE ∧ (run (init v now fac) ops).fac.minPrice.denom = NATIVE :=
  C07_floor_denom_native_partial v now fac hnat ops op w' c hok hset

/-- What happens without the hypothesis (vending-minter, factory minimum created in `denom1`): after governance
sets a new minimum — necessarily in the native denom — `UpdateMintPrice 60` succeeds and the public price is
60 `denom1` while the minimum in force is 50 `ustars`. Replayed on the real contracts (docs/C07.md). -/
theorem C07_denom_switch_counterexample :
    let t0 := GENESIS + 100 * HOUR
    let w := run (init (variantOf 0) t0 { minPrice := ⟨1, 50⟩, airdrop := ⟨0, 0⟩, feeBps := 1000 })
      [.create 10 ⟨1, 100⟩ (t0 + HOUR) none true none, .sudoMin ⟨0, 50⟩, .updateMintPrice 10 false 60]
    w.m.map (·.price) = some ⟨1, 60⟩ ∧ w.fac.minPrice = ⟨0, 50⟩ := by
  decide

/-! ## Clause 2 — after the start the public price can only be lowered -/

/-- "once the mint has started the public price can only be lowered": a successful `UpdateMintPrice p` at or after
`start_time` has `p` strictly below the current public price (the code's operator is `>=`: equal is refused too) -/
theorem C07_only_lower_after_start (w w' : World) (s : Addr) (paid : Bool) (p : Nat) (m : Minter)
    (hm : w.m = some m) (hstarted : m.start ≤ w.now)
    (hok : step w (.updateMintPrice s paid p) = .ok w') :
    p < m.price.amount ∧ ∃ m', w'.m = some m' ∧ m'.price = ⟨m.price.denom, p⟩ := by
  simp only [step] at hok
  obtain ⟨m0, hm0, _, hlt, _, h⟩ := ump_ok hok
  rw [hm] at hm0; cases hm0
  subst h
  exact ⟨hlt hstarted, _, rfl, rfl⟩

/-- NO operation of any kind raises the public price (or changes its denom, or moves the start) once started -/
theorem C07_public_price_step (w w' : World) (op : Op) (m : Minter) (hm : w.m = some m)
    (hstarted : m.start ≤ w.now) (hok : step w op = .ok w') :
    ∃ m', w'.m = some m' ∧ m'.price.amount ≤ m.price.amount ∧ m'.price.denom = m.price.denom ∧
      m'.start = m.start := by
  cases op <;> simp only [step] at hok
  · simp at hok; subst hok; exact ⟨m, hm, Nat.le_refl _, rfl, rfl⟩
  · have := newWl_ok hok; subst this; exact ⟨m, hm, Nat.le_refl _, rfl, rfl⟩
  · obtain ⟨h, _⟩ := create_ok hok; rw [hm] at h; cases h
  · obtain ⟨m0, hm0, _, hlt, _, h⟩ := ump_ok hok
    rw [hm] at hm0; cases hm0; subst h
    exact ⟨_, rfl, Nat.le_of_lt (hlt hstarted), rfl, rfl⟩
  · obtain ⟨m0, hm0, _, _, _, _, _, _, h⟩ := udp_ok hok
    rw [hm] at hm0; cases hm0; subst h
    exact ⟨_, rfl, Nat.le_refl _, rfl, rfl⟩
  · obtain ⟨m0, hm0, _, _, _, h⟩ := rdp_ok hok
    rw [hm] at hm0; cases hm0; subst h
    exact ⟨_, rfl, Nat.le_refl _, rfl, rfl⟩
  · obtain ⟨m0, x, hm0, _, _, hlt, _⟩ := swl_ok hok
    rw [hm] at hm0; cases hm0; omega
  · obtain ⟨m0, hm0, _, hlt, _⟩ := ust_ok hok
    rw [hm] at hm0; cases hm0; omega
  · obtain ⟨_, h⟩ := sudoMin_ok hok; subst h; exact ⟨m, hm, Nat.le_refl _, rfl, rfl⟩
  · have h := sudoAirdrop_ok hok; subst h; exact ⟨m, hm, Nat.le_refl _, rfl, rfl⟩
  · obtain ⟨h, _⟩ := mintOp_ok hok; subst h; exact ⟨m, hm, Nat.le_refl _, rfl, rfl⟩
  · obtain ⟨m0, _, hm0, _, _, _, _, _, _, h⟩ := uet_ok hok
    rw [hm] at hm0; cases hm0; subst h
    exact ⟨_, rfl, Nat.le_refl _, rfl, rfl⟩

/-- block time never runs backwards -/
def MonotoneClock : World → List Op → Prop
  | _, [] => True
  | w, op :: ops =>
    (match op with
     | .setTime t => w.now ≤ t
     | _ => True) ∧ MonotoneClock (step' w op) ops

theorem now_step (w w' : World) (op : Op) (hok : step w op = .ok w') :
    (∀ t, op = .setTime t → w'.now = t) ∧ ((∀ t, op ≠ .setTime t) → w'.now = w.now) := by
  cases op <;> simp only [step] at hok
  · simp at hok; subst hok; simp
  · have := newWl_ok hok; subst this; simp
  · obtain ⟨_, _, _, _, _, h⟩ := create_ok hok; subst h; simp [setMinter]
  · obtain ⟨_, _, _, _, _, h⟩ := ump_ok hok; subst h; simp [setMinter]
  · obtain ⟨_, _, _, _, _, _, _, _, h⟩ := udp_ok hok; subst h; simp [setMinter]
  · obtain ⟨_, _, _, _, _, h⟩ := rdp_ok hok; subst h; simp [setMinter]
  · obtain ⟨_, _, _, _, _, _, _, _, _, _, h⟩ := swl_ok hok; subst h; simp [setMinter]
  · obtain ⟨_, _, _, _, _, h⟩ := ust_ok hok; subst h; simp [setMinter]
  · obtain ⟨_, h⟩ := sudoMin_ok hok; subst h; simp
  · have h := sudoAirdrop_ok hok; subst h; simp
  · obtain ⟨h, _⟩ := mintOp_ok hok; subst h; simp
  · obtain ⟨_, _, _, _, _, _, _, _, _, h⟩ := uet_ok hok; subst h; simp [setMinter]

/-- history form: from any state in which the mint has started, after ANY sequence of operations (with a clock that
does not run backwards) the public price is at most what it was, in the same denom, and the mint is still started -/
theorem C07_public_price_history (w : World) (ops : List Op) (m : Minter) (hm : w.m = some m)
    (hstarted : m.start ≤ w.now) (hclock : MonotoneClock w ops) :
    ∃ m', (run w ops).m = some m' ∧ m'.price.amount ≤ m.price.amount ∧ m'.price.denom = m.price.denom ∧
      m'.start = m.start ∧ m'.start ≤ (run w ops).now := by
  induction ops generalizing w m with
  | nil => exact ⟨m, hm, Nat.le_refl _, rfl, rfl, hstarted⟩
  | cons op ops ih =>
    simp only [run, List.foldl_cons]
    obtain ⟨hc1, hc2⟩ := hclock
    rcases step'_cases w op with ⟨w1, hok, he⟩ | he
    · rw [he] at hc2 ⊢
      obtain ⟨m1, hm1, hle, hden, hst⟩ := C07_public_price_step w w1 op m hm hstarted hok
      have hnow : m1.start ≤ w1.now := by
        obtain ⟨h1, h2⟩ := now_step w w1 op hok
        by_cases hset : ∃ t, op = .setTime t
        · obtain ⟨t, rfl⟩ := hset
          rw [h1 t rfl, hst]; simp at hc1; omega
        · rw [h2 (fun t ht => hset ⟨t, ht⟩), hst]; exact hstarted
      obtain ⟨m', h1, h2, h3, h4, h5⟩ := ih w1 m1 hm1 hnow hc2
      exact ⟨m', h1, Nat.le_trans h2 hle, by rw [h3, hden], by rw [h4, hst], h5⟩
    · rw [he] at hc2 ⊢
      exact ih w m hm hstarted hc2

/-! ## Clause 3 — discount rules -/

/-- "A discount can be set only after the start, never above the public price, no sooner than 12 hours after the
previous discount change" — with the operators exactly as written (`now < start` refused, `p > price` refused,
`last + 12h > now` refused) — and it is at least the factory minimum; the anchor moves to `now` -/
theorem C07_discount_rules_update (w w' : World) (s : Addr) (paid : Bool) (p : Nat)
    (hok : step w (.updateDiscount s paid p) = .ok w') :
    ∃ m m', w.m = some m ∧ w'.m = some m' ∧
      m.start ≤ w.now ∧ p ≤ m.price.amount ∧ m.lastDiscount + 12 * 60 * 60 * 1000000000 ≤ w.now ∧
      w.fac.minPrice.amount ≤ p ∧ s = m.admin ∧
      m'.discount = some ⟨m.price.denom, p⟩ ∧ m'.lastDiscount = w.now ∧ m'.price = m.price := by
  simp only [step] at hok
  obtain ⟨m, hm, _, hadm, h1, h2, h3, h4, h⟩ := udp_ok hok
  subst h
  refine ⟨m, _, hm, rfl, h1, h3, ?_, h4, ?_, rfl, rfl, rfl⟩
  · simpa [H12, HOUR] using h2
  · simp [adminOk] at hadm; exact hadm.2

/-- "… and removed no sooner than one hour after it" -/
theorem C07_discount_rules_remove (w w' : World) (s : Addr) (paid : Bool)
    (hok : step w (.removeDiscount s paid) = .ok w') :
    ∃ m m', w.m = some m ∧ w'.m = some m' ∧ m.lastDiscount + 60 * 60 * 1000000000 ≤ w.now ∧ s = m.admin ∧
      m'.discount = none ∧ m'.lastDiscount = w.now ∧ m'.price = m.price := by
  simp only [step] at hok
  obtain ⟨m, hm, _, hadm, h1, h⟩ := rdp_ok hok
  subst h
  refine ⟨m, _, hm, rfl, ?_, ?_, rfl, rfl, rfl⟩
  · simpa [HOUR] using h1
  · simp [adminOk] at hadm; exact hadm.2

/-- boundary exactness: at `last + 12h` sharp an (otherwise valid) update IS accepted, one nanosecond earlier it is not -/
theorem C07_discount_cooldown_sharp (w : World) (m : Minter) (p : Nat) (hm : w.m = some m) (hv : w.v.oe = false)
    (hstart : m.start ≤ w.now) (hp : p ≤ m.price.amount) (hmin : w.fac.minPrice.amount ≤ p) :
    (m.lastDiscount + H12 ≤ w.now → ∃ w', step w (.updateDiscount m.admin false p) = .ok w') ∧
    (w.now < m.lastDiscount + H12 → ∀ w', step w (.updateDiscount m.admin false p) ≠ .ok w') := by
  constructor
  · intro h
    refine ⟨setMinter w { m with discount := some ⟨m.price.denom, p⟩, lastDiscount := w.now }, ?_⟩
    simp only [step, updateDiscount, hm, hv, adminOk]
    simp
    rw [if_neg (by omega), if_neg (by omega), if_neg (by omega), if_neg (by omega)]
  · intro h w' hok
    simp only [step] at hok
    obtain ⟨m0, hm0, _, _, _, h2, _⟩ := udp_ok hok
    rw [hm] at hm0; cases hm0; omega

/-- `LAST_DISCOUNT_TIME` is written by nothing but the two discount messages (and `instantiate`) -/
theorem C07_last_discount_frame (w w' : World) (op : Op) (m : Minter) (hm : w.m = some m)
    (hok : step w op = .ok w')
    (hnot : (∀ s pd p, op ≠ .updateDiscount s pd p) ∧ (∀ s pd, op ≠ .removeDiscount s pd)) :
    ∃ m', w'.m = some m' ∧ m'.lastDiscount = m.lastDiscount := by
  cases op <;> simp only [step] at hok
  · simp at hok; subst hok; exact ⟨m, hm, rfl⟩
  · have := newWl_ok hok; subst this; exact ⟨m, hm, rfl⟩
  · obtain ⟨h, _⟩ := create_ok hok; rw [hm] at h; cases h
  · obtain ⟨m0, hm0, _, _, _, h⟩ := ump_ok hok
    rw [hm] at hm0; cases hm0; subst h; exact ⟨_, rfl, rfl⟩
  · exact absurd rfl (hnot.1 _ _ _)
  · exact absurd rfl (hnot.2 _ _)
  · obtain ⟨m0, x, hm0, _, _, _, _, _, _, _, h⟩ := swl_ok hok
    rw [hm] at hm0; cases hm0; subst h; exact ⟨_, rfl, rfl⟩
  · obtain ⟨m0, hm0, _, _, _, h⟩ := ust_ok hok
    rw [hm] at hm0; cases hm0; subst h; exact ⟨_, rfl, rfl⟩
  · obtain ⟨_, h⟩ := sudoMin_ok hok; subst h; exact ⟨m, hm, rfl⟩
  · have h := sudoAirdrop_ok hok; subst h; exact ⟨m, hm, rfl⟩
  · obtain ⟨h, _⟩ := mintOp_ok hok; subst h; exact ⟨m, hm, rfl⟩
  · obtain ⟨m0, _, hm0, _, _, _, _, _, _, h⟩ := uet_ok hok
    rw [hm] at hm0; cases hm0; subst h; exact ⟨_, rfl, rfl⟩

/-- the successful discount changes of a history, in order: `(true, t)` = discount set at `t`, `(false, t)` = removed at `t` -/
def discEvent (w : World) (op : Op) : Option (Bool × Nat) :=
  match op, step w op with
  | .updateDiscount _ _ _, .ok _ => some (true, w.now)
  | .removeDiscount _ _, .ok _ => some (false, w.now)
  | _, _ => none

def discEvents : World → List Op → List (Bool × Nat)
  | _, [] => []
  | w, op :: ops => (discEvent w op).toList ++ discEvents (step' w op) ops

/-- the cooldown a change is subject to: 12 h for setting, 1 h for removing -/
def gap (e : Bool × Nat) : Nat := if e.1 then 12 * 60 * 60 * 1000000000 else 60 * 60 * 1000000000

/-- every change comes no sooner than its cooldown after the change before it -/
def CooldownOk : List (Bool × Nat) → Prop
  | [] => True
  | [_] => True
  | e1 :: e2 :: rest => e1.2 + gap e2 ≤ e2.2 ∧ CooldownOk (e2 :: rest)

theorem discEvent_some {w : World} {op : Op} {e : Bool × Nat} (h : discEvent w op = some e) :
    ∃ m m', w.m = some m ∧ (step' w op).m = some m' ∧ m.lastDiscount + gap e ≤ e.2 ∧ m'.lastDiscount = e.2 := by
  unfold discEvent at h
  split at h
  · rename_i s pd p w' hok
    simp at h; subst h
    obtain ⟨m, m', hm, hm', _, _, hc, _, _, _, hl, _⟩ := C07_discount_rules_update w w' s pd p hok
    exact ⟨m, m', hm, by rw [step'_eq_of_ok hok]; exact hm', by simpa [gap] using hc, hl⟩
  · rename_i s pd w' hok
    simp at h; subst h
    obtain ⟨m, m', hm, hm', hc, _, _, hl, _⟩ := C07_discount_rules_remove w w' s pd hok
    exact ⟨m, m', hm, by rw [step'_eq_of_ok hok]; exact hm', by simpa [gap] using hc, hl⟩
  · simp at h

theorem discEvent_none {w : World} {op : Op} {m : Minter} (h : discEvent w op = none) (hm : w.m = some m) :
    ∃ m', (step' w op).m = some m' ∧ m'.lastDiscount = m.lastDiscount := by
  rcases step'_cases w op with ⟨w1, hok, he⟩ | he
  · rw [he]
    apply C07_last_discount_frame w w1 op m hm hok
    constructor
    · rintro s pd p rfl; simp [discEvent, hok] at h
    · rintro s pd rfl; simp [discEvent, hok] at h
  · rw [he]; exact ⟨m, hm, rfl⟩

theorem cooldown_aux (w : World) (ops : List Op) :
    CooldownOk (discEvents w ops) ∧
      ∀ e, (discEvents w ops).head? = some e → ∀ m, w.m = some m → m.lastDiscount + gap e ≤ e.2 := by
  induction ops generalizing w with
  | nil => simp [discEvents, CooldownOk]
  | cons op ops ih =>
    obtain ⟨ih1, ih2⟩ := ih (step' w op)
    cases hev : discEvent w op with
    | none =>
      simp only [discEvents, hev, Option.toList_none, List.nil_append]
      refine ⟨ih1, ?_⟩
      intro e he m hm
      obtain ⟨m', hm', hl⟩ := discEvent_none hev hm
      rw [← hl]; exact ih2 e he m' hm'
    | some e =>
      simp only [discEvents, hev, Option.toList_some, List.cons_append, List.nil_append]
      obtain ⟨m, m', hm, hm', hc, hl⟩ := discEvent_some hev
      constructor
      · cases hrest : discEvents (step' w op) ops with
        | nil => simp [CooldownOk]
        | cons e2 rest =>
          simp only [CooldownOk]
          refine ⟨?_, by rw [← hrest]; exact ih1⟩
          have := ih2 e2 (by rw [hrest]; rfl) m' hm'
          omega
      · intro e0 he0 m0 hm0
        simp at he0; subst he0
        rw [hm] at hm0; cases hm0; exact hc

/-- history form of the cooldown: in EVERY history (any operations in between — price updates that silently drop the
discount, whitelist changes, governance, mints, arbitrary clock moves) each successful `UpdateDiscountPrice` comes at
least 12 h, each successful `RemoveDiscountPrice` at least 1 h, after the previous successful discount change -/
theorem C07_discount_cooldown_history (w : World) (ops : List Op) : CooldownOk (discEvents w ops) :=
  (cooldown_aux w ops).1

/-- the first discount change after creation: `instantiate` anchors `LAST_DISCOUNT_TIME` at `now − 12 h`, so the
cooldown never delays the first discount (only the start time does) -/
theorem C07_instantiate_anchor (w w' : World) (cr : Addr) (p : Coin) (s : Nat) (e : Option Nat) (cap : Bool)
    (wl : Option Nat) (hv : w.v.oe = false) (hok : step w (.create cr p s e cap wl) = .ok w') :
    ∃ m', w'.m = some m' ∧ m'.lastDiscount + H12 = w.now ∧ m'.discount = none ∧ w.now ≤ m'.start := by
  simp only [step] at hok
  obtain ⟨_, _, _, h1, _, h⟩ := create_ok hok
  subst h
  obtain ⟨h2, h3⟩ := h1 hv
  refine ⟨_, rfl, ?_, rfl, ?_⟩
  · simp [freshMinter, hv]; omega
  · simp [freshMinter]; exact h3

/-- `migrate`: a stored version below 3.9.0 re-anchors `LAST_DISCOUNT_TIME` at `now − 12 h`; any other accepted
migration leaves it alone; a newer stored version is refused -/
theorem C07_migrate_anchor (fromV cur : Nat × Nat × Nat) (now last : Nat) (hcur : verLt cur (3, 9, 0) = false) :
    (verLt cur fromV = true → ∃ e, migrateLast fromV cur now last = .error e) ∧
    (verLt cur fromV = false → verLt fromV (3, 9, 0) = true → H12 ≤ now → migrateLast fromV cur now last = .ok (now - H12)) ∧
    (verLt cur fromV = false → verLt fromV (3, 9, 0) = false → migrateLast fromV cur now last = .ok last) := by
  refine ⟨?_, ?_, ?_⟩
  · intro h; exact ⟨.version, by simp [migrateLast, h]⟩
  · intro h1 h2 h3
    have hne : fromV ≠ cur := by rintro rfl; rw [h2] at hcur; cases hcur
    simp [migrateLast, h1, hne, h2]; omega
  · intro h1 h2
    by_cases he : fromV = cur
    · subst he; simp [migrateLast, h1]
    · simp [migrateLast, h1, he, h2]

/-! ## Clause 4 — what a public buyer is charged never exceeds the advertised public price -/

/-- a standing discount is at most the public price and in its denom -/
def DiscInv (w : World) : Prop :=
  ∀ m d, w.m = some m → m.discount = some d → d.amount ≤ m.price.amount ∧ d.denom = m.price.denom

theorem discInv_step (w w' : World) (op : Op) (hinv : DiscInv w) (hok : step w op = .ok w') : DiscInv w' := by
  intro m' d hm' hd
  cases op <;> simp only [step] at hok
  · simp at hok; subst hok; exact hinv m' d hm' hd
  · have := newWl_ok hok; subst this; exact hinv m' d hm' hd
  · obtain ⟨_, _, _, _, _, h⟩ := create_ok hok
    subst h; simp [setMinter] at hm'; subst hm'; simp [freshMinter] at hd
  · obtain ⟨m, hm, _, _, _, h⟩ := ump_ok hok
    subst h; simp [setMinter] at hm'; subst hm'
    simp at hd
    obtain ⟨h1, h2⟩ := keepDiscount_some hd
    exact ⟨h2, (hinv m d hm h1).2⟩
  · obtain ⟨m, hm, _, _, _, _, hp, _, h⟩ := udp_ok hok
    subst h; simp [setMinter] at hm'; subst hm'
    simp at hd; subst hd; exact ⟨hp, rfl⟩
  · obtain ⟨m, hm, _, _, _, h⟩ := rdp_ok hok
    subst h; simp [setMinter] at hm'; subst hm'; simp at hd
  · obtain ⟨m, x, hm, _, _, _, _, _, _, _, h⟩ := swl_ok hok
    subst h; simp [setMinter] at hm'; subst hm'; exact hinv m d hm hd
  · obtain ⟨m, hm, _, _, _, h⟩ := ust_ok hok
    subst h; simp [setMinter] at hm'; subst hm'; exact hinv m d hm hd
  · obtain ⟨_, h⟩ := sudoMin_ok hok; subst h; exact hinv m' d hm' hd
  · have h := sudoAirdrop_ok hok; subst h; exact hinv m' d hm' hd
  · obtain ⟨h, _⟩ := mintOp_ok hok; subst h; exact hinv m' d hm' hd
  · obtain ⟨m, _, hm, _, _, _, _, _, _, h⟩ := uet_ok hok
    subst h; simp [setMinter] at hm'; subst hm'; exact hinv m d hm hd

theorem discInv_run (w : World) (ops : List Op) (hinv : DiscInv w) : DiscInv (run w ops) := by
  induction ops generalizing w with
  | nil => exact hinv
  | cons op ops ih =>
    simp only [run, List.foldl_cons]
    apply ih
    rcases step'_cases w op with ⟨w', hok, he⟩ | he
    · rw [he]; exact discInv_step w w' op hinv hok
    · rw [he]; exact hinv

/-- in every state reachable from a fresh factory by ANY history: discount (if any) ≤ public price, same denom.
(False before fix 100f319: `UpdateDiscountPrice 900; UpdateMintPrice 500` left 900 standing.) -/
theorem C07_discount_le_public (v : Variant) (now : Nat) (fac : Factory) (ops : List Op) (m : Minter) (d : Coin)
    (hm : (run (init v now fac) ops).m = some m) (hd : m.discount = some d) :
    d.amount ≤ m.price.amount ∧ d.denom = m.price.denom :=
  discInv_run _ ops (by intro m d hm; simp [init] at hm) m d hm hd

/-- "the amount a public buyer is actually charged never exceeds the advertised public price" — FULL strength:
in every reachable state, whenever no whitelist stage is open (the buyer is a public buyer), a `Mint {}` that
succeeds paid an amount ≤ `MintPrice.public_price`, in its denom; in particular `current_price ≤ public_price`. -/
theorem C07_charged_le_public (v : Variant) (now : Nat) (fac : Factory) (ops : List Op) (m : Minter)
    (hm : (run (init v now fac) ops).m = some m) (hpub : wlActive (run (init v now fac) ops) m = false) :
    let w := run (init v now fac) ops
    (currentPrice w m).amount ≤ (queryMintPrice w m).publicPrice.amount ∧
    (currentPrice w m).denom = (queryMintPrice w m).publicPrice.denom ∧
    ∀ funds, mintCheck w m funds = .ok () →
      ∃ paid, mayPay funds (queryMintPrice w m).publicPrice.denom = .ok paid ∧
        paid ≤ (queryMintPrice w m).publicPrice.amount := by
  intro w
  have hcur : (currentPrice w m).amount ≤ m.price.amount ∧ (currentPrice w m).denom = m.price.denom := by
    have hinv := C07_discount_le_public v now fac ops m
    unfold currentPrice
    unfold wlActive at hpub
    cases hwl : wlOf w m with
    | none =>
      cases hd : m.discount with
      | none => simp
      | some d => simpa using hinv d hm hd
    | some x =>
      have : x.active w.now = false := by simpa [w, hwl] using hpub
      simp only [this]
      cases hd : m.discount with
      | none => simp
      | some d => simpa using hinv d hm hd
  refine ⟨hcur.1, hcur.2, ?_⟩
  intro funds hok
  unfold mintCheck at hok
  split at hok
  · simp at hok
  · simp only at hok
    split at hok
    · simp at hok
    · rename_i paid hpay
      split at hok
      · simp at hok
      · rename_i heq
        refine ⟨paid, ?_, ?_⟩
        · simpa [queryMintPrice, ← hcur.2] using hpay
        · simp at heq; simp [queryMintPrice]; omega

/-! ## Clause 5 — the price query is honest -/

/-- "The price query always reports exactly the amount the next public (or whitelist) mint will require":
for a non-admin caller `Mint {}` succeeds IF AND ONLY IF the mint window is open, the fee split is deliverable and
the funds pay exactly `MintPrice.current_price` (amount and denom) — in every state, at the same instant. -/
theorem C07_query_honest (w : World) (m : Minter) (funds : List Coin) :
    mintCheck w m funds = .ok () ↔
      (mintGate w m = true ∧ feeSendable w (queryMintPrice w m).currentPrice = true ∧
        mayPay funds (queryMintPrice w m).currentPrice.denom = .ok (queryMintPrice w m).currentPrice.amount) := by
  unfold mintCheck
  simp only [queryMintPrice]
  constructor
  · intro h
    split at h
    · simp at h
    · rename_i hg
      split at h
      · simp at h
      · rename_i paid hpay
        split at h
        · simp at h
        · rename_i heq
          split at h
          · simp at h
          · rename_i hfee
            simp at hg heq hfee
            exact ⟨hg, hfee, by rw [hpay, heq]⟩
  · rintro ⟨hg, hfee, hpay⟩
    simp [hg, hpay, hfee]

/-- a single coin is accepted only if it IS the advertised current price -/
theorem C07_query_exact (w : World) (m : Minter) (c : Coin) (hok : mintCheck w m [c] = .ok ()) :
    c = (queryMintPrice w m).currentPrice := by
  obtain ⟨_, _, h⟩ := (C07_query_honest w m [c]).1 hok
  simp only [mayPay] at h
  split at h
  · rename_i hd
    simp at h
    cases c; simp_all
  · simp at h

/-- paying nothing is accepted only when the advertised current price is zero -/
theorem C07_query_free (w : World) (m : Minter) (hok : mintCheck w m [] = .ok ()) :
    (queryMintPrice w m).currentPrice.amount = 0 := by
  obtain ⟨_, _, h⟩ := (C07_query_honest w m []).1 hok
  simp [mayPay] at h
  exact h.symm

/-- conversely, with the window open, paying exactly the advertised price (nothing, when it is zero) is accepted -/
theorem C07_query_sufficient (w : World) (m : Minter) (hg : mintGate w m = true)
    (hfee : feeSendable w (queryMintPrice w m).currentPrice = true) :
    mintCheck w m (if (queryMintPrice w m).currentPrice.amount = 0 then [] else [(queryMintPrice w m).currentPrice]) = .ok () := by
  apply (C07_query_honest w m _).2
  refine ⟨hg, hfee, ?_⟩
  split
  · rename_i h; simp [mayPay, h]
  · simp [mayPay]

/-- the whole `Mint` message through `step`: succeeds iff a minter exists and the above holds; never changes a price -/
theorem C07_mint_step (w : World) (funds : List Coin) :
    (∀ w', step w (.mint funds) = .ok w' → w' = w) ∧
    ((∃ w', step w (.mint funds) = .ok w') ↔ ∃ m, w.m = some m ∧ mintCheck w m funds = .ok ()) := by
  constructor
  · intro w' h; simp only [step] at h; exact (mintOp_ok h).1
  · constructor
    · rintro ⟨w', h⟩; simp only [step] at h; exact (mintOp_ok h).2
    · rintro ⟨m, hm, h⟩; exact ⟨w, by simp [step, mintOp, hm, h]⟩

/-- the other fields of the answer are the stored values: `public_price` = `config.mint_price`, `discount_price` =
`config.extension.discount_price`, `whitelist_price` = the attached whitelist's price, `airdrop_price` = the factory's
airdrop amount (reported in the minter's denom); `current_price` = whitelist price while that whitelist is active,
else the discount if one stands, else the public price -/
theorem C07_query_fields (w : World) (m : Minter) :
    (queryMintPrice w m).publicPrice = m.price ∧ (queryMintPrice w m).discountPrice = m.discount ∧
    (queryMintPrice w m).whitelistPrice = (wlOf w m).map (·.price) ∧
    (queryMintPrice w m).airdropPrice = ⟨m.price.denom, w.fac.airdrop.amount⟩ ∧
    (queryMintPrice w m).currentPrice =
      (match wlOf w m with
       | some x => if x.active w.now then x.price else m.discount.getD m.price
       | none => m.discount.getD m.price) :=
  ⟨rfl, rfl, rfl, rfl, rfl⟩

/-! ## Open edition — the price rules specific to the family

(`execute_create_minter` of the open-edition factory, `execute_update_mint_price` / `execute_update_end_time` of the three
open-edition minters.) An edition WITHOUT a token cap is limited by its end time only, so it must never be free. -/

/-- creation of an open edition: start strictly in the future, end after the start, and an edition without a token cap
needs a non-zero price, a non-zero factory airdrop price and an end time; what is stored is what was asked for -/
theorem C07_oe_create_rules (w w' : World) (c : Addr) (price : Coin) (start : Nat) (stop : Option Nat) (cap : Bool)
    (wl : Option Nat) (hoe : w.v.oe = true) (hok : step w (.create c price start stop cap wl) = .ok w') :
    w.now < start ∧ (∀ e, stop = some e → start < e) ∧
    (cap = false → price.amount ≠ 0 ∧ w.fac.airdrop.amount ≠ 0 ∧ stop.isSome = true) ∧
    w.fac.minPrice.amount ≤ price.amount ∧ w.fac.minPrice.denom = price.denom ∧
    ∃ m', w'.m = some m' ∧ m'.price = price ∧ m'.stop = stop ∧ m'.hasCap = cap ∧ m'.discount = none ∧ m'.start = start := by
  simp only [step, createMinter] at hok
  split at hok
  · rename_i hc
    simp only [Except.ok.injEq] at hok; subst hok
    simp only [createOk, hoe, if_true, Bool.and_eq_true, decide_eq_true_eq, Bool.or_eq_true] at hc
    obtain ⟨⟨⟨⟨_, hd⟩, ha⟩, ⟨⟨hcap, hnow⟩, hend⟩⟩, _⟩ := hc
    refine ⟨hnow, ?_, ?_, ha, hd, _, rfl, ?_⟩
    · intro e he; subst he; simpa using hend
    · intro hf; subst hf
      have : (price.amount ≠ 0 ∧ w.fac.airdrop.amount ≠ 0) ∧ stop.isSome = true := by simpa using hcap
      exact ⟨this.1.1, this.1.2, this.2⟩
    · simp [freshMinter, hoe]
  · simp at hok

/-- `UpdateMintPrice` on an open edition: refused at or after the end time (`now >= end`), and an edition without a token
cap never gets price 0 — on top of the family-independent rules (admin, floor, only lower once started) -/
theorem C07_oe_update_rules (w w' : World) (s : Addr) (paid : Bool) (p : Nat) (hoe : w.v.oe = true)
    (hok : step w (.updateMintPrice s paid p) = .ok w') :
    ∃ m m', w.m = some m ∧ w'.m = some m' ∧ (∀ e, m.stop = some e → w.now < e) ∧ (m.hasCap = false → p ≠ 0) ∧
      w.fac.minPrice.amount ≤ p ∧ (m.start ≤ w.now → p < m.price.amount) ∧ s = m.admin ∧
      m'.price = ⟨m.price.denom, p⟩ ∧ m'.stop = m.stop ∧ m'.hasCap = m.hasCap := by
  simp only [step] at hok
  obtain ⟨m, hm, hadm, hlt, hmin, h⟩ := ump_ok hok
  have hrules : (∀ e, m.stop = some e → w.now < e) ∧ (m.hasCap = false → p ≠ 0) := by
    unfold updateMintPrice at hok
    simp only [hm, hoe, Bool.true_and] at hok
    constructor
    · intro e he
      rw [he] at hok
      by_cases hl : e ≤ w.now
      · exfalso; simp [hl] at hok; split at hok <;> cases hok
      · omega
    · intro hcap hp
      subst hp
      simp [hcap] at hok
      repeat' (split at hok)
      all_goals cases hok
  subst h
  simp [adminOk] at hadm
  exact ⟨m, _, hm, rfl, hrules.1, hrules.2, hmin, hlt, hadm.2, rfl, rfl, rfl⟩

/-- `UpdateEndTime`: open edition only, admin, nonpayable; an end time must exist and must not have passed; the new one is
neither in the past nor before the start; nothing but `end_time` changes -/
theorem C07_oe_end_rules (w w' : World) (s : Addr) (paid : Bool) (t : Nat)
    (hok : step w (.updateEnd s paid t) = .ok w') :
    ∃ m m' e, w.m = some m ∧ w'.m = some m' ∧ w.v.oe = true ∧ s = m.admin ∧ paid = false ∧ m.stop = some e ∧
      w.now < e ∧ w.now ≤ t ∧ m.start ≤ t ∧ m' = { m with stop := some t } ∧ w'.fac = w.fac ∧ w'.now = w.now := by
  simp only [step] at hok
  obtain ⟨m, e, hm, hoe, hadm, he, h1, h2, h3, h⟩ := uet_ok hok
  subst h
  simp [adminOk] at hadm
  exact ⟨m, _, e, hm, rfl, hoe, hadm.2, hadm.1, he, h1, h2, h3, rfl, rfl, rfl⟩

theorem v_step (w w' : World) (op : Op) (hok : step w op = .ok w') : w'.v = w.v := by
  cases op <;> simp only [step] at hok
  · simp at hok; subst hok; rfl
  · have := newWl_ok hok; subst this; rfl
  · obtain ⟨_, _, _, _, _, h⟩ := create_ok hok; subst h; rfl
  · obtain ⟨_, _, _, _, _, h⟩ := ump_ok hok; subst h; rfl
  · obtain ⟨_, _, _, _, _, _, _, _, h⟩ := udp_ok hok; subst h; rfl
  · obtain ⟨_, _, _, _, _, h⟩ := rdp_ok hok; subst h; rfl
  · obtain ⟨_, _, _, _, _, _, _, _, _, _, h⟩ := swl_ok hok; subst h; rfl
  · obtain ⟨_, _, _, _, _, h⟩ := ust_ok hok; subst h; rfl
  · obtain ⟨_, h⟩ := sudoMin_ok hok; subst h; rfl
  · have h := sudoAirdrop_ok hok; subst h; rfl
  · obtain ⟨h, _⟩ := mintOp_ok hok; subst h; rfl
  · obtain ⟨_, _, _, _, _, _, _, _, _, h⟩ := uet_ok hok; subst h; rfl

/-- an open edition without a token cap has a non-zero public price -/
def UncapInv (w : World) : Prop := ∀ m, w.m = some m → m.hasCap = false → m.price.amount ≠ 0

theorem uncapInv_step (w w' : World) (op : Op) (hoe : w.v.oe = true) (hinv : UncapInv w) (hok : step w op = .ok w') :
    UncapInv w' := by
  intro m' hm' hcap
  cases op
  case create c price start stop cap wl =>
    obtain ⟨_, _, hun, _, _, m1, hm1, hp, _, hc, _⟩ := C07_oe_create_rules w w' c price start stop cap wl hoe hok
    rw [hm1] at hm'; cases hm'
    rw [hp]; exact (hun (by rw [← hc]; exact hcap)).1
  case updateMintPrice s pd p =>
    obtain ⟨m, m1, hm, hm1, _, hnz, _, _, _, hp, _, hc⟩ := C07_oe_update_rules w w' s pd p hoe hok
    rw [hm1] at hm'; cases hm'
    rw [hp]; exact hnz (by rw [← hc]; exact hcap)
  all_goals
    simp only [step] at hok
  · simp at hok; subst hok; exact hinv m' hm' hcap
  · have := newWl_ok hok; subst this; exact hinv m' hm' hcap
  · obtain ⟨m, hm, hv, _⟩ := udp_ok hok; rw [hoe] at hv; cases hv
  · obtain ⟨m, hm, hv, _⟩ := rdp_ok hok; rw [hoe] at hv; cases hv
  · obtain ⟨m, x, hm, _, _, _, _, _, _, _, h⟩ := swl_ok hok
    subst h; simp [setMinter] at hm'; subst hm'; exact hinv m hm hcap
  · obtain ⟨m, hm, _, _, _, h⟩ := ust_ok hok
    subst h; simp [setMinter] at hm'; subst hm'; exact hinv m hm hcap
  · obtain ⟨_, h⟩ := sudoMin_ok hok; subst h; exact hinv m' hm' hcap
  · have h := sudoAirdrop_ok hok; subst h; exact hinv m' hm' hcap
  · obtain ⟨h, _⟩ := mintOp_ok hok; subst h; exact hinv m' hm' hcap
  · obtain ⟨m, _, hm, _, _, _, _, _, _, h⟩ := uet_ok hok
    subst h; simp [setMinter] at hm'; subst hm'; exact hinv m hm hcap

/-- history form: on an open-edition factory, after ANY sequence of operations, the PUBLIC price of an edition without a token
cap is non-zero. Only the public price: "never free" in the name does NOT extend to whitelisted buyers — with a factory minimum of
0 `SetWhitelist` admits a zero-priced whitelist (`minPrice.amount > x.price.amount` is the only refusal), and a whitelist named at
creation is admitted at any price (`C07_create_whitelist_unchecked_counterexample`), so listed buyers may then mint an uncapped
edition for free. -/
theorem C07_oe_uncapped_never_free (v : Variant) (hv : v.oe = true) (now : Nat) (fac : Factory) (ops : List Op) (m : Minter)
    (hm : (run (init v now fac) ops).m = some m) (hcap : m.hasCap = false) : m.price.amount ≠ 0 := by
  have key : ∀ (w : World) (ops : List Op), w.v.oe = true → UncapInv w → UncapInv (run w ops) := by
    intro w ops
    induction ops generalizing w with
    | nil => intro _ h; exact h
    | cons o os ih =>
      intro h1 h2
      simp only [run, List.foldl_cons]
      rcases step'_cases w o with ⟨w1, hok1, he⟩ | he
      · rw [he]; exact ih w1 (by rw [v_step w w1 o hok1]; exact h1) (uncapInv_step w w1 o h1 h2 hok1)
      · rw [he]; exact ih w h1 h2
  exact key (init v now fac) ops hv (by intro m hm; simp [init] at hm) m hm hcap

/-! ## Frame — which message can change what (used for "any other message" in `Props/C07X.lean`) -/

/-- If a successful step changed the public price, it was the admin's `UpdateMintPrice`; the discount: one of the two
discount messages or `UpdateMintPrice` (which may only DROP it); the attached whitelist: `SetWhitelist`; the start time:
`UpdateStartTime`; `LAST_DISCOUNT_TIME`: the two discount messages. Nothing else in the operation set touches them. -/
theorem C07_price_frame (w w' : World) (op : Op) (m m' : Minter) (hm : w.m = some m) (hm' : w'.m = some m')
    (hok : step w op = .ok w') :
    (m'.price ≠ m.price → ∃ pd p, op = .updateMintPrice m.admin pd p) ∧
    (m'.discount ≠ m.discount →
      (∃ s pd p, op = .updateDiscount s pd p) ∨ (∃ s pd, op = .removeDiscount s pd) ∨
      ((∃ s pd p, op = .updateMintPrice s pd p) ∧ m'.discount = none)) ∧
    (m'.wl ≠ m.wl → ∃ s pd k, op = .setWhitelist s pd k) ∧
    (m'.start ≠ m.start → ∃ s pd t, op = .updateStart s pd t) ∧
    (m'.lastDiscount ≠ m.lastDiscount → (∃ s pd p, op = .updateDiscount s pd p) ∨ (∃ s pd, op = .removeDiscount s pd)) := by
  cases op <;> simp only [step] at hok
  · simp at hok; subst hok; rw [hm] at hm'; cases hm'; simp
  · have := newWl_ok hok; subst this; simp at hm'; rw [hm] at hm'; cases hm'; simp
  · obtain ⟨h, _⟩ := create_ok hok; rw [hm] at h; cases h
  · rename_i s pd p
    obtain ⟨m0, hm0, hadm, _, _, h⟩ := ump_ok hok
    rw [hm] at hm0; cases hm0; subst h; simp [setMinter] at hm'; subst hm'
    simp [adminOk] at hadm
    refine ⟨fun _ => ⟨pd, p, by rw [hadm.2]⟩, ?_, by simp, by simp, by simp⟩
    intro hd
    refine Or.inr (Or.inr ⟨⟨s, pd, p, rfl⟩, ?_⟩)
    simp only at hd ⊢
    unfold keepDiscount at hd ⊢
    split
    · split
      · rfl
      · rename_i c hc hgt; simp [hc, hgt] at hd
    · rfl
  · obtain ⟨m0, hm0, _, _, _, _, _, _, h⟩ := udp_ok hok
    rw [hm] at hm0; cases hm0; subst h; simp [setMinter] at hm'; subst hm'
    exact ⟨by simp, fun _ => Or.inl ⟨_, _, _, rfl⟩, by simp, by simp, fun _ => Or.inl ⟨_, _, _, rfl⟩⟩
  · obtain ⟨m0, hm0, _, _, _, h⟩ := rdp_ok hok
    rw [hm] at hm0; cases hm0; subst h; simp [setMinter] at hm'; subst hm'
    exact ⟨by simp, fun _ => Or.inr (Or.inl ⟨_, _, rfl⟩), by simp, by simp, fun _ => Or.inr ⟨_, _, rfl⟩⟩
  · obtain ⟨m0, x, hm0, _, _, _, _, _, _, _, h⟩ := swl_ok hok
    rw [hm] at hm0; cases hm0; subst h; simp [setMinter] at hm'; subst hm'
    exact ⟨by simp, by simp, fun _ => ⟨_, _, _, rfl⟩, by simp, by simp⟩
  · obtain ⟨m0, hm0, _, _, _, h⟩ := ust_ok hok
    rw [hm] at hm0; cases hm0; subst h; simp [setMinter] at hm'; subst hm'
    exact ⟨by simp, by simp, by simp, fun _ => ⟨_, _, _, rfl⟩, by simp⟩
  · obtain ⟨_, h⟩ := sudoMin_ok hok; subst h; simp at hm'; rw [hm] at hm'; cases hm'; simp
  · have h := sudoAirdrop_ok hok; subst h; simp at hm'; rw [hm] at hm'; cases hm'; simp
  · obtain ⟨h, _⟩ := mintOp_ok hok; subst h; rw [hm] at hm'; cases hm'; simp
  · obtain ⟨m0, _, hm0, _, _, _, _, _, _, h⟩ := uet_ok hok
    rw [hm] at hm0; cases hm0; subst h; simp [setMinter] at hm'; subst hm'
    exact ⟨by simp, by simp, by simp, by simp, by simp⟩

/-- the factory minimum is moved by governance only (`sudo UpdateParams`), to a native-denom coin -/
theorem C07_floor_frame (w w' : World) (op : Op) (hok : step w op = .ok w')
    (hne : w'.fac.minPrice ≠ w.fac.minPrice) : ∃ c, op = .sudoMin c ∧ c.denom = NATIVE ∧ w'.fac.minPrice = c := by
  cases op <;> simp only [step] at hok
  · simp at hok; subst hok; simp at hne
  · have := newWl_ok hok; subst this; simp at hne
  · obtain ⟨_, _, _, _, _, h⟩ := create_ok hok; subst h; simp [setMinter] at hne
  · obtain ⟨_, _, _, _, _, h⟩ := ump_ok hok; subst h; simp [setMinter] at hne
  · obtain ⟨_, _, _, _, _, _, _, _, h⟩ := udp_ok hok; subst h; simp [setMinter] at hne
  · obtain ⟨_, _, _, _, _, h⟩ := rdp_ok hok; subst h; simp [setMinter] at hne
  · obtain ⟨_, _, _, _, _, _, _, _, _, _, h⟩ := swl_ok hok; subst h; simp [setMinter] at hne
  · obtain ⟨_, _, _, _, _, h⟩ := ust_ok hok; subst h; simp [setMinter] at hne
  · obtain ⟨hd, h⟩ := sudoMin_ok hok; subst h; exact ⟨_, rfl, hd, rfl⟩
  · have h := sudoAirdrop_ok hok; subst h; simp at hne
  · obtain ⟨h, _⟩ := mintOp_ok hok; subst h; simp at hne
  · obtain ⟨_, _, _, _, _, _, _, _, _, h⟩ := uet_ok hok; subst h; simp [setMinter] at hne

/-! ## Non-vacuity: the hypotheses above are satisfiable by concrete histories (vending-minter, floor 50 ustars) -/

def exT0 : Nat := GENESIS + 100 * HOUR
def exW0 : World := init (variantOf 0) exT0 { minPrice := ⟨0, 50⟩, airdrop := ⟨0, 0⟩, feeBps := 1000 }
/-- create at 1000, start, discount 900, lower the price to 500 (the formerly defective sequence) -/
def exOps : List Op :=
  [.create 10 ⟨0, 1000⟩ (exT0 + HOUR) none true none, .setTime (exT0 + HOUR), .updateDiscount 10 false 900,
   .updateMintPrice 10 false 500]

/-- after the repaired sequence: public 500, the 900 discount is gone, the buyer is charged 500 -/
example : (run exW0 exOps).m.map (fun m => (m.price, m.discount)) = some (⟨0, 500⟩, none) := by decide
example : ((run exW0 exOps).m.map (fun m => currentPrice (run exW0 exOps) m)) = some ⟨0, 500⟩ := by decide
/-- `C07_floor` / `C07_discount_rules_update` are not vacuous: the discount update in that history succeeds -/
example : (step (run exW0 (exOps.take 2)) (.updateDiscount 10 false 900)).toOption.isSome = true := by decide
/-- … and a second one 12 h later minus 1 ns is refused, at 12 h sharp accepted -/
example : (run exW0 (exOps ++ [.setTime (exT0 + HOUR + H12 - 1), .updateDiscount 10 false 400])).m.map (·.discount) = some none := by
  decide
example : (run exW0 (exOps ++ [.setTime (exT0 + HOUR + H12), .updateDiscount 10 false 400])).m.map (·.discount) = some (some ⟨0, 400⟩) := by
  decide
/-- the history has exactly one discount event: the set at `start` (the price cut that drops it is not an event) -/
example : discEvents exW0 exOps = [(true, exT0 + HOUR)] := by decide
/-- after the start a raise is refused, below the floor is refused, a cut is accepted -/
example : (run exW0 (exOps ++ [.updateMintPrice 10 false 500])).m.map (·.price.amount) = some 500 := by decide
example : (run exW0 (exOps ++ [.updateMintPrice 10 false 49])).m.map (·.price.amount) = some 500 := by decide
example : (run exW0 (exOps ++ [.updateMintPrice 10 false 499])).m.map (·.price.amount) = some 499 := by decide
/-- the mint is accepted with exactly the advertised 500 and with nothing else -/
example : (step (run exW0 exOps) (.mint [⟨0, 500⟩])).toOption.isSome = true := by decide
example : (step (run exW0 exOps) (.mint [⟨0, 900⟩])).toOption.isSome = false := by decide
example : GovKeepsDenom exW0 (exOps ++ [.sudoMin ⟨0, 70⟩]) := by
  simp only [GovKeepsDenom, keepsDenom, exOps, List.cons_append, List.nil_append, and_true, true_and]; decide
example : MonotoneClock exW0 exOps := by
  simp only [MonotoneClock, exOps, and_true, true_and]; decide

/-! ### open edition (open-edition-minter, floor 50, airdrop 7) -/
def exOE : World := init (variantOf 6) exT0 { minPrice := ⟨0, 50⟩, airdrop := ⟨0, 7⟩, feeBps := 1000 }
def exOEOps : List Op := [.create 10 ⟨0, 1000⟩ (exT0 + HOUR) (some (exT0 + 5 * HOUR)) false none]
/-- an uncapped edition with price, airdrop price and end time is created; with price 0 / without an end time it is not -/
example : (run exOE exOEOps).m.map (fun m => (m.price, m.stop, m.hasCap)) = some (⟨0, 1000⟩, some (exT0 + 5 * HOUR), false) := by decide
example : (run { exOE with fac := { exOE.fac with minPrice := ⟨0, 0⟩ } } [.create 10 ⟨0, 0⟩ (exT0 + HOUR) (some (exT0 + 5 * HOUR)) false none]).m = none := by decide
example : (run exOE [.create 10 ⟨0, 1000⟩ (exT0 + HOUR) none false none]).m = none := by decide
/-- one nanosecond before the end a price cut is accepted, at the end it is refused -/
example : (run exOE (exOEOps ++ [.setTime (exT0 + 5 * HOUR - 1), .updateMintPrice 10 false 900])).m.map (·.price.amount) = some 900 := by decide
example : (run exOE (exOEOps ++ [.setTime (exT0 + 5 * HOUR), .updateMintPrice 10 false 900])).m.map (·.price.amount) = some 1000 := by decide
/-- the admin extends the sale (before the end has passed): the cut at the OLD end time is then accepted; after the end nothing moves -/
example : (run exOE (exOEOps ++ [.updateEnd 10 false (exT0 + 9 * HOUR), .setTime (exT0 + 5 * HOUR), .updateMintPrice 10 false 900])).m.map
    (fun m => (m.price.amount, m.stop)) = some (900, some (exT0 + 9 * HOUR)) := by decide
example : (run exOE (exOEOps ++ [.setTime (exT0 + 5 * HOUR), .updateEnd 10 false (exT0 + 9 * HOUR)])).m.map (·.stop) = some (some (exT0 + 5 * HOUR)) := by decide
example : (run exOE (exOEOps ++ [.updateEnd 11 false (exT0 + 9 * HOUR)])).m.map (·.stop) = some (some (exT0 + 5 * HOUR)) := by decide
example : (run exOE (exOEOps ++ [.updateEnd 10 false (exT0 + HOUR - 1)])).m.map (·.stop) = some (some (exT0 + 5 * HOUR)) := by decide
/-- the vending family has no such message -/
example : (step (run exW0 exOps) (.updateEnd 10 false (exT0 + 9 * HOUR))).toOption.isSome = false := by decide

end LP
