import LaunchpadModel.Lemmas.BaseFullCreate
/-!
# Refinement: the composite base-family model `LP.BF` refines the C08 aspect model `LP.FC` (factory creation rules)

(A module of its own because `Props/C08.lean` and `Props/C02.lean` cannot be imported together — both declare `LP.exWorld`;
the other aspects of the base composite are in `Props/CompositeBase.lean`.)

Projection `BF.fcOf n` / translation `BF.fcCreateMsg`, `BF.fcUpdate` (Lemmas/BaseFullCreate.lean).  Simulation, for ALL composite
states without a minter and ALL messages: `fcOf n (step' s (create …)) = FC.step' (fcOf n s) (create factory (fcCreateMsg …))`
(`C08_fullbase_refines_create`), same for `sudo UpdateParams` / `migrate` / the clock / coin creation.  The two sides were written
independently from the Rust: the composite as a sequence of gates over `MintPay.Bank`, `FC` as one Boolean conjunction over a
function bank with a separate supply.  Then the headline theorems of C08 restated for the composite.
-/
namespace LP
open LP.BF

namespace BF

theorem mustPay_shape {funds : List Coin} {d : Denom} {a : Nat} (h : mustPay funds d = .ok a) :
    funds = [⟨d, a⟩] ∧ a ≠ 0 := by
  unfold mustPay at h
  split at h
  · rename_i c
    split at h
    · cases h
    · rename_i h0
      split at h
      · rename_i hd
        cases h
        exact ⟨by cases c; simp_all, h0⟩
      · cases h
  · cases h

/-- the composite `CreateMinter`, run forwards from the facts its inversion lemma lists -/
theorem createMinter_of {s : State} {sender : Addr} {funds : List Coin} {msg : CreateMsg} {w : CreateWit}
    {b1 b2 : MintPay.Bank} {ms : List Msg} {paid : Nat} {creator : Addr} {v : Variant}
    (hm : s.minter = none) (hb1 : s.bank.sendFunds sender s.factoryAddr funds = some b1)
    (hpay : mustPay funds s.params.creationFee.denom = .ok paid) (hal : s.params.allowed.contains msg.collCode = true)
    (hfr : s.params.frozen = false) (hms : creationFeeMsgs s funds = .ok ms)
    (hb2 : MintPay.applyMsgs s.factoryAddr b1 ms = some b2) (hcode : s.codes.minters.contains s.params.codeId = true)
    (hcr : msg.creator = some creator) (hv : variantOf s.codes msg.collCode = some v) (hck : collectionChecks msg = true) :
    ∃ m, createMinter s sender funds msg w = .ok { s with bank := b2, minter := some m } ∧
      instantiateMinter s sender msg w = .ok m := by
  have hinst : instantiateMinter s sender msg w = .ok
      { v := v, addr := w.minterAddr, factory := s.factoryAddr, collectionCodeId := msg.collCode,
        mintPrice := s.params.minMintPrice, sg721 := w.collAddr,
        seq := Supply.Seq.create .base none 0 false, status := {}, uris := [],
        tt := TT.Coll.init v.coll w.minterAddr creator (some (createTrading s msg)),
        royalty := royaltyStored msg.royalty, createdAt := s.now,
        codeId := s.params.codeId, wasmAdmin := sender, collAdmin := creator } := by
    unfold instantiateMinter
    simp [hcr, hv, hck]
  have hal' : msg.collCode ∈ s.params.allowed := by simpa using hal
  have hcode' : s.params.codeId ∈ s.codes.minters := by simpa using hcode
  have hfc : factoryChecks s funds msg = .ok ms := by
    unfold factoryChecks
    simp [hpay, hal', hfr, hms]
  refine ⟨_, ?_, hinst⟩
  unfold createMinter
  simp [hm, hb1, hfc, hb2, hcode', hinst]

/-- composite accepted ⇒ the aspect model accepts, with the projected post-state -/
theorem create_fc_ok (n : Nat) {s s' : State} (hc : StdCodes s.codes) {sender : Addr} {funds : List Coin} {msg : CreateMsg}
    {w : CreateWit} (hw1 : w.minterAddr = 1000 + n) (hw2 : w.collAddr = 1000 + n + 1)
    (h : createMinter s sender funds msg w = .ok s') :
    FC.create (fcOf n s) s.factoryAddr (fcCreateMsg sender funds msg) = .ok (fcOf n s') := by
  obtain ⟨b1, ms, b2, m, hm, hb1, hfc, hb2, hcode, hinst, rfl⟩ := createMinter_ok h
  obtain ⟨⟨paid, hpay⟩, hal, hfr, hms⟩ := factoryChecks_ok hfc
  obtain ⟨creator, v, hcr, hv, hck, rfl⟩ := instantiateMinter_ok hinst
  obtain ⟨hfunds, hp0⟩ := mustPay_shape hpay
  have hcode11 : s.params.codeId = 11 := by
    rw [hc.1] at hcode; simpa using hcode
  have hbank := bankStep_bridge s sender funds msg _ ms hfunds hms
  rw [hb1] at hbank
  simp only [Option.bind_some, hb2, Option.map_some] at hbank
  have hsg : FC.isSg721Code msg.collCode = true := by
    rw [← collKind_std s.codes hc.2, hv]; rfl
  have hok : FC.createOk s.factoryAddr (fcParams s.params) (fcOf n s) (fcCreateMsg sender funds msg) = true := by
    unfold FC.createOk
    have e1 : FC.MKind.ofCode (fcParams s.params).codeId = some .base := by
      show FC.MKind.ofCode s.params.codeId = _
      rw [hcode11]; rfl
    rw [e1]
    simp only [Bool.and_eq_true]
    refine ⟨⟨⟨⟨rfl, ?_⟩, ?_⟩, ?_⟩, ?_⟩
    · -- factoryOk
      unfold FC.factoryOk
      simp only [Bool.and_eq_true]
      refine ⟨⟨⟨⟨?_, ?_⟩, ?_⟩, ?_⟩, rfl⟩
      · unfold FC.payOk
        show (match mustPay funds s.params.creationFee.denom with | .ok a => _ | .error _ => false) = true
        rw [hpay]; rfl
      · have : msg.collCode ∈ s.params.allowed := by simpa using hal
        exact decide_eq_true this
      · simp [fcParams, hfr]
      · rw [feeMsgs_eq, hms]; rfl
    · show (fcCreateMsg sender funds msg).creator.isSome = true
      simp [fcCreateMsg, hcr]
    · rw [collectionChecks_eq]; simp [hsg, hck, hcr]
    · rw [fc_bal, fc_supply, hbank]; rfl
  unfold FC.create
  rw [fc_factory]
  simp only [hok, if_true]
  have e1 : FC.MKind.ofCode (fcParams s.params).codeId = some .base := by
    show FC.MKind.ofCode s.params.codeId = _
    rw [hcode11]; rfl
  have e2 : (fcCreateMsg sender funds msg).creator = some creator := hcr
  rw [e1, e2, fc_bal, fc_supply, hbank]
  simp only [Except.ok.injEq]
  -- the post-state is the projection of the composite post-state
  have ht := tradeStored_eq s sender funds msg
  have hr := royaltyStored_eq msg sender funds
  simp only [FC.post, fc_now, ht, hr]
  simp only [fcOf, hm, FC.minterAddr, FC.collectionAddr, FC.minterRec, FC.MKind.family, bs, hw1, hw2, fcMinter,
    fcCollection, fcFactoryEntry, TT.Coll.init, List.nil_append, List.cons_append, Option.getD_some, fcCreateMsg, fcParams]

/-- the aspect model accepts ⇒ the composite accepts -/
theorem create_fc_conv (n : Nat) {s : State} (hm : s.minter = none) (hc : StdCodes s.codes) {sender : Addr} {funds : List Coin}
    {msg : CreateMsg} (w : CreateWit) {W : FC.World}
    (h : FC.create (fcOf n s) s.factoryAddr (fcCreateMsg sender funds msg) = .ok W) :
    ∃ s', createMinter s sender funds msg w = .ok s' := by
  obtain ⟨hok, mk, creator, bsv, hmk, hcr, hbs, _⟩ := fc_create_ok _ _ _ _ _ (fc_factory n s) h
  have hcr' : msg.creator = some creator := hcr
  unfold FC.createOk at hok
  rw [hmk] at hok
  simp only [Bool.and_eq_true, FC.factoryOk] at hok
  obtain ⟨⟨⟨⟨hcompat, ⟨⟨⟨⟨hpay, hal⟩, hfr⟩, hfee⟩, _⟩⟩, _⟩, hcoll⟩, _⟩ := hok
  have hcode11 : s.params.codeId = 11 := (ofCode_base_iff s.params.codeId).1 ⟨mk, hmk, hcompat⟩
  -- payment
  have hpay' : ∃ paid, mustPay funds s.params.creationFee.denom = .ok paid := by
    unfold FC.payOk at hpay
    have : (match mustPay funds s.params.creationFee.denom with
        | .ok a => if (fcParams s.params).kind = .openEdition then decide (a = s.params.creationFee.amount) else true
        | .error _ => false) = true := hpay
    cases hx : mustPay funds s.params.creationFee.denom with
    | ok a => exact ⟨a, rfl⟩
    | error e => rw [hx] at this; cases this
  obtain ⟨paid, hpaid⟩ := hpay'
  obtain ⟨hfunds, _⟩ := mustPay_shape hpaid
  have hal' : s.params.allowed.contains msg.collCode = true := by
    have : msg.collCode ∈ s.params.allowed := of_decide_eq_true hal
    simpa using this
  have hfr' : s.params.frozen = false := by simpa [fcParams] using hfr
  have hms : ∃ ms, creationFeeMsgs s funds = .ok ms := by
    rw [feeMsgs_eq] at hfee
    cases hx : creationFeeMsgs s funds with
    | ok ms => exact ⟨ms, rfl⟩
    | error e => rw [hx] at hfee; cases hfee
  obtain ⟨ms, hms⟩ := hms
  -- bank
  have hbank := bankStep_bridge s sender funds msg _ ms hfunds hms
  rw [fc_bal, fc_supply] at hbs
  rw [hbs] at hbank
  have hb : ∃ b1 b2, s.bank.sendFunds sender s.factoryAddr funds = some b1 ∧ MintPay.applyMsgs s.factoryAddr b1 ms = some b2 := by
    cases hb1 : s.bank.sendFunds sender s.factoryAddr funds with
    | none => rw [hb1] at hbank; cases hbank
    | some b1 =>
      rw [hb1] at hbank
      simp only [Option.bind_some] at hbank
      cases hb2 : MintPay.applyMsgs s.factoryAddr b1 ms with
      | none => rw [hb2] at hbank; cases hbank
      | some b2 => exact ⟨b1, b2, rfl, hb2⟩
  obtain ⟨b1, b2, hb1, hb2⟩ := hb
  -- collection
  rw [collectionChecks_eq] at hcoll
  simp only [Bool.and_eq_true] at hcoll
  obtain ⟨⟨hsg, hck⟩, _⟩ := hcoll
  have hv : ∃ v, variantOf s.codes msg.collCode = some v := by
    have := collKind_std s.codes hc.2 msg.collCode
    rw [hsg] at this
    exact Option.isSome_iff_exists.1 this
  obtain ⟨v, hv⟩ := hv
  have hcode : s.codes.minters.contains s.params.codeId = true := by rw [hc.1, hcode11]; rfl
  obtain ⟨m, hcm, _⟩ := createMinter_of (w := w) hm hb1 hpaid hal' hfr' hms hb2 hcode hcr' hv hck
  exact ⟨_, hcm⟩

/-- **simulation of `CreateMinter`** (every composite state without a minter, every message, every payer) -/
theorem create_sim (n : Nat) (s : State) (hm : s.minter = none) (hc : StdCodes s.codes) (sender : Addr) (funds : List Coin)
    (msg : CreateMsg) (w : CreateWit) (hw1 : w.minterAddr = 1000 + n) (hw2 : w.collAddr = 1000 + n + 1) :
    fcOf n (step' s (.create sender funds msg w)) =
      FC.step' (fcOf n s) (.create s.factoryAddr (fcCreateMsg sender funds msg)) := by
  unfold step' FC.step'
  simp only [step, FC.step]
  cases h : createMinter s sender funds msg w with
  | ok s' => rw [create_fc_ok n hc hw1 hw2 h]
  | error e =>
    cases hf : FC.create (fcOf n s) s.factoryAddr (fcCreateMsg sender funds msg) with
    | error e' => rfl
    | ok W =>
      obtain ⟨s', hs'⟩ := create_fc_conv n hm hc w hf
      rw [h] at hs'; cases hs'

/-! ### governance, clock, coin creation -/

theorem updateAllowed_eq (allowed : List Nat) (add rm : Option (List Nat)) :
    FC.removeAll (FC.dedupAdj (allowed ++ add.getD [])) (rm.getD []) = VF.updateAllowed allowed add rm := by
  unfold FC.removeAll VF.updateAllowed
  have : ∀ l, FC.dedupAdj l = VF.dedupAdj l := by
    intro l
    induction l using FC.dedupAdj.induct <;> simp_all [FC.dedupAdj, VF.dedupAdj]
  rw [this]

theorem applyUpdate_eq (p : Params) (u : ParamsUpdate) :
    FC.applyUpdate (fcParams p) (fcUpdate u) = (updateParams p u).map fcParams := by
  unfold FC.applyUpdate updateParams VF.nativeOr
  cases hmin : u.minMintPrice with
  | none => simp [fcParams, fcUpdate, hmin, updateAllowed_eq, Except.map]
  | some c =>
    by_cases hd : c.denom = NATIVE
    · simp [fcParams, fcUpdate, hmin, hd, updateAllowed_eq, Except.map]
    · simp [fcParams, fcUpdate, hmin, hd, Except.map]

/-- **simulation of `sudo UpdateParams`** -/
theorem params_sim (n : Nat) (s : State) (u : ParamsUpdate) :
    fcOf n (step' s (.sudoParams u)) = FC.step' (fcOf n s) (.updateParams s.factoryAddr (fcUpdate u)) := by
  unfold step' FC.step'
  simp only [step, FC.step, sudoParams]
  rw [fc_factory]
  simp only [applyUpdate_eq]
  cases h : updateParams s.params u with
  | error e => simp [Except.map]
  | ok p =>
    simp only [Except.map]
    unfold fcOf
    cases s.minter <;> simp [fcFactoryEntry]

end BF

/-- the C08 simulation for the base composite, `CreateMinter`: one composite step IS the aspect model's `create` on the
projected world — same verdict, same registry entries, same minter / collection records, same bank and supply -/
theorem C08_fullbase_refines_create (n : Nat) (s : BF.State) (hm : s.minter = none) (hc : BF.StdCodes s.codes)
    (sender : Addr) (funds : List Coin) (msg : BF.CreateMsg) (w : BF.CreateWit)
    (hw1 : w.minterAddr = 1000 + n) (hw2 : w.collAddr = 1000 + n + 1) :
    BF.fcOf n (BF.step' s (.create sender funds msg w)) =
      FC.step' (BF.fcOf n s) (.create s.factoryAddr (BF.fcCreateMsg sender funds msg)) :=
  BF.create_sim n s hm hc sender funds msg w hw1 hw2

/-- … and governance: `sudo UpdateParams` is the aspect model's `updateParams` -/
theorem C08_fullbase_refines_params (n : Nat) (s : BF.State) (u : BF.ParamsUpdate) :
    BF.fcOf n (BF.step' s (.sudoParams u)) = FC.step' (BF.fcOf n s) (.updateParams s.factoryAddr (BF.fcUpdate u)) :=
  BF.params_sim n s u

/-- **"A factory creates a minter only if …"** for the composite: an accepted `CreateMinter` means the factory was not frozen,
the collection code allow-listed, the fee attached in the fee denom (at least the fee), and the minter's / collection's own
instantiate checks passed — in the composite's own vocabulary -/
theorem C08_fullbase_create_only_if (s s' : BF.State) (sender : Addr) (funds : List Coin) (msg : BF.CreateMsg) (w : BF.CreateWit)
    (h : BF.step s (.create sender funds msg w) = .ok s') :
    s.params.frozen = false ∧ msg.collCode ∈ s.params.allowed ∧
    (∃ a, funds = [⟨s.params.creationFee.denom, a⟩] ∧ a ≠ 0 ∧ s.params.creationFee.amount ≤ a) ∧
    s.codes.minters.contains s.params.codeId = true ∧ (∃ creator, msg.creator = some creator) ∧
    (BF.variantOf s.codes msg.collCode).isSome = true ∧ BF.collectionChecks msg = true := by
  simp only [BF.step] at h
  obtain ⟨b1, ms, b2, m, _, _, hfc, _, hcode, hinst, _⟩ := BF.createMinter_ok h
  obtain ⟨⟨paid, hpay⟩, hal, hfr, hms⟩ := BF.factoryChecks_ok hfc
  obtain ⟨creator, v, hcr, hv, hck, _⟩ := BF.instantiateMinter_ok hinst
  obtain ⟨hfunds, hp0⟩ := BF.mustPay_shape hpay
  refine ⟨hfr, by simpa using hal, ⟨paid, hfunds, hp0, ?_⟩, hcode, ⟨creator, hcr⟩, by rw [hv]; rfl, hck⟩
  -- the fee branch refuses a payment below the fee
  subst hfunds
  unfold BF.creationFeeMsgs at hms
  by_cases hd : s.params.creationFee.denom = NATIVE
  · rw [if_pos hd] at hms
    by_cases hlt : paid < s.params.creationFee.amount
    · simp [Sg1.checkedFairBurn, mayPay, hd, hlt, bind, Except.bind, throw, throwThe, MonadExceptOf.throw] at hms
    · omega
  · rw [if_neg hd] at hms
    by_cases hlt : paid < s.params.creationFee.amount
    · simp [Sg1.transferFundsToLaunchpadDao, mustPay, hp0, hlt, bind, Except.bind, throw, throwThe,
        MonadExceptOf.throw] at hms
    · omega

/-- inherited through the simulation: the aspect model's "iff" (`C08_create_ok_iff`) decides the composite's verdict -/
theorem C08_fullbase_create_ok_iff (n : Nat) (s : BF.State) (hm : s.minter = none) (hc : BF.StdCodes s.codes)
    (sender : Addr) (funds : List Coin) (msg : BF.CreateMsg) (w : BF.CreateWit) :
    (∃ s', BF.step s (.create sender funds msg w) = .ok s') ↔
      ∃ mk a, FC.MKind.ofCode s.params.codeId = some mk ∧ FC.compat .base mk = true ∧ s.params.frozen = false
        ∧ msg.collCode ∈ s.params.allowed ∧ Paid (BF.fcParams s.params) funds a
        ∧ MinterAccepts mk (BF.fcParams s.params) (BF.fcOf n s) (BF.fcCreateMsg sender funds msg)
        ∧ CollectionAccepts (BF.fcCreateMsg sender funds msg)
        ∧ Funded (BF.fcOf n s) (BF.fcParams s.params) (BF.fcCreateMsg sender funds msg) a := by
  have hiff := C08_create_ok_iff (BF.fcOf n s) s.factoryAddr ⟨s.factoryAddr, BF.fcParams s.params⟩
    (BF.fcCreateMsg sender funds msg) (BF.fc_factory n s)
  constructor
  · rintro ⟨s', h⟩
    simp only [BF.step] at h
    -- any witness addresses give the same verdict
    have h' : ∃ s'', BF.createMinter s sender funds msg ⟨1000 + n, 1000 + n + 1⟩ = .ok s'' := by
      obtain ⟨b1, ms, b2, m, hm', hb1, hfc, hb2, hcode, hinst, _⟩ := BF.createMinter_ok h
      obtain ⟨⟨paid, hpay⟩, hal, hfr, hms⟩ := BF.factoryChecks_ok hfc
      obtain ⟨creator, v, hcr, hv, hck, _⟩ := BF.instantiateMinter_ok hinst
      obtain ⟨m2, hcm, _⟩ := BF.createMinter_of (w := ⟨1000 + n, 1000 + n + 1⟩) hm' hb1 hpay hal hfr hms hb2 hcode hcr hv hck
      exact ⟨_, hcm⟩
    obtain ⟨s'', h''⟩ := h'
    have := BF.create_fc_ok n hc rfl rfl h''
    obtain ⟨mk, a, h1, h2, h3, h4, h5, _, h7, h8, h9⟩ := hiff.1 ⟨_, this⟩
    exact ⟨mk, a, h1, h2, h3, h4, h5, h7, h8, h9⟩
  · rintro ⟨mk, a, h1, h2, h3, h4, h5, h7, h8, h9⟩
    have hsale : SaleWithin (BF.fcParams s.params) (BF.fcOf n s).now (BF.fcCreateMsg sender funds msg) :=
      C08_sale_base _ _ _ rfl
    obtain ⟨W, hW⟩ := hiff.2 ⟨mk, a, h1, h2, h3, h4, h5, hsale, h7, h8, h9⟩
    obtain ⟨s', hs'⟩ := BF.create_fc_conv n hm hc w hW
    exact ⟨s', by simp only [BF.step]; exact hs'⟩

/-- **post-state wiring** of an accepted composite `CreateMinter`: the new minter is instantiated by this factory from the
governance-set code, its wasm admin is the SENDER; the collection is instantiated by that minter from the requested code, its
wasm admin and `collection_info.creator` are the creator named in the request, its cw_ownable owner is the minter; the price is the
factory minimum of that moment; nothing has been minted -/
theorem C08_fullbase_post_wiring (s s' : BF.State) (sender : Addr) (funds : List Coin) (msg : BF.CreateMsg) (w : BF.CreateWit)
    (h : BF.step s (.create sender funds msg w) = .ok s') :
    ∃ m creator, s'.minter = some m ∧ msg.creator = some creator ∧
      m.addr = w.minterAddr ∧ m.sg721 = w.collAddr ∧ m.factory = s.factoryAddr ∧ m.codeId = s.params.codeId ∧
      m.collectionCodeId = msg.collCode ∧ m.wasmAdmin = sender ∧ m.collAdmin = creator ∧ m.tt.creator = creator ∧
      m.tt.owner = some m.addr ∧ m.tt.pending = none ∧ m.tt.frozen = false ∧ m.mintPrice = s.params.minMintPrice ∧
      m.seq.tokenIndex = 0 ∧ m.seq.coll.toks = [] ∧ s'.params = s.params ∧ s'.now = s.now := by
  simp only [BF.step] at h
  obtain ⟨b1, ms, b2, m, _, _, _, _, _, hinst, rfl⟩ := BF.createMinter_ok h
  obtain ⟨creator, v, hcr, _, _, rfl⟩ := BF.instantiateMinter_ok hinst
  exact ⟨_, creator, rfl, hcr, rfl, rfl, rfl, rfl, rfl, rfl, rfl, rfl, rfl, rfl, rfl, rfl, rfl, rfl, rfl, rfl⟩

/-- "administered by the creator named in the request" — what holds (cf. `C08_post_admin_partial`): the minter's wasm admin is the
creator exactly when the creator sends the message himself -/
theorem C08_fullbase_post_admin_partial (s s' : BF.State) (sender : Addr) (funds : List Coin) (msg : BF.CreateMsg)
    (w : BF.CreateWit) (h : BF.step s (.create sender funds msg w) = .ok s') :
    ∃ m creator, s'.minter = some m ∧ msg.creator = some creator ∧ m.collAdmin = creator ∧ m.tt.creator = creator ∧
      m.wasmAdmin = sender ∧ (m.wasmAdmin = creator ↔ sender = creator) := by
  obtain ⟨m, creator, h1, h2, _, _, _, _, _, h8, h9, h10, _⟩ := C08_fullbase_post_wiring s s' sender funds msg w h
  exact ⟨m, creator, h1, h2, h9, h10, h8, by rw [h8]⟩

/-- **fee disposal**: the bank of the post-state is the payment moved to the factory followed by exactly the fee messages —
native fee: burn `B`, fund the pool with `fee − B` (`B` = the burned part of the FEE, not of the payment: an overpayment stays
with the factory); other denom: the whole payment to the launchpad DAO -/
theorem C08_fullbase_fee_disposed (s s' : BF.State) (sender : Addr) (funds : List Coin) (msg : BF.CreateMsg) (w : BF.CreateWit)
    (h : BF.step s (.create sender funds msg w) = .ok s') (B : Nat) (hB : B = burnPart s.params.creationFee.amount) :
    ∃ a b1 ms, funds = [⟨s.params.creationFee.denom, a⟩] ∧ s.params.creationFee.amount ≤ a ∧
      s.bank.sendFunds sender s.factoryAddr funds = some b1 ∧ MintPay.applyMsgs s.factoryAddr b1 ms = some s'.bank ∧
      (s.params.creationFee.denom = NATIVE →
        ms = [Msg.burn ⟨NATIVE, B⟩, Msg.fundPool s.factoryAddr ⟨NATIVE, s.params.creationFee.amount - B⟩]) ∧
      (s.params.creationFee.denom ≠ NATIVE → ms = [Msg.send LAUNCHPAD_DAO ⟨s.params.creationFee.denom, a⟩]) := by
  obtain ⟨_, _, ⟨a, hfunds, ha0, hle⟩, _⟩ := C08_fullbase_create_only_if s s' sender funds msg w h
  simp only [BF.step] at h
  obtain ⟨b1, ms, b2, m, _, hb1, hfc, hb2, _, _, rfl⟩ := BF.createMinter_ok h
  obtain ⟨_, _, _, hms⟩ := BF.factoryChecks_ok hfc
  refine ⟨a, b1, ms, hfunds, hle, hb1, hb2, ?_, ?_⟩
  · intro hd
    have := fc_feeMsgs_native s.factoryAddr (BF.fcParams s.params) a hd ha0 hle B hB
    have e : FC.feeMsgs s.factoryAddr (BF.fcParams s.params) funds = BF.creationFeeMsgs s funds := rfl
    rw [hfunds, hd] at e
    rw [hfunds, hd] at hms
    rw [this] at e
    rw [← e] at hms
    cases hms; rfl
  · intro hd
    have this : FC.feeMsgs s.factoryAddr (BF.fcParams s.params) [⟨s.params.creationFee.denom, a⟩] = _ :=
      fc_feeMsgs_other s.factoryAddr (BF.fcParams s.params) a hd ha0 hle
    have e : FC.feeMsgs s.factoryAddr (BF.fcParams s.params) funds = BF.creationFeeMsgs s funds := rfl
    rw [hfunds] at e hms
    rw [this] at e
    rw [← e] at hms
    cases hms; rfl

/-- a rejected `CreateMinter` changes nothing at all; no other message of the family creates a minter -/
theorem C08_fullbase_only_create_creates (s : BF.State) (hm : s.minter = none) (op : BF.Op)
    (hop : ∀ a f m w, op ≠ .create a f m w) : (BF.step' s op).minter = none := by
  rcases BF.step'_cases s op with ⟨s', hok, hs'⟩ | ⟨_, hs'⟩
  · rw [hs']
    rcases BF.needs_minter hm hok with ⟨t, rfl⟩ | ⟨a, c, rfl⟩ | ⟨u, rfl⟩ | ⟨a, u, rfl⟩ | ⟨a, f, msg, w, rfl⟩
    · simp only [BF.step] at hok; split at hok <;> cases hok; exact hm
    · simp only [BF.step] at hok; cases hok; exact hm
    · simp only [BF.step] at hok; obtain ⟨p, _, rfl⟩ := BF.sudoParams_ok hok; exact hm
    · simp only [BF.step] at hok
      obtain ⟨_, hc⟩ := BF.migrate_ok hok
      rcases hc with ⟨_, rfl⟩ | ⟨u', _, hs⟩
      · exact hm
      · obtain ⟨p, _, rfl⟩ := BF.sudoParams_ok hs; exact hm
    · exact absurd rfl (hop a f msg w)
  · rw [hs']; exact hm

/-- with a native creation fee below 2 the base factory cannot create anything (`fair_burn` would emit a zero-amount burn or
pool payment, which the bank refuses) — inherited from `C08_native_fee_below_two_blocks` through the simulation -/
theorem C08_fullbase_native_fee_below_two_blocks (n : Nat) (s : BF.State) (hm : s.minter = none) (hc : BF.StdCodes s.codes)
    (hn : s.params.creationFee.denom = NATIVE) (h2 : s.params.creationFee.amount < 2)
    (sender : Addr) (funds : List Coin) (msg : BF.CreateMsg) (w : BF.CreateWit) :
    BF.step' s (.create sender funds msg w) = s := by
  rcases BF.step'_cases s (.create sender funds msg w) with ⟨s', hok, _⟩ | ⟨_, hs'⟩
  · exfalso
    have hex := (C08_fullbase_create_ok_iff n s hm hc sender funds msg w).1 ⟨s', hok⟩
    obtain ⟨mk, a, h1, hcp, h3, h4, h5, h7, h8, h9⟩ := hex
    have hsale : SaleWithin (BF.fcParams s.params) (BF.fcOf n s).now (BF.fcCreateMsg sender funds msg) :=
      C08_sale_base _ _ _ rfl
    have hW := (C08_create_ok_iff (BF.fcOf n s) s.factoryAddr ⟨s.factoryAddr, BF.fcParams s.params⟩
      (BF.fcCreateMsg sender funds msg) (BF.fc_factory n s)).2 ⟨mk, a, h1, hcp, h3, h4, h5, hsale, h7, h8, h9⟩
    exact C08_native_fee_below_two_blocks (BF.fcOf n s) s.factoryAddr ⟨s.factoryAddr, BF.fcParams s.params⟩
      (BF.fcCreateMsg sender funds msg) (BF.fc_factory n s) hn h2 hW
  · exact hs'

def BF.isCreate : BF.Op → Bool
  | .create .. => true
  | _ => false

theorem BF.not_create_of {op : BF.Op} (h : BF.isCreate op = false) : ∀ a f m w, op ≠ .create a f m w := by
  intro a f m w e; subst e; simp [BF.isCreate] at h

theorem BF.create_of {op : BF.Op} (h : BF.isCreate op = true) : ∃ a f m w, op = .create a f m w := by
  cases op <;> simp [BF.isCreate] at h
  exact ⟨_, _, _, _, rfl⟩

/-- **provenance, over all composite histories** ("a factory creates a minter ONLY IF …"): a minter that exists after any history
from a minter-less state was made by a `CreateMinter` of that history which was ACCEPTED in the state reached by the operations
before it (so `C08_fullbase_create_only_if` / `_create_ok_iff` apply to THAT state: not frozen then, code allow-listed then, fee
attached); its address, captured price (the factory minimum of THAT moment) and wasm admin (the sender of THAT message) are still
the ones of that creation, whatever governance and everybody else did afterwards -/
theorem C08_fullbase_history_provenance (s0 : BF.State) (h0 : s0.minter = none) (ops : List BF.Op) (m : BF.Minter)
    (hm : (BF.run s0 ops).minter = some m) :
    ∃ pre post a f msg w s1, ops = pre ++ BF.Op.create a f msg w :: post ∧ (BF.run s0 pre).minter = none ∧
      BF.step (BF.run s0 pre) (.create a f msg w) = .ok s1 ∧ m.addr = w.minterAddr ∧ m.sg721 = w.collAddr ∧
      m.mintPrice = (BF.run s0 pre).params.minMintPrice ∧ m.wasmAdmin = a ∧ msg.creator = some m.collAdmin := by
  induction ops generalizing s0 with
  | nil => rw [show BF.run s0 [] = s0 from rfl, h0] at hm; cases hm
  | cons op ops ih =>
    rw [BF.run_cons] at hm
    cases hm1 : (BF.step' s0 op).minter with
    | none =>
      obtain ⟨pre, post, a, f, msg, w, s1, hops, hnone, hstep, h1, h2, h3, h4, h5⟩ := ih (BF.step' s0 op) hm1 hm
      exact ⟨op :: pre, post, a, f, msg, w, s1, by rw [hops]; rfl, by rw [BF.run_cons]; exact hnone,
        by rw [BF.run_cons]; exact hstep, h1, h2, by rw [BF.run_cons]; exact h3, h4, h5⟩
    | some m1 =>
      have hcr : ∃ a f msg w, op = .create a f msg w := by
        cases hic : BF.isCreate op with
        | true => exact BF.create_of hic
        | false =>
          exfalso
          have := C08_fullbase_only_create_creates s0 h0 op (BF.not_create_of hic)
          rw [hm1] at this; cases this
      obtain ⟨a, f, msg, w, rfl⟩ := hcr
      rcases BF.step'_cases s0 (.create a f msg w) with ⟨s1, hok, hs1⟩ | ⟨_, hs1⟩
      · obtain ⟨mc, creator, hmc, hcrt, e1, e2, _, _, _, e8, e9, _, _, _, _, e14, _⟩ :=
          C08_fullbase_post_wiring s0 s1 a f msg w hok
        rw [hs1] at hm1 hm
        rw [hmc] at hm1; cases hm1
        obtain ⟨m', hm', hid⟩ := BF.minter_frame_run s1 m1 hmc ops
        rw [hm] at hm'; cases hm'
        obtain ⟨_, i2, _, _, i5, i6, _, _, _, i10, i11⟩ := hid
        exact ⟨[], ops, a, f, msg, w, s1, rfl, h0, hok, by rw [i2, e1], by rw [i6, e2], by rw [i5, e14]; rfl,
          by rw [i10, e8], by rw [hcrt, i11, e9]⟩
      · rw [hs1, h0] at hm1; cases hm1

/-! ## Non-vacuity: the hypotheses of `C08_fullbase_refines_create` hold in a concrete composite state, and the projected
aspect world accepts the same `CreateMinter` (kernel-evaluated) -/

example : BF.StdCodes BF.exInit.codes := ⟨rfl, rfl⟩
example : (BF.run BF.exInit (BF.exOps.take 2)).minter = none := by decide
/-- the address counter stands at 1 (the factory is `contract0`): the witnessed addresses 1001 / 1002 are the allocated ones -/
example : (FC.create (BF.fcOf 1 (BF.run BF.exInit (BF.exOps.take 2))) 1000 (BF.fcCreateMsg 11 [⟨0, 250000777⟩] BF.exMsg)).isOk = true := by
  decide
example : ((BF.fcOf 1 (BF.run BF.exInit (BF.exOps.take 3))).contracts.map fun c => (c.addr, c.code, c.admin)) =
    [(1000, 15, some 90), (1001, 11, some 11), (1002, 18, some 10)] := by decide

end LP
