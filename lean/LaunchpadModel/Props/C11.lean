import LaunchpadModel.Lemmas.WlEffects
/-!
# C11 — Whitelist membership accounting, capacity and fees are exact

Model: `LP.WlMembers` (Model/WlMembers.lean) — one parametrised model of the five list-based whitelists
(`Kind`: plain, flex, tiered, tieredFlex, immutable). A *history* is a successful `instantiate k m` followed by an
arbitrary list of `Op`s (`AddMembers`, `RemoveMembers`, `AddStage`, `RemoveStage`, `IncreaseMemberLimit`, and `other` =
any message that touches neither members nor limit nor fees), each with arbitrary arguments and arbitrary attached
funds; a failed message leaves the state unchanged (`step`).

Everything other properties own — who may call (C05), the schedule and its gates (C12/C13), which stage is active —
enters every message as the Boolean `allowed` and the two stage-reading queries as the argument `active`. All theorems
below quantify over **every** kind, instantiate message, op list, value of `allowed` / `active`, and over both values of
the variant flags `hasFirst` / `distinctCap` (see the model header): none is a bounded check, and none depends on how
authorisation or the schedule behave.

Helper lemmas live in Lemmas/WlMaps.lean, WlLoops.lean, WlInv.lean (`WlInv`, `inst_inv`, `exec_inv`), WlEffects.lean.
-/
namespace LP
open LP.WlMembers

/-! ## Reachable states -/

theorem C11_step_inv {s : WL} (op : Op) (hi : WlInv s) : WlInv (step s op) := by
  unfold step
  split
  · rename_i s' h; exact exec_inv hi h
  · exact hi

theorem C11_run_inv {s : WL} (ops : List Op) (hi : WlInv s) : WlInv (run s ops) := by
  induction ops generalizing s with
  | nil => exact hi
  | cons op ops ih => exact ih (C11_step_inv op hi)

/-- The accounting invariant holds after a successful instantiate and after every history. -/
theorem C11_invariant {k : Kind} {m : InstMsg} {s0 : WL} (h : instantiate k m = .ok s0) (ops : List Op) :
    WlInv (run s0 ops) :=
  C11_run_inv ops (inst_inv h)

theorem C11_step_frame (s : WL) (op : Op) :
    (step s op).kind = s.kind ∧ s.memberLimit ≤ (step s op).memberLimit ∧
    (step s op).stray ≤ s.stray + op.tip.native ∧ (step s op).strayOther ≤ s.strayOther + op.tip.other := by
  unfold step
  split
  · rename_i s' h
    have f := exec_frame h
    exact ⟨f.1, f.2.1, by rw [f.2.2.1]; exact Nat.le_refl _, by rw [f.2.2.2]; exact Nat.le_refl _⟩
  · exact ⟨rfl, Nat.le_refl _, Nat.le_add_right _ _, Nat.le_add_right _ _⟩

theorem C11_run_kind (s : WL) (ops : List Op) : (run s ops).kind = s.kind := by
  induction ops generalizing s with
  | nil => rfl
  | cons op ops ih =>
    have : run s (op :: ops) = run (step s op) ops := rfl
    rw [this, ih, (C11_step_frame s op).1]

/-! ## Count = number of distinct stored members -/

/-- "the reported member count always equals the number of distinct members actually stored (per stage and in
total)": `num_members` = total number of stored `(stage, address)` entries; within every map the addresses are
pairwise distinct (so entries = distinct members); `MEMBER_COUNT[k]` = number of entries stored under stage `k`. -/
theorem C11_count {k : Kind} {m : InstMsg} {s0 : WL} (h : instantiate k m = .ok s0) (ops : List Op) :
    let s := run s0 ops
    s.numMembers = s.members.length + (s.stages.map (fun g => g.members.length)).sum ∧
    (keys s.members).Nodup ∧
    ∀ g ∈ s.stages, g.count = g.members.length ∧ (keys g.members).Nodup := by
  intro s
  have hi := C11_invariant h ops
  exact ⟨hi.count_total, hi.flat_sorted.nodup, fun g hg => ⟨(hi.stages_ok g hg).2, (hi.stages_ok g hg).1.nodup⟩⟩

/-- the two places a per-stage count is reported — `Stage{k}.member_count` and `Stages{}.stages[k].member_count` (separate
expressions in the Rust) — both answer the number of entries stored under stage `k`, in every reachable state -/
theorem C11_stage_count_queries {k : Kind} {m : InstMsg} {s0 : WL} (h : instantiate k m = .ok s0) (ops : List Op)
    (i : Nat) (g : Stage) (hg : (run s0 ops).stages[i]? = some g) :
    queryStageCount (run s0 ops) i = some g.members.length ∧
    (queryStagesCounts (run s0 ops))[i]? = some g.members.length ∧
    (queryStagesCounts (run s0 ops)).length = (run s0 ops).stages.length := by
  have hi := C11_invariant h ops
  have hc := (hi.stages_ok g (List.mem_of_getElem? hg)).2
  refine ⟨by simp [queryStageCount, hg, hc], by simp [queryStagesCounts, hg, hc], by simp [queryStagesCounts]⟩

/-! ## Capacity -/

/-- "never exceeds the member limit, and the limit never exceeds the contract maximum" (the immutable whitelist
has no limit). -/
theorem C11_capacity {k : Kind} {m : InstMsg} {s0 : WL} (hk : k ≠ .immutable) (h : instantiate k m = .ok s0) (ops : List Op) :
    (run s0 ops).numMembers ≤ (run s0 ops).memberLimit ∧ (run s0 ops).memberLimit ≤ k.maxMembers := by
  have hi := C11_invariant h ops
  have hkind : (run s0 ops).kind = k := by rw [C11_run_kind]; exact (inst_effect hk h).1
  have := hi.capacity (by rw [hkind]; exact hk)
  rw [hkind] at this; exact this

/-- "… or decreases": the limit is non-decreasing along every history (any state, any continuation). -/
theorem C11_limit_monotone (s : WL) (ops : List Op) : s.memberLimit ≤ (run s ops).memberLimit := by
  induction ops generalizing s with
  | nil => exact Nat.le_refl _
  | cons op ops ih =>
    have : run s (op :: ops) = run (step s op) ops := rfl
    rw [this]
    exact Nat.le_trans (C11_step_frame s op).2.1 (ih (step s op))

theorem C11_limit_monotone_between (s : WL) (ops ops' : List Op) :
    (run s ops).memberLimit ≤ (run s (ops ++ ops')).memberLimit := by
  have : run s (ops ++ ops') = run (run s ops) ops' := by simp [run, List.foldl_append]
  rw [this]; exact C11_limit_monotone _ _

/-- Frame: only `IncreaseMemberLimit` touches the limit, the fee ledger or what has been burned / forwarded. -/
theorem C11_frame_limit_fees (s : WL) (op : Op) (hop : ∀ al f l, op ≠ .increaseLimit al f l) :
    (step s op).memberLimit = s.memberLimit ∧ (step s op).feesPaid = s.feesPaid ∧
    (step s op).bank.burned = s.bank.burned ∧ (step s op).bank.pool = s.bank.pool := by
  unfold step
  split
  · rename_i s' h; exact exec_frame_fees h hop
  · exact ⟨rfl, rfl, rfl, rfl⟩

/-- Frame: `IncreaseMemberLimit` and every "other" message store nothing, remove nothing and leave every counter alone. -/
theorem C11_frame_storage (s : WL) (op : Op)
    (hop : (∃ al f l, op = .increaseLimit al f l) ∨ (∃ al t, op = .other al t)) :
    (step s op).members = s.members ∧ (step s op).stages = s.stages ∧ (step s op).numMembers = s.numMembers := by
  unfold step
  split
  · rename_i s' h
    rcases hop with ⟨al, f, l, rfl⟩ | ⟨al, t, rfl⟩
    · have e := incr_effect h; exact ⟨e.2.2.2.2.2.1, e.2.2.2.2.2.2.1, e.2.2.2.2.2.2.2⟩
    · exact other_effect h
  · exact ⟨rfl, rfl, rfl⟩

/-! ## Membership queries -/

/-- "Membership queries answer true exactly for stored members" — flat kinds (`HasMember`) and the immutable
whitelist (`IncludesAddress`): the answer is `true` iff the address is a key of the stored map.
RESTATES THE MODEL'S DEFINITION (holds for an arbitrary `s`: unfolding of `queryHasMember` + `hasM_iff`); that the Rust
query reads that map is validated by the harness only (monitor `has-member-ne-stored`). The same applies to
`C11_has_member_iff_tiered` (relative to the free parameter `active`), `C11_stage_member_iff`
(`stage-member-ne-stored`) and `C11_all_stage_member_iff` (`all-stage-member-ne-stored`). -/
theorem C11_has_member_iff_flat (s : WL) (active : Option Nat) (a : Nat) (ht : s.kind.isTiered = false) (b : Bool)
    (h : queryHasMember s active a = some b) : (b = true ↔ a ∈ keys s.members) := by
  unfold queryHasMember at h
  split at h
  · cases h; exact hasM_iff a s.members
  · split at h
    · exact absurd h (by simp)
    · rw [ht] at h; simp only [Bool.false_eq_true, if_false] at h
      cases h; exact hasM_iff a s.members

/-- tiered kinds: `HasMember` is `true` iff there is an active stage and the address is stored under it
(`active` = whatever `fetch_active_stage_index` returns — C13's business). -/
theorem C11_has_member_iff_tiered (s : WL) (active : Option Nat) (a : Nat) (ht : s.kind.isTiered = true) (b : Bool)
    (h : queryHasMember s active a = some b) :
    (b = true ↔ ∃ i, active = some i ∧ a ∈ keys (mapOf s i)) := by
  unfold queryHasMember at h
  split at h
  · rename_i hk
    have : s.kind = .immutable := by simpa using hk
    rw [this] at ht; exact absurd ht (by decide)
  · split at h
    · exact absurd h (by simp)
    · try (rw [ht] at h; simp only [if_true] at h)
      split at h
      · rename_i i
        cases h
        rw [hasM_iff]
        constructor
        · intro hm; exact ⟨i, rfl, hm⟩
        · rintro ⟨j, hj, hm⟩
          cases hj; exact hm
      · cases h
        constructor
        · intro hf; exact absurd hf (by simp)
        · rintro ⟨j, hj, _⟩; exact absurd hj (by simp)

/-- a valid address always gets an answer -/
theorem C11_has_member_total (s : WL) (active : Option Nat) (a : Nat) (hv : validAddr a = true) :
    ∃ b, queryHasMember s active a = some b := by
  unfold queryHasMember
  split
  · exact ⟨_, rfl⟩
  · simp only [hv, Bool.not_true, Bool.false_eq_true, if_false]
    split
    · split <;> exact ⟨_, rfl⟩
    · exact ⟨_, rfl⟩

/-- tiered kinds: `StageMemberInfo{stage, member}.is_member` is `true` iff the address is stored under that stage. -/
theorem C11_stage_member_iff (s : WL) (stage a : Nat) (b : Bool) (h : queryStageMember s stage a = some b) :
    (b = true ↔ a ∈ keys (mapOf s stage)) := by
  unfold queryStageMember at h
  split at h
  · exact absurd h (by simp)
  · split at h
    · exact absurd h (by simp)
    · cases h; exact hasM_iff a _

/-- tiered kinds: `AllStageMemberInfo{member}` answers one flag per existing stage, in stage order, and flag `i` is `true`
iff the address is stored under stage `i`. -/
theorem C11_all_stage_member_iff (s : WL) (a : Nat) (bs : List Bool) (h : queryAllStageMember s a = some bs) :
    bs.length = s.stages.length ∧ ∀ i b, bs[i]? = some b → (b = true ↔ a ∈ keys (mapOf s i)) := by
  unfold queryAllStageMember at h
  split at h
  · exact absurd h (by simp)
  · cases h
    refine ⟨by simp, ?_⟩
    intro i b hb
    rw [List.getElem?_map] at hb
    cases hr : (List.range s.stages.length)[i]? with
    | none => rw [hr] at hb; exact absurd hb (by simp)
    | some j =>
      rw [hr] at hb
      simp only [Option.map_some, Option.some.injEq] at hb
      have hj : j = i := by
        have := List.getElem?_eq_some_iff.mp hr
        obtain ⟨hlt, he⟩ := this
        simpa using he.symm
      subst hj; subst hb
      exact hasM_iff a _

/-- a valid address always gets an `AllStageMemberInfo` answer from a tiered whitelist -/
theorem C11_all_stage_member_total (s : WL) (a : Nat) (ht : s.kind.isTiered = true) (hv : validAddr a = true) :
    ∃ bs, queryAllStageMember s a = some bs := by
  unfold queryAllStageMember
  simp [ht, hv]

/-- whitelist-flex: `Member{member}` answers the mint count `c` iff `(member, c)` is stored — both directions, with
the stored value, in every reachable state. -/
theorem C11_member_query_flat_iff {m : InstMsg} {s0 : WL} (h : instantiate .flex m = .ok s0) (ops : List Op)
    (active : Option Nat) (a c : Nat) (hv : validAddr a = true) :
    queryMember (run s0 ops) active a = some c ↔ (a, c) ∈ (run s0 ops).members := by
  have hi := C11_invariant h ops
  have hk : (run s0 ops).kind = .flex := by rw [C11_run_kind]; exact (inst_effect (by decide) h).1
  unfold queryMember
  simp only [hk, hv, Kind.isFlex, Kind.isTiered, Bool.not_true, Bool.or_self, Bool.false_eq_true, if_false]
  exact getM_eq_some_iff hi.flat_sorted a c

/-- tiered-whitelist-flex: `Member{member}` answers `c` iff a stage is active and `(member, c)` is stored under it. -/
theorem C11_member_query_tiered_iff {m : InstMsg} {s0 : WL} (h : instantiate .tieredFlex m = .ok s0) (ops : List Op)
    (active : Option Nat) (a c : Nat) (hv : validAddr a = true) :
    queryMember (run s0 ops) active a = some c ↔ ∃ i, active = some i ∧ (a, c) ∈ mapOf (run s0 ops) i := by
  have hi := C11_invariant h ops
  have hk : (run s0 ops).kind = .tieredFlex := by rw [C11_run_kind]; exact (inst_effect (by decide) h).1
  unfold queryMember
  simp only [hk, hv, Kind.isFlex, Kind.isTiered, Bool.not_true, Bool.or_self, Bool.false_eq_true, if_false, if_true]
  cases active with
  | none => simp
  | some i =>
    simp only [Option.some.injEq, exists_eq_left']
    exact getM_eq_some_iff (sorted_mapOf hi i) a c

/-- the `Member` query of the kinds that have none, and of an invalid address, is an error -/
theorem C11_member_query_error (s : WL) (active : Option Nat) (a : Nat) (h : s.kind.isFlex = false ∨ validAddr a = false) :
    queryMember s active a = none := by
  unfold queryMember
  rcases h with h | h <;> simp [h]

/-- one page of the `Members` query never shows anything that is not stored, never more than the crate's MAXIMUM page
size, and never more than the crate's DEFAULT page size when no limit is given. (For an explicit `limit = some n` see
`C11_members_page_le_limit` right below.) -/
theorem C11_members_page_sound (s : WL) (stage : Nat) (after : Option Nat) (limit : Option Nat) (l : List Member)
    (h : queryMembers s stage after limit = some l) :
    (∀ x ∈ l, x ∈ mapOf s stage) ∧ l.length ≤ s.kind.pageMax ∧ (limit = none → l.length ≤ s.kind.pageDefault) := by
  unfold queryMembers at h
  dsimp only at h
  split at h
  · cases h
    refine ⟨fun x hx => List.mem_of_mem_take hx, ?_, ?_⟩
    · rw [List.length_take]; omega
    · intro hl; subst hl; rw [List.length_take]; simp only [Option.getD_none]; omega
  · split at h
    · cases h
      refine ⟨fun x hx => (List.mem_filter.mp (List.mem_of_mem_take hx)).1, ?_, ?_⟩
      · rw [List.length_take]; omega
      · intro hl; subst hl; rw [List.length_take]; simp only [Option.getD_none]; omega
    · exact absurd h (by simp)

/-- one page of the `Members` query with an explicit `limit = some n` never shows more than `n` entries (the remaining
case of "at most the page limit"; added by the round-4 statement audit) -/
theorem C11_members_page_le_limit (s : WL) (stage : Nat) (after : Option Nat) (n : Nat) (l : List Member)
    (h : queryMembers s stage after (some n) = some l) : l.length ≤ n := by
  unfold queryMembers at h
  dsimp only at h
  split at h
  · cases h
    rw [List.length_take]; simp only [Option.getD_some]; omega
  · split at h
    · cases h
      rw [List.length_take]; simp only [Option.getD_some]; omega
    · exact absurd h (by simp)

/-- Paging the `Members` query to exhaustion (any page size ≥ 1) enumerates exactly the stored map, in key order —
in every reachable state of the four paging whitelists, whatever its size. (This is what the harness does to observe
the stored set.) -/
theorem C11_members_paging_complete {k : Kind} {m : InstMsg} {s0 : WL} (hk : k ≠ .immutable) (h : instantiate k m = .ok s0)
    (ops : List Op) (stage pg : Nat) (hpg : 1 ≤ pg) :
    walkPages (run s0 ops) stage pg ((mapOf (run s0 ops) stage).length + 1) none [] = mapOf (run s0 ops) stage := by
  have hi := C11_invariant h ops
  have hkind : (run s0 ops).kind ≠ .immutable := by rw [C11_run_kind, (inst_effect hk h).1]; exact hk
  exact walkPages_complete _ stage pg hpg (sorted_mapOf hi stage) (valid_mapOf hi hkind stage) _ [] _ rfl (Nat.lt_succ_self _)

/-! ## Adding and removing -/

/-- "adding an existing member is skipped or rejected but never double-counted": after a successful `AddMembers`
exactly the old and the listed addresses are stored in the targeted map, the counter grew by exactly the number of
*new* map entries, an already stored member keeps its stored value, and on `whitelist-flex` success implies that no
listed address was stored before or listed twice (otherwise the call is rejected, `C11_add_flex_rejects`). Holds for
both orders of the capacity / already-stored tests (`hf`). -/
theorem C11_add_exact {k : Kind} {m : InstMsg} {s0 : WL} (h0 : instantiate k m = .ok s0) (ops : List Op)
    (al hf : Bool) (tip : Tip) (stage : Nat) (ms : List Member) (s' : WL)
    (h : exec (run s0 ops) (.addMembers al hf tip stage ms) = .ok s') :
    let s := run s0 ops
    (∀ a, a ∈ keys (mapOf s' stage) ↔ a ∈ keys (mapOf s stage) ∨ a ∈ keys ms) ∧
    s'.numMembers + (mapOf s stage).length = s.numMembers + (mapOf s' stage).length ∧
    (∀ a ∈ keys (mapOf s stage), getM a (mapOf s' stage) = getM a (mapOf s stage)) ∧
    (s.kind = .flex → (∀ a ∈ keys ms, a ∉ keys (mapOf s stage)) ∧ (keys ms).Nodup) := by
  intro s
  have e := add_effect (C11_invariant h0 ops) h
  exact ⟨e.2.1, e.2.2.1, e.2.2.2.1, e.2.2.2.2⟩

/-- Idempotence: re-adding only members that are already stored changes neither the count nor the stored set. -/
theorem C11_add_idempotent {k : Kind} {m : InstMsg} {s0 : WL} (h0 : instantiate k m = .ok s0) (ops : List Op)
    (al hf : Bool) (tip : Tip) (stage : Nat) (ms : List Member) (s' : WL)
    (h : exec (run s0 ops) (.addMembers al hf tip stage ms) = .ok s')
    (hall : ∀ a ∈ keys ms, a ∈ keys (mapOf (run s0 ops) stage)) :
    s'.numMembers = (run s0 ops).numMembers ∧
    (∀ a, a ∈ keys (mapOf s' stage) ↔ a ∈ keys (mapOf (run s0 ops) stage)) := by
  have hi := C11_invariant h0 ops
  have e := add_effect hi h
  have hmem : ∀ a, a ∈ keys (mapOf s' stage) ↔ a ∈ keys (mapOf (run s0 ops) stage) := by
    intro a; rw [e.2.1 a]
    constructor
    · rintro (h1 | h1)
      · exact h1
      · exact hall a h1
    · exact Or.inl
  have hi' : WlInv s' := exec_inv hi h
  have p := (List.perm_ext_iff_of_nodup (sorted_mapOf hi' stage).nodup (sorted_mapOf hi stage).nodup).mpr hmem
  have hl := p.length_eq
  rw [keys_length, keys_length] at hl
  have := e.2.2.1
  exact ⟨by omega, hmem⟩

/-- `whitelist-flex` rejects a list that names an already stored member. -/
theorem C11_add_flex_rejects {m : InstMsg} {s0 : WL} (h0 : instantiate .flex m = .ok s0) (ops : List Op)
    (al hf : Bool) (tip : Tip) (stage : Nat) (ms : List Member)
    (hex : ∃ a ∈ keys ms, a ∈ keys (mapOf (run s0 ops) stage)) :
    ∀ s', exec (run s0 ops) (.addMembers al hf tip stage ms) ≠ .ok s' := by
  intro s' h
  have hk : (run s0 ops).kind = .flex := by
    rw [C11_run_kind]; exact (inst_effect (by decide) h0).1
  have e := add_effect (C11_invariant h0 ops) h
  obtain ⟨a, ha, hs⟩ := hex
  exact (e.2.2.2.2 hk).1 a ha hs

/-- tiered kinds: `AddMembers` / `RemoveMembers` on one stage leave the maps of all other stages untouched. -/
theorem C11_other_stages_untouched (s s' : WL) (ht : s.kind.isTiered = true) (al hf : Bool) (tip : Tip) (stage : Nat)
    (ms : List Member) (as : List Nat)
    (h : exec s (.addMembers al hf tip stage ms) = .ok s' ∨ exec s (.removeMembers al tip stage as) = .ok s') :
    s'.stages.length = s.stages.length ∧ ∀ j, j ≠ stage → mapOf s' j = mapOf s j := by
  rcases h with h | h
  · exact add_other_stages h ht
  · exact remove_other_stages h ht

/-- "removing requires existing members": a successful `RemoveMembers` only names stored members, each once; they
are gone afterwards, everything else stays, and the count drops by exactly their number. -/
theorem C11_remove_requires_member {k : Kind} {m : InstMsg} {s0 : WL} (h0 : instantiate k m = .ok s0) (ops : List Op)
    (al : Bool) (tip : Tip) (stage : Nat) (as : List Nat) (s' : WL)
    (h : exec (run s0 ops) (.removeMembers al tip stage as) = .ok s') :
    let s := run s0 ops
    (∀ a ∈ as, a ∈ keys (mapOf s stage)) ∧ as.Nodup ∧
    (∀ x, x ∈ keys (mapOf s' stage) ↔ x ∈ keys (mapOf s stage) ∧ x ∉ as) ∧
    s'.numMembers + as.length = s.numMembers := by
  intro s
  have e := remove_effect (C11_invariant h0 ops) h
  exact ⟨e.2.1, e.2.2.1, e.2.2.2.1, e.2.2.2.2⟩

/-- removing an address that is not stored (or the same address twice) fails -/
theorem C11_remove_nonmember_rejected {k : Kind} {m : InstMsg} {s0 : WL} (h0 : instantiate k m = .ok s0) (ops : List Op)
    (al : Bool) (tip : Tip) (stage : Nat) (as : List Nat)
    (hbad : (∃ a ∈ as, a ∉ keys (mapOf (run s0 ops) stage)) ∨ ¬ as.Nodup) :
    ∀ s', exec (run s0 ops) (.removeMembers al tip stage as) ≠ .ok s' := by
  intro s' h
  have e := remove_effect (C11_invariant h0 ops) h
  rcases hbad with ⟨a, ha, hn⟩ | hn
  · exact hn (e.2.1 a ha)
  · exact hn e.2.2.1

/-- `AddStage`: exactly one stage is appended; it stores exactly the listed addresses (each once), reports their number
as its `member_count`, and `num_members` grows by that number; the flat map and the earlier stages are untouched. -/
theorem C11_add_stage_exact {k : Kind} {m : InstMsg} {s0 : WL} (h0 : instantiate k m = .ok s0) (ops : List Op)
    (al hf : Bool) (tip : Tip) (ms : List Member) (s' : WL)
    (h : exec (run s0 ops) (.addStage al hf tip ms) = .ok s') :
    let s := run s0 ops
    s'.members = s.members ∧
    ∃ g, s'.stages = s.stages ++ [g] ∧ (∀ a, a ∈ keys g.members ↔ a ∈ keys ms) ∧ (keys g.members).Nodup ∧
      g.count = g.members.length ∧ s'.numMembers = s.numMembers + g.members.length := by
  intro s
  exact (addStage_effect (C11_invariant h0 ops) h).2.2

/-- `RemoveStage{k}`: stage `k` and all later stages disappear together with everything stored under them, and
`num_members` drops by exactly the number of entries that were stored there — whatever their number. -/
theorem C11_remove_stage_exact (s s' : WL) (al : Bool) (tip : Tip) (stage : Nat)
    (h : exec s (.removeStage al tip stage) = .ok s') :
    stage < s.stages.length ∧ s'.members = s.members ∧ s'.stages = s.stages.take stage ∧
    s'.numMembers + ((s.stages.drop stage).map (fun g => g.members.length)).sum = s.numMembers :=
  (removeStage_effect h).2

/-! ## Fees -/

/-- every fee-charging crate prices a started thousand at 100 STARS (the literal of the property text) -/
theorem C11_price (k : Kind) (hk : k ≠ .immutable) : k.price = 100000000 := by
  cases k <;> first | rfl | exact absurd rfl hk

/-- "The fees ever paid to a plain, flex or tiered whitelist equal 100 STARS per started thousand of its current
member limit" — the telescoping identity, for every history. -/
theorem C11_fee_identity {k : Kind} {m : InstMsg} {s0 : WL} (hk : k ≠ .immutable) (h : instantiate k m = .ok s0) (ops : List Op) :
    (run s0 ops).feesPaid = ((run s0 ops).memberLimit + 999) / 1000 * 100000000 := by
  have hi := C11_invariant h ops
  have hkind : (run s0 ops).kind = k := by rw [C11_run_kind]; exact (inst_effect hk h).1
  rw [hi.fees, hkind, C11_price k hk]; rfl

/-- the immutable whitelist is free and `nonpayable` -/
theorem C11_fee_immutable {m : InstMsg} {s0 : WL} (h : instantiate .immutable m = .ok s0) (ops : List Op) :
    m.funds = [] ∧ (run s0 ops).feesPaid = 0 := by
  have hi := C11_invariant h ops
  have hkind : (run s0 ops).kind = .immutable := by rw [C11_run_kind]; exact (inst_immutable h).1
  refine ⟨(inst_immutable h).2.1, ?_⟩
  rw [hi.fees, hkind]; simp [Kind.price]

theorem mustPay_exact {funds : List Coin} {d v : Nat} (h : mustPay funds d = .ok v) : funds = [⟨d, v⟩] := by
  unfold mustPay at h
  split at h
  · rename_i c
    split at h
    · exact absurd h (by simp)
    · split at h
      · rename_i hd
        simp only [Except.ok.injEq] at h
        cases c with
        | mk dd aa => simp only [] at hd h; subst hd; subst h; rfl
      · exact absurd h (by simp)
  · exact absurd h (by simp)

theorem mayPay_exact {funds : List Coin} {d v : Nat} (h : mayPay funds d = .ok v) : (funds = [] ∧ v = 0) ∨ funds = [⟨d, v⟩] := by
  unfold mayPay at h
  split at h
  · simp only [Except.ok.injEq] at h; exact Or.inl ⟨rfl, h.symm⟩
  · rename_i c
    split at h
    · rename_i hd
      simp only [Except.ok.injEq] at h
      cases c with
      | mk dd aa => simp only [] at hd h; subst hd; subst h; exact Or.inr rfl
    · exact absurd h (by simp)
  · exact absurd h (by simp)

/-- "each fee must be paid exactly" — creation: exactly one native coin of 100 STARS × started thousands. -/
theorem C11_fee_exact_instantiate {k : Kind} {m : InstMsg} {s0 : WL} (hk : k ≠ .immutable) (h : instantiate k m = .ok s0) :
    m.funds = [⟨NATIVE, (m.memberLimit + 999) / 1000 * 100000000⟩] := by
  have e := inst_effect hk h
  have hp := e.2.2.2.1
  unfold creationFee at hp; rw [C11_price k hk] at hp
  exact mustPay_exact hp

/-- "each fee must be paid exactly" — increase: the attached funds are exactly the difference of the tier prices as one
native coin (nothing at all when no thousand boundary is crossed), and the new limit is strictly larger and at most the
maximum. -/
theorem C11_fee_exact_increase (s s' : WL) (al : Bool) (funds : List Coin) (limit : Nat) (hk : s.kind ≠ .immutable)
    (h : exec s (.increaseLimit al funds limit) = .ok s') :
    let fee := ((limit + 999) / 1000 - (s.memberLimit + 999) / 1000) * 100000000
    s.memberLimit < limit ∧ limit ≤ s.kind.maxMembers ∧ s'.memberLimit = limit ∧
    ((funds = [] ∧ fee = 0) ∨ funds = [⟨NATIVE, fee⟩]) ∧
    s'.feesPaid = s.feesPaid + fee := by
  intro fee
  have e := incr_effect h
  have hu : upgradeFee s.kind s.memberLimit limit = fee := by
    unfold upgradeFee; rw [C11_price s.kind hk]
    unfold tiers
    split
    · rfl
    · rename_i hn
      have : (limit + 999) / 1000 - (s.memberLimit + 999) / 1000 = 0 := by omega
      simp only [fee]; rw [this]
  rw [hu] at e
  refine ⟨e.1, e.2.1, e.2.2.1, ?_, e.2.2.2.2.1⟩
  rcases mayPay_exact e.2.2.2.1 with ⟨h1, h2⟩ | h1
  · exact Or.inl ⟨h1, h2⟩
  · exact Or.inr h1

/-- "all of it is burned/forwarded …": after every history every fee ever paid has been burned or sent to the fair-burn
pool, and the contract's balances (native and every other denom) consist exactly of the funds callers attached to
messages that charge no fee (`stray`, `strayOther`; the contracts never call `nonpayable`). -/
theorem C11_balance {k : Kind} {m : InstMsg} {s0 : WL} (h : instantiate k m = .ok s0) (ops : List Op) :
    (run s0 ops).bank.bal = (run s0 ops).stray ∧ (run s0 ops).otherBal = (run s0 ops).strayOther ∧
    (run s0 ops).bank.burned + (run s0 ops).bank.pool = (run s0 ops).feesPaid := by
  have hi := C11_invariant h ops
  exact ⟨hi.bal, hi.other, hi.burnt⟩

theorem C11_run_stray_zero (s : WL) (ops : List Op) (hs : s.stray = 0 ∧ s.strayOther = 0) (ht : ∀ op ∈ ops, op.tip = Tip.zero) :
    (run s ops).stray = 0 ∧ (run s ops).strayOther = 0 := by
  induction ops generalizing s with
  | nil => exact hs
  | cons op ops ih =>
    have : run s (op :: ops) = run (step s op) ops := rfl
    rw [this]
    apply ih
    · have f := C11_step_frame s op
      have ht0 := ht op List.mem_cons_self
      rw [ht0] at f
      simp only [Tip.zero] at f
      exact ⟨by have := f.2.2.1; omega, by have := f.2.2.2; omega⟩
    · intro o ho; exact ht o (List.mem_cons_of_mem _ ho)

/-
"… so a whitelist never holds funds" — FULL STATEMENT (what the English says):

    theorem C11_holds_nothing {k m s0} (h : instantiate k m = .ok s0) (ops : List Op) :
        (run s0 ops).bank.bal = 0 ∧ (run s0 ops).otherBal = 0

It is FALSE for the code as it is: none of `AddMembers`, `RemoveMembers`, `AddStage`, `RemoveStage`, `Update*`, `Freeze`
calls `nonpayable`, so coins attached to them stay in the contract for good (`C11_holds_funds_counterexample` below; replay
corpus/C11/holds-funds-nonfee.json, monitor `…/holds-funds-nonfee`). What IS proved: `C11_balance` (the balance is exactly
those stray funds — no part of any fee ever stays) and the statement under the extra hypothesis that nobody attaches funds
to a fee-less message:
-/
/-- PARTIAL (see the comment above): when nobody attaches funds to a fee-less message, the whitelist holds nothing. -/
theorem C11_holds_nothing_partial {k : Kind} {m : InstMsg} {s0 : WL} (h : instantiate k m = .ok s0) (ops : List Op)
    (ht : ∀ op ∈ ops, op.tip = Tip.zero) : (run s0 ops).bank.bal = 0 ∧ (run s0 ops).otherBal = 0 := by
  have hs0 : s0.stray = 0 ∧ s0.strayOther = 0 := by
    by_cases hk : k = .immutable
    · subst hk; exact ⟨(inst_immutable h).2.2.2.1, (inst_immutable h).2.2.2.2.2⟩
    · exact ⟨(inst_effect hk h).2.2.2.2.2.1, (inst_effect hk h).2.2.2.2.2.2⟩
  have b := C11_balance h ops
  rw [b.1, b.2.1]
  exact C11_run_stray_zero s0 ops hs0 ht

/-! ## Non-vacuity: concrete histories satisfying the hypotheses -/

/-- a plain whitelist created with a duplicate in its list, limit 1000, exact fee -/
def exInst : InstMsg :=
  { self := 1000, funds := [⟨NATIVE, 100000000⟩], memberLimit := 1000, whaleCap := none, allowed := true,
    members := [(11, 0), (10, 0), (11, 0)], nStages := 0, stageMembers := [], distinctCap := false }

/-- The literal clause "a whitelist never holds funds" fails on the code as it is: an admin's `AddMembers` carrying
5 ustars and 7 units of another denom succeeds, and both stay in the plain whitelist (same for every other fee-less
message and the other three paying kinds). Replayed on the real contracts: corpus/C11/holds-funds-nonfee.json. -/
theorem C11_holds_funds_counterexample :
    ∃ s0, instantiate .plain exInst = .ok s0 ∧
      (run s0 [.addMembers true false ⟨5, 7⟩ 0 [(12, 0)]]).bank.bal = 5 ∧
      (run s0 [.addMembers true false ⟨5, 7⟩ 0 [(12, 0)]]).otherBal = 7 ∧
      (run s0 [.addMembers true false ⟨5, 7⟩ 0 [(12, 0)]]).feesPaid = 100000000 := by
  have h : ((instantiate .plain exInst).toOption.map fun s =>
      let s' := run s [.addMembers true false ⟨5, 7⟩ 0 [(12, 0)]]
      (s'.bank.bal, s'.otherBal, s'.feesPaid)) = some (5, 7, 100000000) := by decide
  match hi : instantiate .plain exInst, h with
  | .ok s0, h =>
    simp only [Except.toOption, Option.map_some, Option.some.injEq, Prod.mk.injEq] at h
    exact ⟨s0, rfl, h.1, h.2.1, h.2.2⟩
  | .error _, h => simp [Except.toOption] at h

example : (instantiate .plain exInst).toOption.map (fun s => (s.numMembers, s.members, s.bank, s.feesPaid)) =
    some (2, [(10, 0), (11, 0)], ⟨0, 50000000, 50000000⟩, 100000000) := by decide

/-- add an existing and a new member, cross the 1000 boundary for exactly 100 STARS, remove one member -/
example : ((instantiate .plain exInst).toOption.map fun s =>
      let s' := run s [.addMembers true false Tip.zero 0 [(11, 0), (12, 0)], .increaseLimit true [⟨NATIVE, 100000000⟩] 1001,
                       .removeMembers true Tip.zero 0 [10], .removeMembers true Tip.zero 0 [10]]
      (s'.numMembers, keys s'.members, s'.memberLimit, s'.feesPaid, s'.bank)) =
    some (2, [11, 12], 1001, 200000000, ⟨0, 100000000, 100000000⟩) := by decide

/-- flex: duplicates at instantiate are skipped (first value kept), an existing member is rejected by `AddMembers` -/
example : ((instantiate .flex { exInst with members := [(11, 3), (10, 1), (11, 9)] }).toOption.map fun s =>
      (s.numMembers, s.members, (exec s (.addMembers true false Tip.zero 0 [(12, 1), (10, 1)])).toOption.isSome,
        (exec s (.addMembers true false Tip.zero 0 [(12, 1)])).toOption.map (·.numMembers))) =
    some (2, [(10, 1), (11, 3)], false, some 3) := by decide

/-- tiered: per-stage lists, add-stage with duplicates, remove-stage drops the members of the later stages -/
example : ((instantiate .tieredFlex { exInst with nStages := 1, stageMembers := [[(10, 1), (10, 2), (11, 1)]] }).toOption.map fun s =>
      let s1 := run s [.addStage true false Tip.zero [(10, 1), (12, 1), (12, 2)]]
      let s2 := run s1 [.removeStage true Tip.zero 1]
      (s.numMembers, s1.numMembers, s1.stages.map (·.count), s2.numMembers, s2.stages.map (·.count))) =
    some (2, 4, [2, 2], 2, [2]) := by decide

/-- the two variants: with a full list (limit 2, two members) re-adding an existing member fails in the current order of
the tests and is a no-op with `hasFirst`; a flex list with a duplicate whose raw length exceeds the limit is rejected by
the current code and accepted with `distinctCap` — the count is 2 either way. -/
example : ((instantiate .plain { exInst with memberLimit := 2 }).toOption.map fun s =>
      ((exec s (.addMembers true false Tip.zero 0 [(11, 0)])).toOption.isSome,
       (exec s (.addMembers true true Tip.zero 0 [(11, 0)])).toOption.map (·.numMembers),
       (exec s (.addMembers true true Tip.zero 0 [(11, 0), (12, 0)])).toOption.isSome)) =
    some (false, some 2, false) := by decide

example : ((instantiate .flex { exInst with memberLimit := 2 }).toOption.isSome,
           (instantiate .flex { exInst with memberLimit := 2, distinctCap := true }).toOption.map (·.numMembers),
           (instantiate .flex { exInst with memberLimit := 1, distinctCap := true }).toOption.isSome) =
    (false, some 2, false) := by decide

end LP
