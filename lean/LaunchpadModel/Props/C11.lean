import LaunchpadModel.Lemmas.WlEffects
/-!
# C11 — Whitelist membership accounting, capacity and fees are exact

Model: `LP.WlMembers` (Model/WlMembers.lean) — one parametrised model of the five list-based whitelists
(`Kind`: plain, flex, tiered, tieredFlex, immutable). A *history* is a successful `instantiate k m` followed by an
arbitrary list of `Op`s (`AddMembers`, `RemoveMembers`, `AddStage`, `RemoveStage`, `IncreaseMemberLimit`, and `env` =
any message that only touches admins / times), each by an arbitrary sender at an arbitrary block time with arbitrary
arguments; a failed message leaves the state unchanged (`step`). All theorems below quantify over **every** kind,
instantiate message and op list; none is a bounded check.

Helper lemmas live in Lemmas/WlMaps.lean, WlLoops.lean, WlInv.lean (`WlInv`, `inst_inv`, `exec_inv`), WlEffects.lean.
-/
namespace LP
open LP.WlMembers

/-! ## Reachable states -/

theorem C11_step_inv {s : WL} (op : Op) (hi : WlInv s) : WlInv (step s op) := by
  unfold step
  split
  · rename_i s' h; exact exec_inv hi h
  · exact hi

theorem C11_run_inv {s : WL} (ops : List Op) (hi : WlInv s) : WlInv (run s ops) := by
  induction ops generalizing s with
  | nil => exact hi
  | cons op ops ih => exact ih (C11_step_inv op hi)

/-- The accounting invariant holds after a successful instantiate and after every history. -/
theorem C11_invariant {k : Kind} {m : InstMsg} {s0 : WL} (h : instantiate k m = .ok s0) (ops : List Op) :
    WlInv (run s0 ops) :=
  C11_run_inv ops (inst_inv h)

theorem C11_step_frame (s : WL) (op : Op) :
    (step s op).kind = s.kind ∧ s.memberLimit ≤ (step s op).memberLimit ∧ (step s op).stray ≤ s.stray + op.tip := by
  unfold step
  split
  · rename_i s' h
    have f := exec_frame h
    exact ⟨f.1, f.2.1, by rw [f.2.2]; exact Nat.le_refl _⟩
  · exact ⟨rfl, Nat.le_refl _, Nat.le_add_right _ _⟩

theorem C11_run_kind (s : WL) (ops : List Op) : (run s ops).kind = s.kind := by
  induction ops generalizing s with
  | nil => rfl
  | cons op ops ih =>
    have : run s (op :: ops) = run (step s op) ops := rfl
    rw [this, ih, (C11_step_frame s op).1]

/-! ## Count = number of distinct stored members -/

/-- "the reported member count always equals the number of distinct members actually stored (per stage and in
total)": `num_members` = total number of stored `(stage, address)` entries; within every map the addresses are
pairwise distinct (so entries = distinct members); `MEMBER_COUNT[k]` = number of entries stored under stage `k`. -/
theorem C11_count {k : Kind} {m : InstMsg} {s0 : WL} (h : instantiate k m = .ok s0) (ops : List Op) :
    let s := run s0 ops
    s.numMembers = s.members.length + (s.stages.map (fun g => g.members.length)).sum ∧
    (keys s.members).Nodup ∧
    ∀ g ∈ s.stages, g.count = g.members.length ∧ (keys g.members).Nodup := by
  intro s
  have hi := C11_invariant h ops
  exact ⟨hi.count_total, hi.flat_sorted.nodup, fun g hg => ⟨(hi.stages_ok g hg).2, (hi.stages_ok g hg).1.nodup⟩⟩

/-! ## Capacity -/

/-- "never exceeds the member limit, and the limit never exceeds the contract maximum" (the immutable whitelist
has no limit). -/
theorem C11_capacity {k : Kind} {m : InstMsg} {s0 : WL} (hk : k ≠ .immutable) (h : instantiate k m = .ok s0) (ops : List Op) :
    (run s0 ops).numMembers ≤ (run s0 ops).memberLimit ∧ (run s0 ops).memberLimit ≤ k.maxMembers := by
  have hi := C11_invariant h ops
  have hkind : (run s0 ops).kind = k := by rw [C11_run_kind]; exact (inst_effect hk h).1
  have := hi.capacity (by rw [hkind]; exact hk)
  rw [hkind] at this; exact this

/-- "… or decreases": the limit is non-decreasing along every history (any state, any continuation). -/
theorem C11_limit_monotone (s : WL) (ops : List Op) : s.memberLimit ≤ (run s ops).memberLimit := by
  induction ops generalizing s with
  | nil => exact Nat.le_refl _
  | cons op ops ih =>
    have : run s (op :: ops) = run (step s op) ops := rfl
    rw [this]
    exact Nat.le_trans (C11_step_frame s op).2.1 (ih (step s op))

theorem C11_limit_monotone_between (s : WL) (ops ops' : List Op) :
    (run s ops).memberLimit ≤ (run s (ops ++ ops')).memberLimit := by
  have : run s (ops ++ ops') = run (run s ops) ops' := by simp [run, List.foldl_append]
  rw [this]; exact C11_limit_monotone _ _

/-! ## Membership queries -/

/-- "Membership queries answer true exactly for stored members" — flat kinds (`HasMember`) and the immutable
whitelist (`IncludesAddress`): the answer is `true` iff the address is a key of the stored map. -/
theorem C11_has_member_iff_flat (s : WL) (now a : Nat) (ht : s.kind.isTiered = false) (b : Bool)
    (h : queryHasMember s now a = some b) : (b = true ↔ a ∈ keys s.members) := by
  unfold queryHasMember at h
  split at h
  · cases h; exact hasM_iff a s.members
  · split at h
    · exact absurd h (by simp)
    · rw [ht] at h; simp only [Bool.false_eq_true, if_false] at h
      cases h; exact hasM_iff a s.members

/-- tiered kinds: `HasMember` is `true` iff there is an active stage and the address is stored under it. -/
theorem C11_has_member_iff_tiered (s : WL) (now a : Nat) (ht : s.kind.isTiered = true) (b : Bool)
    (h : queryHasMember s now a = some b) :
    (b = true ↔ ∃ i, activeIdx now s.stages = some i ∧ a ∈ keys (mapOf s i)) := by
  unfold queryHasMember at h
  split at h
  · rename_i hk
    have : s.kind = .immutable := by simpa using hk
    rw [this] at ht; exact absurd ht (by decide)
  · split at h
    · exact absurd h (by simp)
    · try (rw [ht] at h; simp only [if_true] at h)
      split at h
      · rename_i i hi
        cases h
        rw [hasM_iff]
        constructor
        · intro hm; exact ⟨i, hi, hm⟩
        · rintro ⟨j, hj, hm⟩
          rw [hi] at hj; cases hj; exact hm
      · rename_i hn
        cases h
        constructor
        · intro hf; exact absurd hf (by simp)
        · rintro ⟨j, hj, _⟩; rw [hn] at hj; exact absurd hj (by simp)

/-- a valid address always gets an answer -/
theorem C11_has_member_total (s : WL) (now a : Nat) (hv : validAddr a = true) : ∃ b, queryHasMember s now a = some b := by
  unfold queryHasMember
  split
  · exact ⟨_, rfl⟩
  · simp only [hv, Bool.not_true, Bool.false_eq_true, if_false]
    split
    · split <;> exact ⟨_, rfl⟩
    · exact ⟨_, rfl⟩

/-- tiered kinds: `StageMemberInfo{stage, member}.is_member` is `true` iff the address is stored under that stage. -/
theorem C11_stage_member_iff (s : WL) (stage a : Nat) (b : Bool) (h : queryStageMember s stage a = some b) :
    (b = true ↔ a ∈ keys (mapOf s stage)) := by
  unfold queryStageMember at h
  split at h
  · exact absurd h (by simp)
  · split at h
    · exact absurd h (by simp)
    · cases h; exact hasM_iff a _

/-- flex kinds: `Member{member}` returns a mint count iff the address is stored (in the map it reads) -/
theorem C11_member_query_flat (s : WL) (now a : Nat) (ht : s.kind.isTiered = false) (c : Nat)
    (h : queryMember s now a = some c) : a ∈ keys s.members := by
  unfold queryMember at h
  split at h
  · exact absurd h (by simp)
  · rw [ht] at h; simp only [Bool.false_eq_true, if_false] at h
    exact (getM_isSome_iff a s.members).mp (by rw [h]; rfl)

/-- one page of the `Members` query never shows anything that is not stored -/
theorem C11_members_page_sound (s : WL) (stage : Nat) (after : Option Nat) (limit : Option Nat) (l : List Member)
    (h : queryMembers s stage after limit = some l) : ∀ x ∈ l, x ∈ mapOf s stage := by
  unfold queryMembers at h
  dsimp only at h
  split at h
  · cases h; intro x hx; exact List.mem_of_mem_take hx
  · split at h
    · cases h; intro x hx; exact (List.mem_filter.mp (List.mem_of_mem_take hx)).1
    · exact absurd h (by simp)

/-- Paging the `Members` query to exhaustion (any page size ≥ 1) enumerates exactly the stored map, in key order —
in every reachable state of the four paging whitelists. (This is what the harness does to observe the stored set.) -/
theorem C11_members_paging_complete {k : Kind} {m : InstMsg} {s0 : WL} (hk : k ≠ .immutable) (h : instantiate k m = .ok s0)
    (ops : List Op) (stage pg : Nat) (hpg : 1 ≤ pg) :
    walkPages (run s0 ops) stage pg ((mapOf (run s0 ops) stage).length + 1) none [] = mapOf (run s0 ops) stage := by
  have hi := C11_invariant h ops
  have hkind : (run s0 ops).kind ≠ .immutable := by rw [C11_run_kind, (inst_effect hk h).1]; exact hk
  exact walkPages_complete _ stage pg hpg (sorted_mapOf hi stage) (valid_mapOf hi hkind stage) _ [] _ rfl (Nat.lt_succ_self _)

/-! ## Adding and removing -/

/-- "adding an existing member is skipped or rejected but never double-counted": after a successful `AddMembers`
exactly the old and the listed addresses are stored in the targeted map, the counter grew by exactly the number of
*new* map entries, an already stored member keeps its stored value, and on `whitelist-flex` success implies that no
listed address was stored before or listed twice (otherwise the call is rejected, `C11_add_flex_rejects`). -/
theorem C11_add_exact {k : Kind} {m : InstMsg} {s0 : WL} (h0 : instantiate k m = .ok s0) (ops : List Op)
    (sender now tip stage : Nat) (ms : List Member) (s' : WL)
    (h : exec (run s0 ops) (.addMembers sender now tip stage ms) = .ok s') :
    let s := run s0 ops
    (∀ a, a ∈ keys (mapOf s' stage) ↔ a ∈ keys (mapOf s stage) ∨ a ∈ keys ms) ∧
    s'.numMembers + (mapOf s stage).length = s.numMembers + (mapOf s' stage).length ∧
    (∀ a ∈ keys (mapOf s stage), getM a (mapOf s' stage) = getM a (mapOf s stage)) ∧
    (s.kind = .flex → (∀ a ∈ keys ms, a ∉ keys (mapOf s stage)) ∧ (keys ms).Nodup) := by
  intro s
  have e := add_effect (C11_invariant h0 ops) h
  exact ⟨e.2.1, e.2.2.1, e.2.2.2.1, e.2.2.2.2⟩

/-- Idempotence: re-adding only members that are already stored changes neither the count nor the stored set. -/
theorem C11_add_idempotent {k : Kind} {m : InstMsg} {s0 : WL} (h0 : instantiate k m = .ok s0) (ops : List Op)
    (sender now tip stage : Nat) (ms : List Member) (s' : WL)
    (h : exec (run s0 ops) (.addMembers sender now tip stage ms) = .ok s')
    (hall : ∀ a ∈ keys ms, a ∈ keys (mapOf (run s0 ops) stage)) :
    s'.numMembers = (run s0 ops).numMembers ∧
    (∀ a, a ∈ keys (mapOf s' stage) ↔ a ∈ keys (mapOf (run s0 ops) stage)) := by
  have hi := C11_invariant h0 ops
  have e := add_effect hi h
  have hmem : ∀ a, a ∈ keys (mapOf s' stage) ↔ a ∈ keys (mapOf (run s0 ops) stage) := by
    intro a; rw [e.2.1 a]
    constructor
    · rintro (h1 | h1)
      · exact h1
      · exact hall a h1
    · exact Or.inl
  have hi' : WlInv s' := exec_inv hi h
  have p := (List.perm_ext_iff_of_nodup (sorted_mapOf hi' stage).nodup (sorted_mapOf hi stage).nodup).mpr hmem
  have hl := p.length_eq
  rw [keys_length, keys_length] at hl
  have := e.2.2.1
  exact ⟨by omega, hmem⟩

/-- `whitelist-flex` rejects a list that names an already stored member. -/
theorem C11_add_flex_rejects {m : InstMsg} {s0 : WL} (h0 : instantiate .flex m = .ok s0) (ops : List Op)
    (sender now tip stage : Nat) (ms : List Member)
    (hex : ∃ a ∈ keys ms, a ∈ keys (mapOf (run s0 ops) stage)) :
    ∀ s', exec (run s0 ops) (.addMembers sender now tip stage ms) ≠ .ok s' := by
  intro s' h
  have hk : (run s0 ops).kind = .flex := by
    rw [C11_run_kind]; exact (inst_effect (by decide) h0).1
  have e := add_effect (C11_invariant h0 ops) h
  obtain ⟨a, ha, hs⟩ := hex
  exact (e.2.2.2.2 hk).1 a ha hs

/-- "removing requires existing members": a successful `RemoveMembers` only names stored members, each once; they
are gone afterwards, everything else stays, and the count drops by exactly their number. -/
theorem C11_remove_requires_member {k : Kind} {m : InstMsg} {s0 : WL} (h0 : instantiate k m = .ok s0) (ops : List Op)
    (sender now tip stage : Nat) (as : List Nat) (s' : WL)
    (h : exec (run s0 ops) (.removeMembers sender now tip stage as) = .ok s') :
    let s := run s0 ops
    (∀ a ∈ as, a ∈ keys (mapOf s stage)) ∧ as.Nodup ∧
    (∀ x, x ∈ keys (mapOf s' stage) ↔ x ∈ keys (mapOf s stage) ∧ x ∉ as) ∧
    s'.numMembers + as.length = s.numMembers := by
  intro s
  have e := remove_effect (C11_invariant h0 ops) h
  exact ⟨e.2.1, e.2.2.1, e.2.2.2.1, e.2.2.2.2⟩

/-- removing an address that is not stored (or the same address twice) fails -/
theorem C11_remove_nonmember_rejected {k : Kind} {m : InstMsg} {s0 : WL} (h0 : instantiate k m = .ok s0) (ops : List Op)
    (sender now tip stage : Nat) (as : List Nat)
    (hbad : (∃ a ∈ as, a ∉ keys (mapOf (run s0 ops) stage)) ∨ ¬ as.Nodup) :
    ∀ s', exec (run s0 ops) (.removeMembers sender now tip stage as) ≠ .ok s' := by
  intro s' h
  have e := remove_effect (C11_invariant h0 ops) h
  rcases hbad with ⟨a, ha, hn⟩ | hn
  · exact hn (e.2.1 a ha)
  · exact hn e.2.2.1

/-! ## Fees -/

/-- every fee-charging crate prices a started thousand at 100 STARS (the literal of the property text) -/
theorem C11_price (k : Kind) (hk : k ≠ .immutable) : k.price = 100000000 := by
  cases k <;> first | rfl | exact absurd rfl hk

/-- "The fees ever paid to a plain, flex or tiered whitelist equal 100 STARS per started thousand of its current
member limit" — the telescoping identity, for every history. -/
theorem C11_fee_identity {k : Kind} {m : InstMsg} {s0 : WL} (hk : k ≠ .immutable) (h : instantiate k m = .ok s0) (ops : List Op) :
    (run s0 ops).feesPaid = ((run s0 ops).memberLimit + 999) / 1000 * 100000000 := by
  have hi := C11_invariant h ops
  have hkind : (run s0 ops).kind = k := by rw [C11_run_kind]; exact (inst_effect hk h).1
  rw [hi.fees, hkind, C11_price k hk]; rfl

/-- the immutable whitelist is free and `nonpayable` -/
theorem C11_fee_immutable {m : InstMsg} {s0 : WL} (h : instantiate .immutable m = .ok s0) (ops : List Op) :
    m.funds = [] ∧ (run s0 ops).feesPaid = 0 := by
  have hi := C11_invariant h ops
  have hkind : (run s0 ops).kind = .immutable := by rw [C11_run_kind]; exact (inst_immutable h).1
  refine ⟨(inst_immutable h).2.1, ?_⟩
  rw [hi.fees, hkind]; simp [Kind.price]

theorem mustPay_exact {funds : List Coin} {d v : Nat} (h : mustPay funds d = .ok v) : funds = [⟨d, v⟩] := by
  unfold mustPay at h
  split at h
  · rename_i c
    split at h
    · exact absurd h (by simp)
    · split at h
      · rename_i hd
        simp only [Except.ok.injEq] at h
        cases c with
        | mk dd aa => simp only [] at hd h; subst hd; subst h; rfl
      · exact absurd h (by simp)
  · exact absurd h (by simp)

/-- "each fee must be paid exactly" — creation: exactly one native coin of 100 STARS × started thousands. -/
theorem C11_fee_exact_instantiate {k : Kind} {m : InstMsg} {s0 : WL} (hk : k ≠ .immutable) (h : instantiate k m = .ok s0) :
    m.funds = [⟨NATIVE, (m.memberLimit + 999) / 1000 * 100000000⟩] := by
  have e := inst_effect hk h
  have hp := e.2.2.2.1
  unfold creationFee at hp; rw [C11_price k hk] at hp
  exact mustPay_exact hp

/-- "each fee must be paid exactly" — increase: the attached funds are exactly the difference of the tier prices
(nothing when no thousand boundary is crossed), and the new limit is strictly larger and at most the maximum. -/
theorem C11_fee_exact_increase (s s' : WL) (sender now : Nat) (funds : List Coin) (limit : Nat) (hk : s.kind ≠ .immutable)
    (h : exec s (.increaseLimit sender now funds limit) = .ok s') :
    s.memberLimit < limit ∧ limit ≤ s.kind.maxMembers ∧ s'.memberLimit = limit ∧
    mayPay funds NATIVE = .ok (((limit + 999) / 1000 - (s.memberLimit + 999) / 1000) * 100000000) ∧
    s'.feesPaid = s.feesPaid + ((limit + 999) / 1000 - (s.memberLimit + 999) / 1000) * 100000000 := by
  have e := incr_effect h
  have hu : upgradeFee s.kind s.memberLimit limit = ((limit + 999) / 1000 - (s.memberLimit + 999) / 1000) * 100000000 := by
    unfold upgradeFee; rw [C11_price s.kind hk]
    unfold tiers
    split
    · rfl
    · rename_i hn
      have : (limit + 999) / 1000 - (s.memberLimit + 999) / 1000 = 0 := by omega
      rw [this]
  rw [hu] at e; exact e

/-- "all of it is burned/forwarded so a whitelist never holds funds": after every history the contract's balance
consists exactly of the funds callers attached to messages that charge no fee (`stray`; the contracts never call
`nonpayable`), and every fee ever paid has been burned or sent to the fair-burn pool. -/
theorem C11_balance {k : Kind} {m : InstMsg} {s0 : WL} (h : instantiate k m = .ok s0) (ops : List Op) :
    (run s0 ops).bank.bal = (run s0 ops).stray ∧
    (run s0 ops).bank.burned + (run s0 ops).bank.pool = (run s0 ops).feesPaid := by
  have hi := C11_invariant h ops
  exact ⟨hi.bal, hi.burnt⟩

theorem C11_run_stray_zero (s : WL) (ops : List Op) (hs : s.stray = 0) (ht : ∀ op ∈ ops, op.tip = 0) : (run s ops).stray = 0 := by
  induction ops generalizing s with
  | nil => exact hs
  | cons op ops ih =>
    have : run s (op :: ops) = run (step s op) ops := rfl
    rw [this]
    apply ih
    · have f := (C11_step_frame s op).2.2
      rw [hs, ht op List.mem_cons_self] at f; omega
    · intro o ho; exact ht o (List.mem_cons_of_mem _ ho)

/-- When nobody attaches funds to a fee-less message, the whitelist's balance is 0 after every step. -/
theorem C11_holds_nothing {k : Kind} {m : InstMsg} {s0 : WL} (h : instantiate k m = .ok s0) (ops : List Op)
    (ht : ∀ op ∈ ops, op.tip = 0) : (run s0 ops).bank.bal = 0 := by
  have hs0 : s0.stray = 0 := by
    by_cases hk : k = .immutable
    · subst hk; exact (inst_immutable h).2.2.2.1
    · exact (inst_effect hk h).2.2.2.2.2
  rw [(C11_balance h ops).1]
  exact C11_run_stray_zero s0 ops hs0 ht

/-! ## Non-vacuity: concrete histories satisfying the hypotheses -/

/-- a plain whitelist created with a duplicate in its list, limit 1000, exact fee -/
def exInst : InstMsg :=
  { self := 1000, now := GENESIS + 5, funds := [⟨NATIVE, 100000000⟩], memberLimit := 1000, whaleCap := none, admins := [5],
    start := GENESIS + 10, stop := GENESIS + 20, members := [(11, 0), (10, 0), (11, 0)], stageTimes := [], stageMembers := [] }

example : (instantiate .plain exInst).toOption.map (fun s => (s.numMembers, s.members, s.bank, s.feesPaid)) =
    some (2, [(10, 0), (11, 0)], ⟨0, 50000000, 50000000⟩, 100000000) := by decide

/-- add an existing and a new member, cross the 1000 boundary for exactly 100 STARS, remove one member -/
example : ((instantiate .plain exInst).toOption.map fun s =>
      let s' := run s [.addMembers 5 (GENESIS + 6) 0 0 [(11, 0), (12, 0)], .increaseLimit 7 (GENESIS + 6) [⟨NATIVE, 100000000⟩] 1001,
                       .removeMembers 5 (GENESIS + 7) 0 0 [10], .removeMembers 5 (GENESIS + 7) 0 0 [10]]
      (s'.numMembers, keys s'.members, s'.memberLimit, s'.feesPaid, s'.bank)) =
    some (2, [11, 12], 1001, 200000000, ⟨0, 100000000, 100000000⟩) := by decide

/-- flex: duplicates at instantiate are skipped (first value kept), an existing member is rejected by `AddMembers` -/
example : ((instantiate .flex { exInst with members := [(11, 3), (10, 1), (11, 9)] }).toOption.map fun s =>
      (s.numMembers, s.members, (exec s (.addMembers 5 (GENESIS + 6) 0 0 [(12, 1), (10, 1)])).toOption.isSome,
        (exec s (.addMembers 5 (GENESIS + 6) 0 0 [(12, 1)])).toOption.map (·.numMembers))) =
    some (2, [(10, 1), (11, 3)], false, some 3) := by decide

/-- tiered: per-stage lists, add-stage with duplicates, remove-stage drops the members of the later stages -/
example : ((instantiate .tieredFlex { exInst with stageTimes := [(GENESIS + 10, GENESIS + 20)], stageMembers := [[(10, 1), (10, 2), (11, 1)]] }).toOption.map fun s =>
      let s1 := run s [.addStage 5 (GENESIS + 6) 0 (GENESIS + 20) (GENESIS + 30) [(10, 1), (12, 1), (12, 2)]]
      let s2 := run s1 [.removeStage 5 (GENESIS + 6) 0 1]
      (s.numMembers, s1.numMembers, s1.stages.map (·.count), s2.numMembers, s2.stages.map (·.count))) =
    some (2, 4, [2, 2], 2, [2]) := by decide

end LP
