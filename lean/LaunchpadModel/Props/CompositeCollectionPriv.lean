import LaunchpadModel.Lemmas.CollectionFullRoyalty
import LaunchpadModel.Props.C05
/-!
# Refinement: the collection composite `LP.CF` refines the collection rows of the privilege aspect model `LP.Priv` (C05)

* projection `authOf A c b`: the `Priv.AuthState` whose collection fields (cw_ownable owner / pending owner / `AtTime` expiry of
  the pending transfer, creator, info freeze flag, block time) are those of the composite's collection and whose other
  fields (minter admin, whitelist / splits / group state, params, status — outside the family) are those of an arbitrary `A`;
* translation: a composite message ↦ `Priv.Op.exec ⟨sender, isContract⟩ (.collection kind) (msgKind m) (argsOf m) true`
  (the "all other preconditions held" witness is `true`: the forward direction is about ACCEPTED messages);
* forward simulation `C05_full_refines`: an accepted composite message IS an accepted `Priv` step with the projected
  post-state (the authorisation table `Priv.collPrincipal` reserves the message to a principal the sender satisfies, and the
  hand-over effects agree); hence `C05_full_reject`: whoever does not satisfy the table's principal is rejected by the
  composite (inherits `C05_reject`), for every collection kind, message kind, funds and block.
-/
namespace LP
open LP.CF
open LP.Sg721 (Kind Block Exp)

namespace CF

def cKind : Kind → Priv.CollKind
  | .base => .base | .updatable => .updatable | .nt => .nt | .onchain => .metadataOnchain

def msgKind : ExecMsg → Priv.MsgKind
  | .transferNft .. => .transferNft
  | .sendNft .. => .sendNft
  | .approve .. => .approve
  | .revoke .. => .revoke
  | .approveAll .. => .approveAll
  | .revokeAll .. => .revokeAll
  | .mint .. => .mint
  | .burn .. => .burn
  | .extension => .extension
  | .updateCollectionInfo _ => .updateCollectionInfo
  | .updateStartTradingTime _ => .updateStartTradingTime
  | .freezeCollectionInfo => .freezeCollectionInfo
  | .updateOwnership (.transfer ..) => .transferOwnership
  | .updateOwnership .accept => .acceptOwnership
  | .updateOwnership .renounce => .renounceOwnership
  | .freezeTokenMetadata => .freezeTokenMetadata
  | .updateTokenMetadata .. => .updateTokenMetadata
  | .enableUpdatable => .enableUpdatable

/-- `Priv` models the `AtTime` expiry of a pending hand-over only -/
def expTime : Option Exp → Option Nat
  | some (.atTime t) => some t
  | _ => none

def argsOf : ExecMsg → Priv.Args
  | .updateCollectionInfo u => { newCreator := u.creator }
  | .updateOwnership (.transfer n ex) => { newOwner := n, expiry := expTime ex }
  | _ => {}

def authOf (A : Priv.AuthState) (c : Sg721.State) (b : Block) : Priv.AuthState :=
  { A with now := b.time, collOwner := c.ownership.owner, collPending := c.ownership.pending,
           collPendingExpiry := expTime c.ownership.pendingExpiry, creator := c.info.creator, collFrozen := c.frozenInfo }

end CF

/-- **C05 forward simulation (collection rows)**: an accepted composite message is an accepted `Priv` step on the
projection, with the projected post-state — for every `A` (the rest of the authorisation world) and either answer to
"is the sender a contract" -/
theorem C05_full_refines (A : Priv.AuthState) (ic : Bool) (c core' : Sg721.State) (b : Block) (sender : Addr)
    (funds : List Coin) (m : ExecMsg) (h : Sg721.exec c ⟨b, sender, funds, toExec c b m⟩ = .ok core') :
    Priv.step (authOf A c b) (.exec ⟨sender, ic⟩ (.collection (cKind c.kind)) (msgKind m) (argsOf m) true) =
      some (authOf A core' b) := by
  obtain ⟨hs, e⟩ := Sg721.exec_eff' h
  cases m with
  | updateCollectionInfo u =>
    have h' : Sg721.exec c ⟨b, sender, funds, .updateCollectionInfo u.toSg (royAccepted c b u)⟩ = .ok core' := h
    obtain ⟨hfz, hcr, _, _, _, _, hres⟩ := (uci_ok_iff c b sender funds u core').1 h'
    have hcore : authOf A core' b = { authOf A c b with creator := u.creator.getD c.info.creator } := by
      cases hroy : u.royalty with
      | none => rw [hroy] at hres; rw [hres]; rfl
      | some r => rw [hroy] at hres; rw [hres.2]; rfl
    rw [hcore]
    cases hk : c.kind <;>
      simp [Priv.step, Priv.principal, Priv.collPrincipal, Priv.authorised, Priv.effect, cKind, msgKind, argsOf, authOf, hfz, hcr]
  | updateOwnership a =>
    simp only [toExec] at e hs
    cases a with
    | transfer n ex =>
      cases e with
      | ownTransfer _ _ ho _ =>
        cases hk : c.kind <;> simp [hk, Sg721.supported] at hs <;>
          simp [Priv.step, Priv.principal, Priv.collPrincipal, Priv.authorised, Priv.effect, cKind, msgKind, argsOf, authOf, ho, expTime]
    | accept =>
      cases e with
      | ownAccept hp hex =>
        have hne : Priv.transferExpired (authOf A c b) = false := by
          unfold Priv.transferExpired authOf expTime
          simp only
          cases hpe : c.ownership.pendingExpiry with
          | none => rfl
          | some ex =>
            cases ex with
            | atTime t => have := hex _ hpe; simpa [Sg721.Exp.isExpired] using this
            | atHeight hh => rfl
            | never => rfl
        cases hk : c.kind <;> simp [hk, Sg721.supported] at hs <;>
          simp [Priv.step, Priv.principal, Priv.collPrincipal, Priv.authorised, Priv.effect, cKind, msgKind, hne] <;>
          simp [authOf, hp, expTime]
    | renounce =>
      cases e with
      | ownRenounce ho =>
        cases hk : c.kind <;> simp [hk, Sg721.supported] at hs <;>
          simp [Priv.step, Priv.principal, Priv.collPrincipal, Priv.authorised, Priv.effect, cKind, msgKind, authOf, ho, expTime]
  | freezeCollectionInfo =>
    simp only [toExec] at e
    cases e with
    | freeze hc =>
      cases hk : c.kind <;>
        simp [Priv.step, Priv.principal, Priv.collPrincipal, Priv.authorised, Priv.effect, cKind, msgKind, authOf, hc]
  | updateStartTradingTime t =>
    simp only [toExec] at e hs
    cases e with
    | ustt _ ho =>
      cases hk : c.kind <;> simp [hk, Sg721.supported] at hs <;>
        simp [Priv.step, Priv.principal, Priv.collPrincipal, Priv.authorised, Priv.effect, cKind, msgKind, authOf, ho]
  | mint id owner uri ext =>
    simp only [toExec] at e
    cases e with
    | mint _ _ _ _ ho _ _ =>
      cases hk : c.kind <;>
        simp [Priv.step, Priv.principal, Priv.collPrincipal, Priv.authorised, Priv.effect, cKind, msgKind, authOf, ho]
  | burn id =>
    simp only [toExec] at e
    cases e
    cases hk : c.kind <;>
      simp [Priv.step, Priv.principal, Priv.collPrincipal, Priv.authorised, Priv.effect, cKind, msgKind, authOf, Sg721.State.removeToken]
  | extension => simp only [toExec] at e; cases e
  | transferNft r id =>
    simp only [toExec] at e hs
    cases e
    cases hk : c.kind <;> simp [hk, Sg721.supported] at hs <;>
      simp [Priv.step, Priv.principal, Priv.collPrincipal, Priv.authorised, Priv.effect, cKind, msgKind, authOf, Sg721.State.setToken]
  | sendNft k id ok =>
    simp only [toExec] at e hs
    cases e
    cases hk : c.kind <;> simp [hk, Sg721.supported] at hs <;>
      simp [Priv.step, Priv.principal, Priv.collPrincipal, Priv.authorised, Priv.effect, cKind, msgKind, authOf, Sg721.State.setToken]
  | approve sp id ex =>
    simp only [toExec] at e hs
    cases e
    cases hk : c.kind <;> simp [hk, Sg721.supported] at hs <;>
      simp [Priv.step, Priv.principal, Priv.collPrincipal, Priv.authorised, Priv.effect, cKind, msgKind, authOf, Sg721.State.setToken]
  | revoke sp id =>
    simp only [toExec] at e hs
    cases e
    cases hk : c.kind <;> simp [hk, Sg721.supported] at hs <;>
      simp [Priv.step, Priv.principal, Priv.collPrincipal, Priv.authorised, Priv.effect, cKind, msgKind, authOf, Sg721.State.setToken]
  | approveAll o ex =>
    simp only [toExec] at e hs
    cases e
    cases hk : c.kind <;> simp [hk, Sg721.supported] at hs <;>
      simp [Priv.step, Priv.principal, Priv.collPrincipal, Priv.authorised, Priv.effect, cKind, msgKind, authOf]
  | revokeAll o =>
    simp only [toExec] at e hs
    cases e
    cases hk : c.kind <;> simp [hk, Sg721.supported] at hs <;>
      simp [Priv.step, Priv.principal, Priv.collPrincipal, Priv.authorised, Priv.effect, cKind, msgKind, authOf]
  | freezeTokenMetadata =>
    simp only [toExec] at e hs
    cases e with
    | freezeMeta _ hc =>
      cases hk : c.kind <;> simp [hk, Sg721.supported] at hs <;>
        simp [Priv.step, Priv.principal, Priv.collPrincipal, Priv.authorised, Priv.effect, cKind, msgKind, authOf, hc]
  | updateTokenMetadata id uri =>
    simp only [toExec] at e hs
    cases e with
    | utm _ _ _ _ hc _ _ _ =>
      cases hk : c.kind <;> simp [hk, Sg721.supported] at hs <;>
        simp [Priv.step, Priv.principal, Priv.collPrincipal, Priv.authorised, Priv.effect, cKind, msgKind, authOf, hc, Sg721.State.setToken]
  | enableUpdatable =>
    simp only [toExec] at e hs
    cases e with
    | enable _ hc =>
      cases hk : c.kind <;> simp [hk, Sg721.supported] at hs <;>
        simp [Priv.step, Priv.principal, Priv.collPrincipal, Priv.authorised, Priv.effect, cKind, msgKind, authOf, hc]

/-- **"a caller who is not the principal is rejected"**, collection rows, on the composite: whoever does not satisfy the
principal the table reserves the message to (minter = cw_ownable owner, pending owner, creator, nobody) cannot get the
message accepted — whatever funds, arguments, block and state (inherits `C05_reject`) -/
theorem C05_full_reject (A : Priv.AuthState) (ic : Bool) (s : State) (c : Coll) (sender : Addr) (funds : List Coin)
    (m : ExecMsg) (hc : s.coll = some c)
    (hna : Priv.authorised (authOf A c.core s.block) ⟨sender, ic⟩
      (Priv.principal (.collection (cKind c.core.kind)) (msgKind m)) = false) :
    accepted s (.exec sender funds m) = false := by
  cases h : step s (.exec sender funds m) with
  | error e => exact accepted_err h
  | ok s' =>
    obtain ⟨c0, _, core', _, hc0, _, hcore, _, _⟩ := exec_ok h
    rw [hc] at hc0; cases hc0
    have h1 := C05_full_refines A ic c.core core' s.block sender funds m hcore
    have hpriv : Priv.privileged (.collection (cKind c.core.kind)) (msgKind m) = true := by
      unfold Priv.privileged
      cases hp : Priv.principal (.collection (cKind c.core.kind)) (msgKind m) <;> first | rfl | (rw [hp] at hna; simp [Priv.authorised] at hna)
    have h2 := C05_reject (authOf A c.core s.block) ⟨sender, ic⟩ (.collection (cKind c.core.kind)) (msgKind m) (argsOf m) true hpriv hna
    rw [h2.1] at h1; cases h1

end LP
