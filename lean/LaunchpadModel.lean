-- Root of the `LaunchpadModel` library. Per-property targets are built by name
-- (`lake build LaunchpadModel.Props.Cxx drv_cxx`), see /verif/check.
import LaunchpadModel.Model.Basic
import LaunchpadModel.Model.Decimal
import LaunchpadModel.Model.Proto
import LaunchpadModel.Model.Sg1
